(* Generic driver for the extracted model.
   stdin : one case per line:  <entry-name> <sexp>
   stdout: one result sexp per line.
   sexp  : atoms are hexadecimal integers with optional leading '-', lists are ( ... ).
   Integers are converted bit by bit to the extracted Coq [positive]/[Z]; no OCaml int
   ever carries model data. *)
module M = Model

let rec pos_of_bits = function
  (* most significant bit first, leading 1 already consumed into acc *)
  | (acc, []) -> acc
  | (acc, b :: r) -> pos_of_bits ((if b then M.XI acc else M.XO acc), r)

let bits_of_hex (s : string) (i0 : int) : bool list =
  let l = ref [] in
  for i = String.length s - 1 downto i0 do
    let c = s.[i] in
    let v =
      if c >= '0' && c <= '9' then Char.code c - 48
      else if c >= 'a' && c <= 'f' then Char.code c - 87
      else failwith ("bad hex digit in " ^ s) in
    l := ((v land 8) <> 0) :: ((v land 4) <> 0) :: ((v land 2) <> 0) :: ((v land 1) <> 0) :: !l
  done;
  !l

let z_of_atom (s : string) : M.z =
  let neg = String.length s > 0 && s.[0] = '-' in
  let bits = bits_of_hex s (if neg then 1 else 0) in
  let rec strip = function false :: r -> strip r | l -> l in
  match strip bits with
  | [] -> M.Z0
  | _ :: r -> let p = pos_of_bits (M.XH, r) in if neg then M.Zneg p else M.Zpos p

let rec bits_of_pos (p : M.positive) (acc : bool list) : bool list =
  match p with
  | M.XH -> true :: acc
  | M.XO q -> bits_of_pos q (false :: acc)
  | M.XI q -> bits_of_pos q (true :: acc)

let hex_of_pos (p : M.positive) : string =
  let bits = bits_of_pos p [] in
  let n = List.length bits in
  let pad = (4 - n mod 4) mod 4 in
  let bits = List.init pad (fun _ -> false) @ bits in
  let buf = Buffer.create 16 in
  let rec go = function
    | a :: b :: c :: d :: r ->
        let v = (if a then 8 else 0) + (if b then 4 else 0) + (if c then 2 else 0) + (if d then 1 else 0) in
        Buffer.add_char buf "0123456789abcdef".[v]; go r
    | [] -> ()
    | _ -> assert false in
  go bits; Buffer.contents buf

let atom_of_z = function
  | M.Z0 -> "0"
  | M.Zpos p -> hex_of_pos p
  | M.Zneg p -> "-" ^ hex_of_pos p

(* parser *)
let parse (s : string) (start : int) : M.sx =
  let n = String.length s in
  let pos = ref start in
  let skip () = while !pos < n && (s.[!pos] = ' ' || s.[!pos] = '\t' || s.[!pos] = '\r') do incr pos done in
  let rec item () : M.sx =
    skip ();
    if !pos >= n then failwith "unexpected end";
    if s.[!pos] = '(' then begin
      incr pos;
      let acc = ref [] in
      let fin = ref false in
      while not !fin do
        skip ();
        if !pos >= n then failwith "unclosed (";
        if s.[!pos] = ')' then (incr pos; fin := true)
        else acc := item () :: !acc
      done;
      M.L (List.rev !acc)
    end else begin
      let b = !pos in
      while !pos < n && s.[!pos] <> ' ' && s.[!pos] <> '(' && s.[!pos] <> ')' do incr pos done;
      M.I (z_of_atom (String.sub s b (!pos - b)))
    end in
  item ()

let rec print buf (x : M.sx) =
  match x with
  | M.I z -> Buffer.add_string buf (atom_of_z z)
  | M.L l ->
      Buffer.add_char buf '(';
      List.iteri (fun i y -> if i > 0 then Buffer.add_char buf ' '; print buf y) l;
      Buffer.add_char buf ')'

let n_of_int (i : int) : M.n =
  if i = 0 then M.N0 else
  match z_of_atom (Printf.sprintf "%x" i) with M.Zpos p -> M.Npos p | _ -> M.N0

let () =
  let buf = Buffer.create 65536 in
  (try
    while true do
      let line = input_line stdin in
      if String.length line > 0 then begin
        let sp = try String.index line ' ' with Not_found -> String.length line in
        let name = String.sub line 0 sp in
        let name_l = List.init (String.length name) (fun i -> n_of_int (Char.code name.[i])) in
        let arg = parse line sp in
        let r = M.dispatch name_l arg in
        print buf r; Buffer.add_char buf '\n';
        if Buffer.length buf > 60000 then (print_string (Buffer.contents buf); Buffer.clear buf)
      end
    done
  with End_of_file -> ());
  print_string (Buffer.contents buf)
