# make setup : full .vo build (proofs included), Print Assumptions capture, extraction, driver.
# Everything lands in the source tree (.vo beside .v) or under work/ ; nothing under /tmp is needed.
SHELL := /bin/bash
COQTIMEOUT ?= 1500
J ?= 16

.PHONY: setup coq extract driver assumptions clean scan

setup: coq extract driver

coq/Makefile.coq: coq/_CoqProject
	cd coq && coq_makefile -f _CoqProject -o Makefile.coq

coq: coq/Makefile.coq
	cd coq && timeout $(COQTIMEOUT) $(MAKE) -f Makefile.coq -j$(J) TIMED= 2>&1 | grep -v '^COQDEP\|^COQC' ; exit $${PIPESTATUS[0]}

# extraction runs coqc on Extract.v with cwd = work/extract so model.ml lands there
extract: coq
	mkdir -p work/extract
	cd work/extract && timeout 600 coqc -R ../../coq Cfi ../../coq/Extract/Extract.v && rm -f ../../coq/Extract/Extract.vo ../../coq/Extract/Extract.glob ../../coq/Extract/.Extract.aux

driver: extract
	cp ocaml/driver.ml work/extract/driver.ml
	cd work/extract && timeout 600 ocamlfind ocamlopt -O2 -w -a model.mli model.ml driver.ml -o ../driver 2>/dev/null || \
	  (cd work/extract && timeout 600 ocamlfind ocamlopt -w -a model.mli model.ml driver.ml -o ../driver)

clean:
	-cd coq && [ -f Makefile.coq ] && $(MAKE) -f Makefile.coq clean
	rm -rf work coq/Makefile.coq coq/Makefile.coq.conf
