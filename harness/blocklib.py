"""Raw block / section component classes (they store the raw text they consume) and pattern helpers
shared by C12, C13, C16, C17, C18."""
import re

_counter = [0]

from . import relib

# patterns in the model's language (coq/Py/PyRe.v): either the legacy form -- an alternation of literals, each optionally
# anchored with ^ -- or a regular-expression node of harness/relib.py
PATTERN_POOL = [[[True, "BEGIN"]], [[False, "GIN X"]], [[False, "B"]], [[True, "B"]], [[False, "END"], [False, "STOP"]],
                [[True, "END"]], [[False, "X"]], [[False, "E"]], [[True, "#"]], [[False, "--"]], [[False, ""]],
                # literals that include the line terminator: the patterns see the line as it stands in the file
                [[False, "END\n"]], [[False, "B\n"]], [[True, "\n"]],
                # regular expressions proper: blanks before an anchored keyword, keyword + number, anchors at both ends,
                # classes, repetition, optional parts, a line that is exactly a keyword, a blank line, any non-blank line
                ["seq", ["bol"], ["seq", ["star", ["s", False]], ["lit", "BEGIN"]]],
                ["seq", ["lit", "data"], ["seq", ["star", ["s", False]], ["plus", ["d", False]]]],
                ["seq", ["lit", "END"], ["eol"]], ["seq", ["bol"], ["seq", ["lit", "END"], ["eol"]]],
                ["seq", ["bol"], ["cls", False, [[65, 90]]]], ["seq", ["cls", False, [[66, 69]]], ["cls", True, [[65, 90], [10, 10]]]],
                ["seq", ["bol"], ["seq", ["opt", ["lit", "X"]], ["lit", "END"]]], ["seq", ["bol"], ["seq", ["star", ["s", False]], ["eol"]]],
                ["seq", ["bol"], ["s", True]], ["alt", ["seq", ["bol"], ["lit", "#"]], ["seq", ["lit", "-"], ["rep", ["lit", "-"], 1, 3]]],
                ["seq", ["lit", "B"], ["seq", ["star", ["any"]], ["lit", "X"]]], ["seq", ["any"], ["seq", ["any"], ["eol"]]]]


def regex_of(pat, binary=False):
    return relib.regex_of(pat, binary)


def pattern_sx(pat, binary=False):
    return relib.pattern_sx(pat, binary)


def mk_block_class(bd, idx, binary=False, base=None):
    from cfinterface.components.block import Block
    _counter[0] += 1

    # what read() returns: the reading driver must not depend on it ("t" True, "h" honest: False when the content ended before
    # the end marker, "n" None); chosen per class from the definition, deterministically
    ret = bd.get("ret", "tthn"[(len(str(bd.get("begin"))) + len(str(bd.get("end")))) % 4])
    # where the block keeps what it read: a fresh list assigned by read(), or ("init") a list that the constructor
    # allocates and read() only appends to
    init = bd.get("store") == "init"

    def __init__(self, previous=None, next=None, data=None):
        (base or Block).__init__(self, previous, next, [] if (init and data is None) else data)

    def read(self, file, *args, **kwargs):
        chunks = self.data if (init and isinstance(self.data, list)) else []
        complete = False
        if binary:
            b = file.read(1)
            if len(b):
                chunks.append(b)
                while True:
                    b = file.read(1)
                    if len(b) == 0:
                        break
                    chunks.append(b)
                    if self.ends(b, "BINARY"):
                        complete = True
                        break
        else:
            while True:
                l = file.readline()
                if len(l) == 0:
                    break
                chunks.append(l)
                if self.ends(l):
                    complete = True
                    break
        if self.data is not chunks:
            self.data = chunks
        return True if ret == "t" else (None if ret == "n" else complete)

    def write(self, file, *args, **kwargs):
        for c in self.data:
            file.write(c)
        return True

    def __eq__(self, o):
        return isinstance(o, self.__class__) and o.data == self.data

    ns = {"BEGIN_PATTERN": regex_of(bd["begin"], binary), "END_PATTERN": regex_of(bd["end"], binary), "__init__": __init__, "read": read, "write": write,
          "__eq__": __eq__, "__hash__": None, "__slots__": [], "_verif_idx": idx}
    return type("VBlock%d_%d" % (idx, _counter[0]), (base or Block,), ns)


def mk_block_classes(bds, binary=False):
    """the classes of a block list; a definition with "parent": j (j earlier) becomes a SUBCLASS of class j that overrides
    the patterns (class-level state of the framework is reachable through inheritance)"""
    out = []
    for i, bd in enumerate(bds):
        par = bd.get("parent")
        out.append(mk_block_class(bd, i, binary, base=out[par] if par is not None and par < i else None))
    return out


def mk_blockfile_class(blocks, binary=False, encoding=None):
    from cfinterface.files.blockfile import BlockFile
    _counter[0] += 1
    ns = {"BLOCKS": blocks, "STORAGE": "BINARY" if binary else "TEXT", "__slots__": []}
    if encoding:
        ns["ENCODING"] = encoding
    return type("VBlockFile%d" % _counter[0], (BlockFile,), ns)


def mk_section_class(sd, idx):
    from cfinterface.components.section import Section
    _counter[0] += 1
    kind, arg = sd[0], sd[1]
    # what read() returns: the reading driver must not depend on it ("t" always True, "h" honest: False when the content ended
    # inside the section, "n" None)
    ret = sd[2] if len(sd) > 2 else "t"
    # where the section keeps what it read: in the framework's `data` attribute, or in an attribute of its own (`data` stays
    # None -- the framework must not decide anything from `data`)
    own = len(sd) > 3 and sd[3] == "own"
    # ... or in a list that the constructor allocates and read() only appends to (no object of the class may share it)
    init = len(sd) > 3 and sd[3] == "init"

    def __init__(self, previous=None, next=None, data=None):
        Section.__init__(self, previous, next, [] if (init and data is None) else data)

    def read(self, file, *args, **kwargs):
        lines = self.data if init else []
        complete = True
        if kind == "lines":
            for _ in range(arg):
                l = file.readline()
                if len(l):
                    lines.append(l)
                else:
                    complete = False
        else:
            rx = regex_of(arg)
            complete = False
            while True:
                l = file.readline()
                if len(l) == 0:
                    break
                lines.append(l)
                if re.search(rx, l) is not None:
                    complete = True
                    break
        if own:
            self._own = lines
        elif not init:
            self.data = lines
        return True if ret == "t" else (None if ret == "n" else complete)

    def write(self, file, *args, **kwargs):
        for l in (self._own if own else self.data):
            file.write(l)
        return True

    def __eq__(self, o):
        return isinstance(o, self.__class__) and (o._own == self._own if own else o.data == self.data)

    ns = {"__init__": __init__, "read": read, "write": write, "__eq__": __eq__, "__hash__": None, "__slots__": ["_own"] if own else [],
          "_verif_idx": idx}
    return type("VSection%d_%d" % (idx, _counter[0]), (Section,), ns)


def mk_sectionfile_class(sections, encoding=None):
    from cfinterface.files.sectionfile import SectionFile
    _counter[0] += 1
    ns = {"SECTIONS": sections, "__slots__": []}
    if encoding:
        ns["ENCODING"] = encoding
    return type("VSectionFile%d" % _counter[0], (SectionFile,), ns)


def secdef_sx(sd):
    return [0, sd[1]] if sd[0] == "lines" else [1, pattern_sx(sd[1])]


def canon_raw(data, default_cls, binary=False, cap=100000):
    """elements -> [[idx|-1, raw text]]"""
    out = []
    n = 0
    for e in data:
        n += 1
        if n > cap:
            out.append("too many elements")
            break
        if isinstance(e, default_cls):
            d = e.data
            raw = d
        else:
            d = e.data if e.data is not None else getattr(e, "_own", None)
            raw = (b"" if binary else "").join(d) if isinstance(d, list) else d
        idx = -1 if isinstance(e, default_cls) else getattr(type(e), "_verif_idx", -7)
        if isinstance(raw, bytes):
            raw = list(raw)
        out.append([idx, raw])
    return out


def model_raw(res, binary=False):
    return [[e[0], (list(e[1]) if binary else "".join(chr(c) for c in e[1]))] for e in res]
