"""Shared plumbing: s-expression codec, model runner (extracted OCaml driver and in-kernel
vm_compute), paths, environment pinning. Runs under /venv/bin/python."""
import os
import sys
import subprocess
import hashlib
import re

VERIF = os.path.dirname(os.path.dirname(os.path.abspath(__file__)))
REPO = os.environ.get("CFI_REPO", "/repo")
WORK = os.path.join(VERIF, "work")
DRIVER = os.path.join(WORK, "driver")
# per-run scratch (replays, temp dirs, kernel case files); a separate one lets background sweeps run beside the checks
SCRATCH = os.environ.get("VERIF_SCRATCH", WORK)
EVIDENCE = os.environ.get("VERIF_EVIDENCE_DIR", os.path.join(VERIF, "evidence"))
COQDIR = os.path.join(VERIF, "coq")


def pin_environment():
    """The implementation is always imported from /repo's working tree, never from an installed copy."""
    os.environ["PYTHONDONTWRITEBYTECODE"] = "1"
    sys.dont_write_bytecode = True
    os.environ.setdefault("PYTHONHASHSEED", "0")
    os.environ["RJMALVES_CFI_VERIF"] = "1"
    if REPO in sys.path:
        sys.path.remove(REPO)
    sys.path.insert(0, REPO)
    for m in [k for k in sys.modules if k == "cfinterface" or k.startswith("cfinterface.")]:
        del sys.modules[m]
    import warnings
    warnings.simplefilter("ignore")
    import cfinterface  # noqa
    # import every module of the package now: an import interrupted by the call budget would be retried forever
    import importlib, pkgutil
    for m in pkgutil.walk_packages(cfinterface.__path__, "cfinterface."):
        importlib.import_module(m.name)
    import pandas, numpy, datetime, re, io, struct  # noqa
    empty = os.path.join(SCRATCH, "cwd")
    os.makedirs(empty, exist_ok=True)
    os.chdir(empty)          # contents are never mistaken for existing file names

    got = os.path.dirname(os.path.dirname(os.path.abspath(cfinterface.__file__)))
    if os.path.realpath(got) != os.path.realpath(REPO):
        raise RuntimeError("cfinterface imported from %s, expected %s" % (got, REPO))


# ---------------------------------------------------------------- s-expressions
def sx_dump(x):
    """ints -> hex atoms; bool -> 0/1; None -> (); str -> list of code points;
    bytes -> list of byte values; list/tuple -> list."""
    out = []
    _dump(x, out)
    return "".join(out)


def _dump(x, out):
    if x is True:
        out.append("1")
    elif x is False:
        out.append("0")
    elif x is None:
        out.append("()")
    elif isinstance(x, int):
        out.append("%x" % x if x >= 0 else "-%x" % (-x))
    elif isinstance(x, str):
        out.append("(" + " ".join("%x" % ord(c) for c in x) + ")")
    elif isinstance(x, (bytes, bytearray)):
        out.append("(" + " ".join("%x" % c for c in x) + ")")
    elif isinstance(x, (list, tuple)):
        out.append("(")
        first = True
        for y in x:
            if not first:
                out.append(" ")
            first = False
            _dump(y, out)
        out.append(")")
    else:
        raise TypeError("cannot encode %r" % (x,))


_tok = re.compile(r"\(|\)|-?[0-9a-f]+")


def sx_parse(s):
    stack = [[]]
    for t in _tok.findall(s):
        if t == "(":
            stack.append([])
        elif t == ")":
            l = stack.pop()
            stack[-1].append(l)
        else:
            stack[-1].append(int(t, 16))
    if len(stack) != 1 or len(stack[0]) != 1:
        raise ValueError("bad sexp: %r" % s[:200])
    return stack[0][0]


def to_str(l):
    return "".join(chr(c) for c in l)


def to_bytes(l):
    return bytes(l)


def case_hash(x):
    return hashlib.sha1(sx_dump(x).encode()).hexdigest()[:16]


# ---------------------------------------------------------------- running the model
class ModelError(Exception):
    pass


def _run_driver(inp):
    p = subprocess.run([DRIVER], input=inp, stdout=subprocess.PIPE, stderr=subprocess.PIPE, timeout=7200)
    if p.returncode != 0:
        raise ModelError("driver failed: " + p.stderr.decode()[:500])
    lines = p.stdout.decode().split("\n")
    if lines and lines[-1] == "":
        lines.pop()
    return lines


def run_model(entry, args, chunk=None):
    """Run the extracted model on a list of sx-encodable arguments; returns parsed results, in order.
    [entry] is one entry-point name or a list of names parallel to [args]. The cases are dealt round-robin to
    VERIF_JOBS (default 8) driver processes: some cases (floats with extreme exponents) are 1000x dearer than others."""
    if not os.path.exists(DRIVER):
        raise ModelError("driver missing: run `make setup` in " + VERIF)
    n = len(args)
    if n == 0:
        return []
    names = entry if isinstance(entry, list) else [entry] * n
    jobs = max(1, min(int(os.environ.get("VERIF_JOBS", "8")), (n + 199) // 200))
    inputs = []
    for j in range(jobs):
        inputs.append("".join("%s %s\n" % (names[i], sx_dump(args[i])) for i in range(j, n, jobs)).encode())
    if jobs == 1:
        outs = [_run_driver(inputs[0])]
    else:
        import concurrent.futures
        with concurrent.futures.ThreadPoolExecutor(max_workers=jobs) as ex:
            outs = list(ex.map(_run_driver, inputs))
    res = [None] * n
    for j, lines in enumerate(outs):
        idx = range(j, n, jobs)
        if len(lines) != len(idx):
            raise ModelError("driver returned %d lines for %d cases" % (len(lines), len(idx)))
        for i, l in zip(idx, lines):
            res[i] = sx_parse(l)
    return res


def _coq_sx(x, out):
    if isinstance(x, bool):
        out.append("I %d" % int(x))
    elif x is None:
        out.append("L []")
    elif isinstance(x, int):
        out.append("I %d" % x if x >= 0 else "I (%d)" % x)
    elif isinstance(x, str):
        out.append("L [" + "; ".join("I %d" % ord(c) for c in x) + "]")
    elif isinstance(x, (bytes, bytearray)):
        out.append("L [" + "; ".join("I %d" % c for c in x) + "]")
    else:
        out.append("L [")
        first = True
        for y in x:
            if not first:
                out.append("; ")
            first = False
            _coq_sx(y, out)
        out.append("]")


_ctok = re.compile(r"\[|\]|;|I|L|\(|\)|-?\d+|%Z")


def _parse_coq_sx(text):
    toks = [t for t in _ctok.findall(text) if t not in ("(", ")", "%Z")]
    pos = [0]

    def item():
        t = toks[pos[0]]
        pos[0] += 1
        if t == "I":
            v = int(toks[pos[0]])
            pos[0] += 1
            return v
        if t == "L":
            assert toks[pos[0]] == "[", toks[pos[0]]
            pos[0] += 1
            l = []
            while toks[pos[0]] != "]":
                if toks[pos[0]] == ";":
                    pos[0] += 1
                    continue
                l.append(item())
            pos[0] += 1
            return l
        raise ValueError("unexpected token %r" % t)

    return item()


def run_model_in_coq(entry, args, tag):
    """Evaluate the same entry point inside Coq with vm_compute (cross-check of extraction+driver)."""
    d = os.path.join(SCRATCH, "kernel")
    os.makedirs(d, exist_ok=True)
    path = os.path.join(d, "cases_%s.v" % tag)
    with open(path, "w") as f:
        f.write("From Coq Require Import ZArith List String.\nFrom Cfi Require Import Glue.Sx Extract.Entry.\n")
        f.write("Import ListNotations.\nOpen Scope Z_scope.\nOpen Scope string_scope.\n")
        names = entry if isinstance(entry, list) else [entry] * len(args)
        for n, a in zip(names, args):
            out = []
            _coq_sx(a, out)
            f.write('Eval vm_compute in (dispatch (s2l "%s") (%s)).\n' % (n, "".join(out)))
    p = subprocess.run(
        ["coqc", "-R", COQDIR, "Cfi", path], stdout=subprocess.PIPE, stderr=subprocess.PIPE, timeout=1800, cwd=d
    )
    if p.returncode != 0:
        raise ModelError("coqc failed on %s: %s" % (path, p.stderr.decode()[:800]))
    txt = p.stdout.decode()
    chunks = re.split(r"^\s*= ", txt, flags=re.M)[1:]
    res = []
    for c in chunks:
        c = re.split(r"\n\s*: sx", c)[0]
        res.append(_parse_coq_sx(c))
    if len(res) != len(args):
        raise ModelError("coqc printed %d results for %d cases" % (len(res), len(args)))
    for ext in (".vo", ".glob", ".vok", ".vos"):
        try:
            os.remove(path[:-2] + ext)
        except OSError:
            pass
    return res


# ---------------------------------------------------------------- deterministic step budget
class BudgetExceeded(BaseException):
    """Raised inside the implementation when a case exceeds its call budget (never wall-clock)."""


class budget:
    """with budget(n): ...   counts Python-level call events; deterministic for a given input."""

    def __init__(self, n):
        self.n = n
        self.count = 0

    def _prof(self, frame, event, arg):
        if event == "call" or event == "c_call":
            self.count += 1
            if self.count > self.n:
                sys.setprofile(None)
                raise BudgetExceeded("more than %d calls" % self.n)

    def __enter__(self):
        self.count = 0
        sys.setprofile(self._prof)
        return self

    def __exit__(self, *a):
        sys.setprofile(None)
        return False
