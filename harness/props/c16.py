"""C16 — path and in-memory I/O are equivalent and honour the declared encoding."""
import builtins
import io
import os
import shutil

from ..framework import Check
from .c13 import nl_lines
from .. import families, lib, reglib, blocklib as bl

TMP = os.path.join(lib.SCRATCH, "tmp_c16")
ENCODINGS = ["utf-8", "latin-1", "cp1252", "utf-16"]
WORDS = {"utf-8": ["çãé", "naïve €", "٣٤ 😀", "plain", "a\x85b", "x\u2028y", "p\x0cq", "s\x1ct", "u\u2029v"],
         "utf-16": ["çãé", "naïve €", "٣٤ 😀", "plain", "a\x85b", "x\u2028y", "p\x0bq"],
         "latin-1": ["çãé", "ñü ¿", "plain", "þÿ", "a\x85b", "p\x0cq", "s\x1dt"], "cp1252": ["çãé", "naïve €", "plain", "œ™", "p\x0cq", "s\x1et"]}


def file_class(fam, binary, enc):
    if fam == "register":
        rd = {"ident": "R", "digits": 2, "fields": [{"k": "lit", "size": 10, "start": 2}] if not binary else
              [{"k": "int", "size": 4, "start": 2}, {"k": "lit", "size": 4, "start": 6}], "delim": None}
        return reglib.mk_file_class([reglib.mk_register_class(rd, 0)], binary, enc)
    if fam == "block":
        bd = {"begin": [[False, "\x01"]], "end": [[False, "\x02"]]} if binary else {"begin": [[True, "BEGIN"]], "end": [[False, "END"]]}
        return bl.mk_blockfile_class([bl.mk_block_class(bd, 0, binary)], binary, enc)
    return bl.mk_sectionfile_class([bl.mk_section_class(["lines", 2], 0)], enc)


class CHECK(Check):
    pid = "C16"
    entry = None
    theorems = ["C16_read_equiv", "C16_write_equiv", "C16_roundtrip"]
    rule = ("file family {register, block, section} x storage {text, binary (register, block)} x encoding {utf-8, latin-1, "
            "cp1252, utf-16} x contents of 0-6 '\\n'-terminated lines mixing typed lines, free text and non-ASCII words encodable "
            "in the encoding x source/destination {path in a real temporary directory, str/bytes content, caller-owned buffer}: "
            "File.read(path) == File.read(content); bytes on disk after write(path) decoded with the declared encoding equal the "
            "in-memory output (binary: identical bytes); read(path written) == read(memory output); open() is wrapped to record "
            "mode and encoding. non-trivial = content contains a non-ASCII character; distinct = hash")
    not_exhibited = ["CPython codec tables and BOM handling", "newline translation of open() (contents use \\n only)",
                     "OS path resolution; the theorems take the file system and a lawful codec as parameters"]
    assumptions = ["the model's codec is an abstract lawful pair (dec (enc s) = s); real codecs are exercised, not modelled"]

    def gen(self, tier, rng):
        n = 1500 if tier == "quick" else 20000
        for _ in range(n):
            fam = rng.choice(families.FAMILIES)
            binary = fam != "section" and rng.random() < 0.3
            enc = rng.choice(ENCODINGS)
            lines = []
            for _ in range(rng.randint(0, 6)):
                k = rng.random()
                w = rng.choice(WORDS[enc])
                if binary:
                    # register files decode the peeked byte as UTF-8 to test the (str) identifier: keep record starts ASCII
                    pool = ["R \x05\x00\x00\x00abcd", "\x01ab\x02", "zz\n", "R \x01"] + ([] if fam == "register" else ["\xe9\xff\x00"])
                    lines.append(rng.choice(pool))
                elif k < 0.4:
                    lines.append({"register": "R " + w[:10], "block": "BEGIN " + w, "section": w}[fam] + "\n")
                elif k < 0.6 and fam == "block":
                    lines.append(w + " END\n")
                else:
                    lines.append(w + " free\n")
            yield {"fam": fam, "binary": binary, "enc": enc, "content": "".join(lines)}

    def impl(self, case):
        fam, binary, enc = case["fam"], case["binary"], case["enc"]
        F = file_class(fam, binary, enc)
        shutil.rmtree(TMP, ignore_errors=True)
        os.makedirs(TMP)
        p_in = os.path.join(TMP, "in.dat")
        p_out = os.path.join(TMP, "out.dat")
        content = case["content"].encode("latin-1") if binary else case["content"]
        seen = []
        real_open = builtins.open

        def wopen(path, mode="r", *a, **k):
            if isinstance(path, str) and path.startswith(TMP) and "verif" not in k:
                seen.append([os.path.basename(path), mode, k.get("encoding")])
            k.pop("verif", None)
            return real_open(path, mode, *a, **k)

        try:
            with real_open(p_in, "wb") as fh:
                fh.write(content if binary else content.encode(enc))
            builtins.open = wopen
            try:
                args = (1,) if (binary and fam == "register") else ()
                f_path = F.read(p_in, *args)
                f_mem = F.read(content, *args)
                eq_read = bool(f_path == f_mem) and bool(f_mem == f_path)
                f_mem.write(p_out)
                buf = io.BytesIO() if binary else io.StringIO()
                f_mem.write(buf)
                mem_out = buf.getvalue()
                buf_open = not buf.closed
                f_back = F.read(p_out, *args)
                f_back_mem = F.read(mem_out, *args)
                eq_back = bool(f_back == f_back_mem)
            finally:
                builtins.open = real_open
            with real_open(p_out, "rb") as fh:
                disk = fh.read()
            if binary:
                same = disk == mem_out
            else:
                same = disk.decode(enc) == mem_out
            return {"eq_read": eq_read, "disk_equals_memory": same, "eq_roundtrip": eq_back, "buffer_open": buf_open,
                    "opens": seen, "n_elems": sum(1 for _ in f_mem.data)}
        except Exception as e:
            return {"raised": type(e).__name__ + ": " + str(e)[:120]}
        finally:
            builtins.open = real_open
            shutil.rmtree(TMP, ignore_errors=True)

    def model_arg(self, case):
        return []

    def oracle(self, case, obs):
        if "raised" in obs:
            return "read/write raised: %s" % obs["raised"]
        if not obs["eq_read"]:
            return "File.read(path) differs from File.read(content)"
        if not obs["disk_equals_memory"]:
            return "bytes on disk, decoded with the declared encoding, differ from the in-memory output"
        if not obs["eq_roundtrip"]:
            return "round trip through disk differs from round trip through memory"
        if not obs["buffer_open"]:
            return "caller-owned buffer was closed"
        binary, enc = case["binary"], case["enc"]
        exp_modes = {"in.dat": "rb" if binary else "r", "out.dat": None}
        for name, mode, e in obs["opens"]:
            want_r, want_w = ("rb", "wb") if binary else ("r", "w")
            if mode not in (want_r, want_w):
                return "file opened with mode %r in %s storage" % (mode, "binary" if binary else "text")
            if not binary and e != enc:
                return "file opened with encoding %r instead of the declared %r" % (e, enc)
        if len(obs["opens"]) != 3:
            return "unexpected number of open() calls: %d" % len(obs["opens"])
        return None

    def nontrivial(self, case, obs):
        return any(ord(c) > 127 for c in case["content"])

    def classify(self, case):
        return {"fam_" + case["fam"]: 1, "binary" if case["binary"] else "text": 1, "enc_" + case["enc"]: 1}

    def signature(self, case, why):
        import re
        return re.sub(r"'[^']*'|[0-9]+", "#", why)

    def shrink(self, case):
        lines = nl_lines(case["content"])
        for i in range(len(lines)):
            c = dict(case)
            c["content"] = "".join(lines[:i] + lines[i + 1:])
            yield c

    def neighbours(self, case, rng):
        return []
