"""C16 — path and in-memory I/O are equivalent and honour the declared encoding."""
import builtins
import io
import json
import os
import shutil
import zlib

from ..framework import Check
from .c13 import nl_lines
from .. import families, lib, reglib, blocklib as bl

TMP = os.path.join(lib.SCRATCH, "tmp_c16")
ENCODINGS = ["utf-8", "latin-1", "cp1252", "utf-16"]
WORDS = {"utf-8": ["çãé", "naïve €", "٣٤ 😀", "plain", "a\x85b", "x\u2028y", "p\x0cq", "s\x1ct", "u\u2029v"],
         "utf-16": ["çãé", "naïve €", "٣٤ 😀", "plain", "a\x85b", "x\u2028y", "p\x0bq"],
         "latin-1": ["çãé", "ñü ¿", "plain", "þÿ", "a\x85b", "p\x0cq", "s\x1dt"], "cp1252": ["çãé", "naïve €", "plain", "œ™", "p\x0cq", "s\x1et"]}


def file_class(fam, binary, enc, litw=4, ident="R"):
    if fam == "register":
        rd = {"ident": ident, "digits": 2, "fields": [{"k": "lit", "size": 10, "start": 2}] if not binary else
              [{"k": "int", "size": 4, "start": 2}, {"k": "lit", "size": litw, "start": 6}], "delim": None}
        return reglib.mk_file_class([reglib.mk_register_class(rd, 0)], binary, enc)
    if fam == "block":
        bd = {"begin": [[False, "\x01"]], "end": [[False, "\x02"]]} if binary else {"begin": [[True, "BEGIN"]], "end": [[False, "END"]]}
        return bl.mk_blockfile_class([bl.mk_block_class(bd, 0, binary)], binary, enc)
    return bl.mk_sectionfile_class([bl.mk_section_class(["lines", 2], 0)], enc)


OTHER_LINE = {"register": "R zzz\n", "block": "BEGIN zzz END\n", "section": "zzz\n"}
OTHER_BIN = {"register": "R \x05\x00\x00\x00abcd", "block": "\x01ab\x02"}


def draw_history(rng, big=False):
    """what happened to the two names (source, destination) in the file system before / after the measured cycle:
    'absent'     the source name is handed to read() while it names no file (a file left there by an earlier step is removed first)
    'other'      a file with OTHER content sits at the source name and is read (judged: == reading that content directly)
    'absent_out' the destination name is handed to read() before anything was written there
    after 'removed': the source file is deleted after the cycle and the name is handed to read() once more"""
    if rng.random() < 0.4:
        return {}
    steps = ["absent", "absent_out"] if big else ["absent", "other", "absent_out", "absent", "other"]
    h = {"history": [rng.choice(steps) for _ in range(rng.randint(1, 3))]}
    if rng.random() < 0.3:
        h["after"] = ["removed"]
    return h


class CHECK(Check):
    pid = "C16"
    entry = "C16"
    theorems = ["C16_read_equiv", "C16_write_equiv", "C16_roundtrip", "C16_codec_lawful", "C16_utf8_total", "C16_utf16_total",
                "C16_latin1_total", "C16_decode_empty", "C16_newlines", "C16_text_mode_read_back", "C16_read_equiv_concrete",
                "C16_write_equiv_concrete", "C16_roundtrip_concrete", "C16_path_read_translates"]
    rule = ("file family {register, block, section} x storage {text, binary (register, block)} x encoding {utf-8, latin-1, "
            "cp1252, utf-16} x contents of 0-6 '\\n'-terminated lines mixing typed lines, free text and non-ASCII words encodable "
            "in the encoding x source/destination {path in a real temporary directory, str/bytes content, caller-owned buffer}: "
            "File.read(path) == File.read(content); bytes on disk after write(path) decoded with the declared encoding equal the "
            "in-memory output (binary: identical bytes); read(path written) == read(memory output); open() is wrapped to record "
            "mode and encoding. non-trivial = content contains a non-ASCII character; distinct = hash"
            " Later additions: files of 450-2500 records (beyond the I/O buffers, odd record widths), contents that name an existing file, destinations pre-filled with longer stale content, byte-exact comparison with the declared encoder, codec model tie (malformed input); file-system histories of the two names around the measured cycle (60 % of the cases: the name handed to read() while it names no file yet / no longer, another file read at the same name before the measured content is put there, the name read again after the file was deleted).")
    not_exhibited = ["OS path resolution (the theorems take the file system as an arbitrary function)",
                     "error handlers other than strict, encodings other than the four of the property"]
    assumptions = ["CPython's utf-8/latin-1/cp1252/utf-16 codecs and universal-newline translation are modelled (Py/PyCodec.v), "
                   "tied to CPython by this check (contents of every case + malformed byte strings), not verified"]

    def gen(self, tier, rng):
        # files larger than the I/O buffers (4096 / 8192 bytes): records straddling buffer boundaries, multi-chunk decoding
        for rep in range(6 if tier == "quick" else 40):
            nrec = rng.choice([450, 1000, 2500])
            litw = rng.choice([1, 3, 5, 7, 4])   # odd record widths: a record start falls on every offset modulo the buffer size
            yield {"fam": "register", "binary": True, "enc": "utf-8", "linesize": rng.choice([2, 2, 3]), "litw": litw, "ident": "RG",   # identifier as wide as its columns
                   "content": "".join("RG" + chr(1 + (i % 100)) + "\x00\x00\x00" + ("ab%05d" % (i % 97))[:litw] for i in range(nrec)), **draw_history(rng, True)}
            for fam in families.FAMILIES:
                enc = rng.choice(ENCODINGS)
                w = rng.choice(WORDS[enc])
                yield {"fam": fam, "binary": False, "enc": enc,
                       "content": "".join({"register": "R " + (w + str(i))[:10], "block": ("BEGIN " if i % 3 == 0 else "") + w + (" END" if i % 3 == 2 else ""), "section": w + str(i)}[fam] + "\n"
                                          for i in range(nrec)), **draw_history(rng, True)}
        # content that merely NAMES an existing file (plus a line end / blanks) is content, not a path
        for fam in families.FAMILIES:
            for enc in ENCODINGS:
                for shape in ("{OTHER}\n", "  {OTHER}\n", "{OTHER} \n", "{OTHER}\n{OTHER}\n"):
                    yield {"fam": fam, "binary": False, "enc": enc, "content": shape, "names_file": True}
        n = 1500 if tier == "quick" else 20000
        for _ in range(n):
            fam = rng.choice(families.FAMILIES)
            binary = fam != "section" and rng.random() < 0.3
            enc = rng.choice(ENCODINGS)
            lines = []
            for _ in range(rng.randint(0, 6)):
                k = rng.random()
                w = rng.choice(WORDS[enc])
                if binary:
                    # register files decode the peeked byte as UTF-8 to test the (str) identifier: keep record starts ASCII
                    pool = ["R \x05\x00\x00\x00abcd", "\x01ab\x02", "zz\n", "R \x01"] + ([] if fam == "register" else ["\xe9\xff\x00"])
                    lines.append(rng.choice(pool))
                elif k < 0.4:
                    lines.append({"register": "R " + w[:10], "block": "BEGIN " + w, "section": w}[fam] + "\n")
                elif k < 0.6 and fam == "block":
                    lines.append(w + " END\n")
                else:
                    lines.append(w + " free\n")
            yield {"fam": fam, "binary": binary, "enc": enc, "content": "".join(lines), **draw_history(rng)}

    def impl(self, case):
        fam, binary, enc = case["fam"], case["binary"], case["enc"]
        F = file_class(fam, binary, enc, case.get("litw", 4), case.get("ident", "R"))
        shutil.rmtree(TMP, ignore_errors=True)
        os.makedirs(TMP)
        p_in = os.path.join(TMP, "in.dat")
        if (len(case["content"]) + len(case["enc"])) % 5 == 0:
            # a long path (more than 255 characters in total) is still a path
            deep = os.path.join(TMP, "d" * 120, "e" * 120)
            os.makedirs(deep, exist_ok=True)
            p_in = os.path.join(deep, "in.dat")
        p_out = os.path.join(TMP, "out.dat")
        if case.get("history") or case.get("after"):
            # names of their own: what a case does to its names in the file system must not reach the cases after it
            tag = "%08x" % zlib.crc32(json.dumps(case, sort_keys=True).encode())
            p_in, p_out = p_in[:-4] + "_" + tag + ".dat", p_out[:-4] + "_" + tag + ".dat"
        content = case["content"].encode("latin-1") if binary else case["content"]
        if case.get("names_file"):
            other = os.path.join(TMP, "other.dat")
            with builtins.open(other, "w", encoding=enc) as fh:
                fh.write({"register": "R zzz\n", "block": "BEGIN zzz END\n", "section": "zzz\n"}[fam])
            content = content.replace("{OTHER}", other)
        seen = []
        real_open = builtins.open

        log = [seen]

        def wopen(path, mode="r", *a, **k):
            if isinstance(path, (str, bytes)) and os.fsdecode(path).startswith(TMP) and "verif" not in k:
                log[0].append([os.path.basename(os.fsdecode(path)), mode, k.get("encoding")])
            k.pop("verif", None)
            return real_open(path, mode, *a, **k)

        args = (case.get("linesize", 1),) if (binary and fam == "register") else ()

        def read_name_without_file(p):
            """the name p names no file: by the documented rule it is the contents themselves"""
            if not binary:
                F.read(p, *args)
                return
            F.read(os.fsencode(p), *args)          # well-typed contents of a binary file
            try:
                F.read(p, *args)                   # a str is no binary content: the outcome of this call is not judged ...
            except OSError:
                raise                              # ... except that nothing may be opened
            except Exception:
                pass

        try:
            extra_obs = {}
            if case.get("history"):
                # the file-system history of the two names before the measured cycle
                hist_seen, steps = [], []
                log[0] = hist_seen
                builtins.open = wopen
                try:
                    for step in case["history"]:
                        if step == "other":
                            other = (OTHER_BIN[fam].encode("latin-1") + content) if binary else (OTHER_LINE[fam] + content)
                            with real_open(p_in, "wb") as fh:
                                fh.write(other if binary else other.encode(enc))
                            a, b = F.read(p_in, *args), F.read(other, *args)
                            steps.append({"step": step, "eq": bool(a == b) and bool(b == a)})
                        else:
                            p = p_in if step == "absent" else p_out
                            if os.path.exists(p):
                                os.remove(p)
                            read_name_without_file(p)
                            steps.append({"step": step, "created": os.path.exists(p)})
                finally:
                    builtins.open = real_open
                    log[0] = seen
                extra_obs["history"] = steps
                extra_obs["history_opens"] = hist_seen
            with real_open(p_in, "wb") as fh:
                fh.write(content if binary else content.encode(enc))
            if not binary:
                with real_open(p_in, "rb") as fh:
                    extra_obs["in_bytes"] = list(fh.read())
                with real_open(p_in, "r", encoding=enc) as fh:
                    extra_obs["text_mode_read"] = fh.read()
            builtins.open = wopen
            try:
                f_path = F.read(p_in, *args)
                f_mem = F.read(content, *args)
                eq_read = bool(f_path == f_mem) and bool(f_mem == f_path)
                # the destination already exists and is longer than what will be written: writing replaces it
                with real_open(p_out, "wb") as fh:
                    fh.write(b"stale previous content \xe9\n" * 400)
                f_mem.write(p_out)
                buf = io.BytesIO() if binary else io.StringIO()
                if len(case["content"]) % 3 == 1:
                    # a duck-typed writer (anything with write(), e.g. a codecs stream writer or a tempfile wrapper)
                    class Sink:
                        closed = False

                        def __init__(self, empty):
                            self.parts, self.empty = [], empty

                        def write(self, x):
                            self.parts.append(x)
                            return len(x)

                        def getvalue(self):
                            return self.empty.join(self.parts)

                        def close(self):
                            self.closed = True
                    buf = Sink(b"" if binary else "")
                f_mem.write(buf)
                mem_out = buf.getvalue()
                buf_open = not buf.closed
                f_back = F.read(p_out, *args)
                f_back_mem = F.read(mem_out, *args)
                eq_back = bool(f_back == f_back_mem)
                if case.get("after"):
                    # the source file is deleted: its name is contents again
                    log[0] = after_seen = []
                    os.remove(p_in)
                    read_name_without_file(p_in)
                    extra_obs["after"] = [{"step": "removed", "created": os.path.exists(p_in)}]
                    extra_obs["after_opens"] = after_seen
            finally:
                builtins.open = real_open
            with real_open(p_out, "rb") as fh:
                disk = fh.read()
            if binary:
                same = disk == mem_out
            else:
                # byte-exact: the declared encoder's output; a file that received no write call has no preamble (BOM) either
                same = disk.decode(enc) == mem_out and (disk == mem_out.encode(enc) or (mem_out == "" and disk == b""))
            return {**extra_obs, "eq_read": eq_read, "disk_equals_memory": same, "eq_roundtrip": eq_back, "buffer_open": buf_open,
                    "opens": seen, "n_elems": sum(1 for _ in f_mem.data)}
        except Exception as e:
            return {"raised": type(e).__name__ + ": " + str(e)[:120]}
        finally:
            builtins.open = real_open
            shutil.rmtree(TMP, ignore_errors=True)

    def comparable(self, case):
        return not case.get("names_file")     # the content depends on the scratch directory: judged by the oracle only

    def model_arg(self, case):
        return [ENCODINGS.index(case["enc"]), "" if case["binary"] else case["content"]]

    def model_obs(self, case, res):
        if case["binary"]:
            return {}
        b, t = res
        return {"in_bytes": b[0] if b else None, "text_mode_read": lib.to_str(t[0]) if t else None}

    def compare(self, case, iobs, mobs):
        for k in mobs:
            if k in iobs and iobs[k] != mobs[k]:
                return "%s: implementation %r, model %r" % (k, str(iobs[k])[:80], str(mobs[k])[:80])
        return None

    def extra(self, tier, seed):
        """primitive-level tie of the codec model: text-mode open() of arbitrary (also malformed) byte strings, and str.encode"""
        import random
        rng = random.Random("c16-codecs-%d" % seed)
        n = 1500 if tier == "quick" else 20000
        os.makedirs(TMP + "_codec", exist_ok=True)
        path = os.path.join(TMP + "_codec", "f.bin")
        args, exp = [], []
        alphabet_b = [0x41, 0x0a, 0x0d, 0x20, 0x80, 0x81, 0x85, 0x9d, 0xa0, 0xc3, 0xa9, 0xe2, 0x82, 0xac, 0xf0, 0x9f, 0x98, 0x80, 0xff, 0xfe, 0x00, 0xd8, 0xdc, 0xed, 0xc0]
        alphabet_c = [0x41, 0x0a, 0x0d, 0x20, 0x80, 0x81, 0x85, 0x9d, 0xa0, 0xe9, 0xff, 0x100, 0x152, 0x20ac, 0x2122, 0x2028, 0xfeff, 0xfffe, 0xffff, 0x10000, 0x1f600, 0x10ffff, 0xd800, 0xdfff]
        for _ in range(n):
            e = rng.randrange(4)
            if rng.random() < 0.5:
                b = bytes(rng.choice(alphabet_b) if rng.random() < 0.8 else rng.randrange(256) for _ in range(rng.randint(0, 8)))
                if rng.random() < 0.3:
                    try:
                        b = "".join(chr(rng.choice(alphabet_c[:18])) for _ in range(rng.randint(0, 5))).encode(ENCODINGS[e])
                        b = b + rng.choice([b"", b"\r\n", b"\r"]) if e != 3 else b
                    except UnicodeEncodeError:
                        pass
                with open(path, "wb") as fh:
                    fh.write(b)
                try:
                    with open(path, "r", encoding=ENCODINGS[e]) as fh:
                        want = [[ord(c) for c in fh.read()]]
                except UnicodeError:
                    want = []
                args.append([1, e, list(b)])
                exp.append(("decode", want))
            else:
                t = "".join(chr(rng.choice(alphabet_c)) for _ in range(rng.randint(0, 6)))
                try:
                    want = [list(t.encode(ENCODINGS[e], "strict"))]
                except UnicodeEncodeError:
                    want = []
                args.append([0, e, [ord(c) for c in t]])
                exp.append(("encode", want))
        res = lib.run_model("CODEC", args)
        probs = []
        for a, (kind, want), r in zip(args, exp, res):
            got = r
            if kind == "decode" and got:
                # op 1 decodes only; the text-mode read also translates newlines
                got = lib.run_model("CODEC", [[2, 0, got[0]]])[0]
                got = [got]
            if got != want and len(probs) < 5:
                probs.append("%s %s %r: CPython %r, model %r" % (kind, ENCODINGS[a[1]], a[2], want, got))
        shutil.rmtree(TMP + "_codec", ignore_errors=True)
        return {"what": "codec model (Py/PyCodec.v) vs CPython: str.encode and text-mode open().read() on arbitrary byte strings",
                "evaluations": len(args), "problems": probs}

    def oracle(self, case, obs):
        if "raised" in obs:
            return "read/write raised: %s" % obs["raised"]
        if not obs["eq_read"]:
            return "File.read(path) differs from File.read(content)"
        if not obs["disk_equals_memory"]:
            return "bytes on disk, decoded with the declared encoding, differ from the in-memory output"
        if not obs["eq_roundtrip"]:
            return "round trip through disk differs from round trip through memory"
        if not obs["buffer_open"]:
            return "caller-owned buffer was closed"
        binary, enc = case["binary"], case["enc"]
        if [h["step"] for h in obs.get("history", [])] != case.get("history", []) or [h["step"] for h in obs.get("after", [])] != case.get("after", []):
            return "history steps not observed"
        for h in obs.get("history", []) + obs.get("after", []):
            if h.get("eq") is False:
                return "earlier file at the same name: File.read(path) differs from File.read(content)"
            if h.get("created"):
                return "reading a name that names no file left a file there"
        for name, mode, e in obs.get("history_opens", []) + obs.get("after_opens", []):
            if mode != ("rb" if binary else "r"):
                return "file opened with mode %r for reading in %s storage" % (mode, "binary" if binary else "text")
            if not binary and e != enc:
                return "file opened with encoding %r instead of the declared %r" % (e, enc)
        exp_modes = {"in.dat": "rb" if binary else "r", "out.dat": None}
        for name, mode, e in obs["opens"]:
            want_r, want_w = ("rb", "wb") if binary else ("r", "w")
            if mode not in (want_r, want_w):
                return "file opened with mode %r in %s storage" % (mode, "binary" if binary else "text")
            if not binary and e != enc:
                return "file opened with encoding %r instead of the declared %r" % (e, enc)
        if len(obs["opens"]) != 3:
            return "unexpected number of open() calls: %d" % len(obs["opens"])
        return None

    def nontrivial(self, case, obs):
        return any(ord(c) > 127 for c in case["content"])

    def classify(self, case):
        d = {"fam_" + case["fam"]: 1, "binary" if case["binary"] else "text": 1, "enc_" + case["enc"]: 1}
        steps = case.get("history", []) + case.get("after", [])
        d["history_none" if not steps else "history_some"] = 1
        for st in set(steps):
            d["history_" + st] = 1
        return d

    def signature(self, case, why):
        import re
        return re.sub(r"'[^']*'|[0-9]+", "#", why)

    def shrink(self, case):
        if case.get("after"):
            yield {k: v for k, v in case.items() if k != "after"}
        hist = case.get("history", [])
        for i in range(len(hist)):
            c = {k: v for k, v in case.items() if k != "history"}
            if len(hist) > 1:
                c["history"] = hist[:i] + hist[i + 1:]
            yield c
        lines = nl_lines(case["content"])
        if len(lines) > 8:
            for part in (lines[:len(lines) // 2], lines[len(lines) // 2:]):
                c = dict(case)
                c["content"] = "".join(part)
                yield c
        for i in range(len(lines)):
            c = dict(case)
            c["content"] = "".join(lines[:i] + lines[i + 1:])
            yield c

    def neighbours(self, case, rng):
        return []
