"""C11 — delimited lines: token-wise round trip, no carry-over between lines."""
from ..framework import Check
from .. import fieldlib as fl
from .c03 import ref_interp

DELIMS = [";", ",", "|", "::", "\t", " ; ", "ab"]

# characters that are ordinary text to a delimited line (the property: split on the delimiter, trim blanks, nothing else) but that
# text-processing machinery gives a meaning to: quoting and escaping (csv, shlex), comments, regular-expression / glob / format syntax
MARKS = "\"\"''`\\#$%&*()[]{}^?+<>=~!@"
PLAIN = "abXY019._-"


def gen_marked_literal(rng, n):
    """a literal of at most n characters without surrounding blanks in which such characters stand where they matter to that
    machinery: at the very start of the token, at its end, around it as a pair, doubled, in the middle, after an escape character"""
    m = rng.choice(MARKS)
    body = "".join(rng.choice(PLAIN + " ") for _ in range(rng.randint(0, max(0, n - 2)))).strip()
    shape = rng.randrange(7)
    if shape == 0:
        s = m + body                                  # opens and never closes
    elif shape == 1:
        s = body + m                                  # closes what was never opened
    elif shape == 2:
        s = m + body + {"(": ")", "[": "]", "{": "}", "<": ">"}.get(m, m)   # a quoted / bracketed word
    elif shape == 3:
        k = rng.randint(0, len(body))
        s = body[:k] + m + body[k:]                   # in the middle
    elif shape == 4:
        k = rng.randint(0, len(body))
        s = body[:k] + m + m + body[k:]               # doubled (csv's escape of a quote)
    elif shape == 5:
        s = m + body[: len(body) // 2] + m + body[len(body) // 2:]          # closed early, text after the closing one
    else:
        s = "".join(rng.choice(MARKS + PLAIN) for _ in range(rng.randint(1, n)))
    return s[:n].strip()


def rendering(fd, v):
    """reference rendering of one value: the field written alone at column 0 (C01/C02 cover it)"""
    f = fl.mk_field(dict(fd, start=0), fl.py_value(v))
    return f.write("")


class CHECK(Check):
    pid = "C11"
    entry = "LINE"
    theorems = ["C11_write_shape", "C11_read_tokens", "C11_no_carry_over", "C11_split_join", "C11_roundtrip", "C11_token_values", "C11_short_line"]
    rule = ("delimited layouts of 1-6 fields of mixed kinds x delimiters {; , | :: TAB ' ; ' ab} x fitting value lists whose "
            "renderings contain neither the delimiter nor surrounding blanks (checked per case, others are counted and "
            "skipped) x sequences of 1-6 successive reads through the same Line object, through a new Line object over the same "
            "Field objects per call (as Register.read does), through a delimited register class (identifier of width 0-4 as first token, one register object or one per line), or reads only: the written line as is, with "
            "random blank padding around tokens, truncated to fewer tokens (short), extended with surplus tokens (long), "
            "and lines of garbage tokens; after every read all values are compared. non-trivial = the sequence contains "
            "a short line after a longer one, or padding; distinct = hash"
            " Later additions: three ways of driving the line (one Line, a new Line over the same Field objects per call, reads only). "
            "Round 11: in 40 % of the layouts with a literal field, literal values hold characters that are ordinary text to a delimited line but "
            "carry meaning for text-processing machinery (double / single / back quote, backslash, # $ % & * ( ) [ ] { } ^ ? + < > = ~ ! @) "
            "at the start of the token, at its end, around it, doubled, in the middle; garbage and surplus tokens include such tokens too.")

    def gen(self, tier, rng):
        n = 4000 if tier == "quick" else 100000
        for _ in range(n):
            fs = fl.gen_layout(rng, nmax=6, gaps=rng.random() < 0.5)
            d = rng.choice(DELIMS)
            nlines = rng.randint(1, 6)
            marked = rng.random() < 0.4 and any(fd["k"] == "lit" for fd in fs)
            lines = []
            for _ in range(nlines):
                vals = [fl.gen_value(rng, fd) for fd in fs]
                if marked:
                    # literal values holding quote / escape / comment / pattern characters (round 11)
                    vals = [["str", gen_marked_literal(rng, fd["size"])] if fd["k"] == "lit" and v is not None and v[0] == "str" and rng.random() < 0.6 else v
                            for fd, v in zip(fs, vals)]
                kind = rng.choice(["exact", "exact", "padded", "short", "short", "long", "garbage"])
                lines.append({"values": vals, "kind": kind, "k": rng.randint(0, max(0, len(fs) - 1)), "seed": rng.getrandbits(30)})
            # how the implementation is driven: one Line object for everything; a new Line object over the same Field objects for
            # every write and every read (what Register.read does with its class-level fields); reads only, no write in between
            case = {"fields": fs, "delim": d, "lines": lines, "via": rng.choice(["line", "line", "fresh", "fresh", "readonly", "register", "register"])}
            if case["via"] == "register":
                # a delimited register class: the identifier (possibly of zero width: a plain table) is the first token
                ident = rng.choice(["", "", "ID", "R1"])
                case["ident"] = [ident, len(ident) + (rng.choice([0, 0, 2]) if ident else 0), rng.random() < 0.5]
            yield case

    @staticmethod
    def derive_text(case, ln, written):
        """the text handed to read for this line, derived deterministically from the written text"""
        import random
        r = random.Random(ln["seed"])
        d = case["delim"]
        toks = written[:-1].split(d)
        kind = ln["kind"]
        if kind == "exact":
            return written
        if kind == "padded":
            toks = [r.choice(["", " ", "  "]) + t + r.choice(["", " ", "   "]) for t in toks]
            return d.join(toks) + r.choice(["\n", " \n", ""])
        if kind == "short":
            return d.join(toks[: ln["k"]]) + r.choice(["\n", ""])
        if kind == "long":
            return d.join(toks + [r.choice(["x", "99", "", " 1.5 ", "\"", "'y"]) for _ in range(r.randint(1, 3))]) + "\n"
        return d.join(r.choice(["", "x", "-", "1e", "12", "2020", " . ", "\"12\"", "\"x", "'7'", "\\", "#"]) for _ in range(r.randint(0, len(toks) + 1))) + "\n"

    def impl(self, case):
        from cfinterface.components.line import Line
        flds = [fl.mk_field(fd) for fd in case["fields"]]
        via = case.get("via", "line")
        line = Line(flds, delimiter=case["delim"])
        out = []
        if via == "register":
            return self.impl_register(case, flds)
        for ln in case["lines"]:
            if via == "readonly":
                w = case["delim"].join(rendering(fd, v).strip() for fd, v in zip(case["fields"], ln["values"])) + "\n"
            else:
                try:
                    w = (Line(flds, delimiter=case["delim"]) if via == "fresh" else line).write([fl.py_value(v) for v in ln["values"]])
                except OverflowError:
                    out.append({"raised": "OverflowError"})
                    continue
            text = self.derive_text(case, ln, w)
            r = (Line(flds, delimiter=case["delim"]) if via == "fresh" else line).read(text)
            out.append({"written": w, "text": text, "read": [fl.canon_value(x) for x in r]})
        return out

    def impl_register(self, case, flds):
        """the same sequence driven through a delimited register class: Register.write / Register.read on text buffers; the identifier
        token is split off what is written and put in front of what is read, the rest is observed as for a bare Line"""
        import io
        from cfinterface.components.line import Line
        from cfinterface.components.register import Register
        d = case["delim"]
        ident, digits, same = case["ident"]
        ns = {"LINE": Line(flds, delimiter=d), "__slots__": []}
        if ident or not same:
            ns.update({"IDENTIFIER": ident, "IDENTIFIER_DIGITS": digits})    # else: a plain table relying on the framework's defaults
        R = type("VDelimRegister", (Register,), ns)
        reg = R()
        out = []
        for ln in case["lines"]:
            vals = [fl.py_value(v) for v in ln["values"]]
            if all(v is None for v in vals):
                # Register.write writes nothing for a register without any value: the text is the reference rendering
                w = d.join(rendering(fd, v).strip() for fd, v in zip(case["fields"], ln["values"])) + "\n"
            else:
                buf = io.StringIO()
                wr = reg if same else R()
                wr.data = vals
                try:
                    wr.write(buf)
                except OverflowError:
                    out.append({"raised": "OverflowError"})
                    continue
                full = buf.getvalue()
                if not full.startswith(ident + d):
                    out.append({"written": full, "text": "", "read": []})
                    continue
                w = full[len(ident + d):]
            text = self.derive_text(case, ln, w)
            rd = reg if same else R()
            rd.read(io.StringIO(ident + d + text))
            out.append({"written": w, "text": text, "read": [fl.canon_value(x) for x in rd.data]})
        return out

    def model_arg(self, case):
        # the model needs the texts: compute them from the model-independent derivation applied to the
        # implementation-independent reference rendering (join of stripped single-field renderings)
        ctor = [[[fl.field_sx(fd), []] for fd in case["fields"]], [], [case["delim"]], False]
        ops = []
        for ln in case["lines"]:
            vals = [fl.value_sx(v) for v in ln["values"]]
            ref = case["delim"].join(rendering(fd, v).strip() for fd, v in zip(case["fields"], ln["values"])) + "\n"
            ops += [[8, vals], [5, vals], [4, self.derive_text(case, ln, ref)]]
        return [0, ctor, ops]

    def model_obs(self, case, res):
        out = []
        for i in range(len(case["lines"])):
            fits, w, r = res[3 * i: 3 * i + 3]
            out.append({"written": fl.ostr(w), "read": [fl.canon_model_value(v) for v in r], "fits": all(fits)})
        return out

    def in_domain(self, case, mobs):
        d = case["delim"]
        for ln, m in zip(case["lines"], mobs):
            if not m["fits"]:
                return False
            for fd, v in zip(case["fields"], ln["values"]):
                t = rendering(fd, v).strip()
                # renderings must not contain the delimiter; for multi-character delimiters the tokens must not
                # share characters with it either (DESIGN 8.3), else split(join(tokens)) != tokens
                if any(c in t for c in d) and not d.isspace():
                    return False
                if d.isspace() and d in t:
                    return False
        return True

    def compare(self, case, iobs, mobs):
        for i, (a, b) in enumerate(zip(iobs, mobs)):
            if "raised" in a:
                return "line %d: implementation raised" % i
            if a["written"] != b["written"]:
                return "line %d written: impl=%r model=%r" % (i, a["written"], b["written"])
            if a["read"] != b["read"]:
                return "line %d read: impl=%r model=%r text=%r" % (i, a["read"], b["read"], a["text"])
        return None

    def oracle(self, case, obs):
        fs, d = case["fields"], case["delim"]
        for i, (ln, o) in enumerate(zip(case["lines"], obs)):
            if "raised" in o:
                return "write raised"
            exp_tokens = [rendering(fd, v).strip() for fd, v in zip(fs, ln["values"])]
            if o["written"] != d.join(exp_tokens) + "\n":
                return "written line is not the trimmed renderings joined by the delimiter plus newline"
            toks = [t.strip() for t in o["text"].split(d)]
            for j, fd in enumerate(fs):
                got = o["read"][j] if j < len(o["read"]) else "absent"
                if j < len(toks):
                    exp = ref_interp(dict(fd, start=0), toks[j][: fd["size"]])
                    if got != exp:
                        if ln["kind"] in ("exact", "padded"):
                            return "written line read back: token read differs from the reference interpretation of the token"
                        return "token read differs from the reference interpretation of the token"
                else:
                    if got is not None:
                        return "absent token did not read as a missing value (left over from a previous line)" if i > 0 else \
                            "absent token did not read as a missing value"
            if len(o["read"]) != len(fs):
                return "number of values differs from the number of fields"
        return None

    def nontrivial(self, case, obs):
        ks = [ln["kind"] for ln in case["lines"]]
        return "padded" in ks or any(k == "short" for k in ks[1:])

    def classify(self, case):
        d = {"fields_%d" % len(case["fields"]): 1, "lines_%d" % len(case["lines"]): 1, "delim_len_%d" % len(case["delim"]): 1, "via_" + case.get("via", "line"): 1}
        for ln in case["lines"]:
            d["line_" + ln["kind"]] = d.get("line_" + ln["kind"], 0) + 1
            marks = [v[1] for v in ln["values"] if v is not None and v[0] == "str" and any(c in MARKS for c in v[1])]
            if marks:
                d["line_with_marked_literal"] = d.get("line_with_marked_literal", 0) + 1
            if any(m[0] in "\"'" for m in marks):
                d["line_with_literal_starting_with_a_quote"] = d.get("line_with_literal_starting_with_a_quote", 0) + 1
        return d

    def signature(self, case, why):
        return why.split(" (")[0]

    def shrink(self, case):
        if len(case["lines"]) > 1:
            for i in range(len(case["lines"])):
                c = dict(case)
                c["lines"] = case["lines"][:i] + case["lines"][i + 1:]
                yield c
        if len(case["fields"]) > 1:
            for i in range(len(case["fields"])):
                c = dict(case)
                c["fields"] = case["fields"][:i] + case["fields"][i + 1:]
                c["lines"] = [dict(ln, values=ln["values"][:i] + ln["values"][i + 1:], k=min(ln["k"], len(c["fields"]) - 1)) for ln in case["lines"]]
                yield c

    def neighbours(self, case, rng):
        for _ in range(10):
            c = dict(case)
            c["lines"] = [dict(ln, kind=rng.choice(["exact", "short", "padded"])) for ln in case["lines"]]
            yield c
