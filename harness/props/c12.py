"""C12 — block files: begin-pattern dispatch, full accounting, verbatim round trip."""
import io
import re

from ..framework import Check
from .c13 import nl_lines
from .. import blocklib as bl, lib, relib

LINE_POOL = ["BEGIN X", "END", "  BEGIN", "data 1", "STOP here", "B", "", "XEND", "--", "# c", "E", "BEGIN END", "GIN X B",
             "BEGIN \u00e9t\u00e9", "\u00e7 END", "\u20ac B"]
# carriage returns are ordinary characters of in-memory content (no newline translation there): CRLF line ends, a lone CR
# inside a line, a line that is only a CR
CR_POOL = ["END\r", "BEGIN X\r", "da\rta 1", "\r", "B\rEND", "data 12\r"]
WORDS = ["BEGIN", "END", "B", "X", "#", "--", "STOP", "E", "GIN X", "data", "1", "\n", "END\n", " ", "\r"]


class CHECK(Check):
    pid = "C12"
    entry = "BLOCKFILE"
    theorems = ["C12_total", "C12_accounting", "C12_roundtrip", "C12_dispatch", "C12_first_match", "C12_default_one_line",
                "C12_found", "C12_found_literal", "C12_found_anchored_literal", "C12_found_alternation", "C12_found_empty", "C12_dispatch_denotation", "C12_pattern_star", "C12_pattern_repetition", "C12_block_extent"]
    rule = ("block lists of 1-4 raw block types (blocks that store the lines they consume: from the first line up to and "
            "including the first line where the end pattern is found, or the end of input) with begin/end patterns from a "
            "pool of regular expressions that match mid-line, are anchored, alternate and overlap (declaration order "
            "matters) x contents of 0-10 lines from a pool with nested-looking markers, unterminated blocks, markers on "
            "the last line without newline, blank lines, empty content; text storage and binary storage with one-byte "
            "markers. Plus every content of <=3 lines over an 8-line pool for 10 fixed block lists (complete). "
            "non-trivial = at least one typed block of >= 2 lines and one default block; distinct = hash"
            " Later additions: block class hierarchies, read() returning True/honest False/None, patterns containing the line terminator, the empty pattern."
            " Round 11: begin/end patterns are regular expressions proper (the model's language, coq/Py/PyRe.v: classes, . \\s \\d, ^ $, "
            "concatenation, alternation, * + ? {m,n}) -- a pool of typical block markers plus randomly generated expressions in 35 % of "
            "the random block lists, classes as one-byte markers in binary storage; carriage returns in text content (CRLF ends, lone CR); "
            "extra tie: re.search/match/fullmatch of the generated expressions against the model (small scope complete + random + "
            "the \\s / \\d tables); blocks whose storage is allocated by the constructor and only appended to by read(); 1-2 other "
            "contents read and written through the same file class before the measured read.")

    def gen(self, tier, rng):
        import itertools, random
        r2 = random.Random(777)
        for _ in range(10):
            bds = [{"begin": r2.choice(bl.PATTERN_POOL), "end": r2.choice(bl.PATTERN_POOL)} for _ in range(r2.randint(1, 3))]
            pool = r2.sample(LINE_POOL, 8)
            for n in range(0, 4 if tier == "thorough" else 3):
                for combo in itertools.product(pool, repeat=n):
                    for fin in ("\n", ""):
                        if n == 0 and fin == "":
                            continue
                        yield {"binary": False, "blocks": bds, "content": "\n".join(combo) + (fin if n else "")}
        n = 2500 if tier == "quick" else 60000
        for _ in range(n):
            if rng.random() < 0.3:
                marks = "\x01\x02\x03\x04"
                bds = []
                for _ in range(rng.randint(1, 3)):
                    bds.append({"begin": self.bin_marker(rng, marks), "end": self.bin_marker(rng, marks)})
                content = "".join(rng.choice("\x01\x02\x03\x04\x05ab\n\x00\xff") for _ in range(rng.randint(0, 14)))
                self.hierarchy(rng, bds)
                yield {"binary": True, "blocks": bds, "content": content}
            else:
                gen_re = rng.random() < 0.35
                bds = [{"begin": self.text_pattern(rng, gen_re), "end": self.text_pattern(rng, gen_re)} for _ in range(rng.randint(1, 4))]
                pool = LINE_POOL + CR_POOL if rng.random() < 0.3 else LINE_POOL
                lines = [rng.choice(pool) for _ in range(rng.randint(0, 10))]
                self.hierarchy(rng, bds)
                for bd in bds:
                    if rng.random() < 0.3:
                        bd["store"] = "init"     # storage allocated by the constructor, read() only appends
                case = {"binary": False, "blocks": bds, "content": "\n".join(lines) + (rng.choice(["\n", "\n", ""]) if lines else "")}
                if rng.random() < 0.35:
                    # object history: 1-2 other contents were read (and written) through the same file class before
                    case["earlier"] = ["\n".join(rng.choice(LINE_POOL) for _ in range(rng.randint(0, 6))) + rng.choice(["\n", ""])
                                       for _ in range(rng.randint(1, 2))]
                yield case

    @staticmethod
    def text_pattern(rng, gen_re):
        if gen_re and rng.random() < 0.7:
            return relib.gen_pattern(rng, WORDS, "ABEX019 #-\n\t.zd\r", 3)
        return rng.choice(bl.PATTERN_POOL)

    @staticmethod
    def bin_marker(rng, marks):
        """one-byte markers: a literal byte, or a class / negated class / alternation of bytes"""
        k = rng.random()
        if k < 0.6:
            return [[False, rng.choice(marks)]]
        if k < 0.8:
            a = ord(rng.choice(marks))
            return ["cls", rng.random() < 0.3, [[a, a + rng.randint(0, 2)]]]
        if k < 0.9:
            return ["alt", ["lit", rng.choice(marks)], ["lit", rng.choice(marks + "a")]]
        return rng.choice([["any"], ["s", False], ["d", True], ["seq", ["bol"], ["lit", rng.choice(marks)]], ["seq", ["lit", rng.choice(marks)], ["eol"]]])

    def extra(self, tier, seed):
        """'found in the line' is the model's re_search: compare it (and match / fullmatch) with CPython's re directly"""
        n, kinds, bad = relib.run_tie(tier, seed)
        return {"what": "regular-expression correspondence: re.search/match/fullmatch(...) is not None vs coq/Py/PyRe.v", "evaluations": n,
                "by_kind": kinds, "problems": ["%s /%s/ on %r: python %r model %r" % b for b in bad[:5]]}

    @staticmethod
    def hierarchy(rng, bds):
        """a quarter of the block lists are class hierarchies: a later block type subclasses an earlier one"""
        if rng.random() < 0.25:
            for i in range(1, len(bds)):
                if rng.random() < 0.6:
                    bds[i]["parent"] = rng.randrange(i)

    def impl(self, case):
        from cfinterface.components.defaultblock import DefaultBlock
        binary = case["binary"]
        blocks = bl.mk_block_classes(case["blocks"], binary)
        F = bl.mk_blockfile_class(blocks, binary)
        content = case["content"].encode("latin-1") if binary else case["content"]
        arg = content
        import os, hashlib
        if not binary and content and "\r" not in content and int(hashlib.sha1(repr(case).encode()).hexdigest(), 16) % 3 == 0:
            # a third of the text cases come from a file on disk (utf-8): positions there are bytes, not characters
            d = os.path.join(lib.SCRATCH, "tmp_c12")
            os.makedirs(d, exist_ok=True)
            arg = os.path.join(d, "in.txt")
            with open(arg, "w", encoding="utf-8", newline="") as fh:
                fh.write(content)
        try:
            with lib.budget(5000 + 600 * (len(content) + 1 + sum(len(c) + 1 for c in case.get("earlier", [])))):
                for c0 in case.get("earlier", []):
                    F.read(c0).write(io.StringIO())
                f = F.read(arg)
                elems = bl.canon_raw(f.data, DefaultBlock, binary, cap=len(content) + 5)
                buf = io.BytesIO() if binary else io.StringIO()
                f.write(buf)
                out = buf.getvalue()
        except lib.BudgetExceeded:
            return {"raised": "BudgetExceeded"}
        except Exception as e:
            return {"raised": type(e).__name__ + ": " + str(e)[:100]}
        return {"placeholder": elems[0], "elems": elems[1:], "written": list(out) if binary else out}

    def model_arg(self, case, variant=0):
        b = case["binary"]
        return [variant, b, [[bl.pattern_sx(bd["begin"], b), bl.pattern_sx(bd["end"], b)] for bd in case["blocks"]], case["content"]]

    def model_obs(self, case, res):
        if res == [-3]:
            return {"raised": "OutOfFuel"}
        b = case["binary"]
        return {"placeholder": [-1, ""], "elems": bl.model_raw(res[0], b),
                "written": list(res[1]) if b else lib.to_str(res[1])}

    def oracle(self, case, obs):
        if "raised" in obs:
            return "BlockFile.read/write raised: %s" % obs["raised"]
        b = case["binary"]
        content = list(case["content"].encode("latin-1")) if b else case["content"]
        raws = [e[1] for e in obs["elems"]]
        cat = sum(raws, []) if b else "".join(raws)
        if cat != content:
            return "input lost, duplicated or reordered: concatenation of the elements' raw data differs from the content"
        if obs["written"] != content:
            return "written output differs from the content that was read"
        nel = len(obs["elems"])
        for ei, (idx, raw) in enumerate(obs["elems"]):
            whole = (raw[-1:] == ([10] if b else "\n")) or ei == nel - 1
            if idx == -1 and not whole:
                return "default block does not hold a whole line" + (" [binary]" if b else "")
            if b:
                first = bytes(raw[:1])
                exp = -1
                for i, bd in enumerate(case["blocks"]):
                    if re.search(bl.regex_of(bd["begin"], True), first) is not None:
                        exp = i
                        break
                one_line = (raw.count(10) == 0) or (raw.count(10) == 1 and raw[-1] == 10)
            else:
                first = nl_lines(raw)[0] if raw else ""
                exp = -1
                for i, bd in enumerate(case["blocks"]):
                    if re.search(bl.regex_of(bd["begin"]), first) is not None:
                        exp = i
                        break
                one_line = raw.count("\n") == 0 or (raw.count("\n") == 1 and raw.endswith("\n"))
            if idx != exp:
                return "region handed to the wrong block type (first declared begin match must win, else default)" + (" [binary]" if b else "")
            if idx == -1 and not one_line:
                return "default block holds more than one line"
        return None

    def nontrivial(self, case, obs):
        if not isinstance(obs, dict) or "elems" not in obs:
            return False
        typed = [e for e in obs["elems"] if e[0] >= 0 and (e[1].count(10) if case["binary"] else e[1].count("\n")) >= 1]
        return bool(typed) and any(e[0] < 0 for e in obs["elems"])

    def classify(self, case):
        d = {"binary" if case["binary"] else "text": 1, "types_%d" % len(case["blocks"]): 1,
             "final_newline" if case["content"].endswith("\n") else "no_final_newline": 1}
        if any(not relib.is_legacy(bd[k]) for bd in case["blocks"] for k in ("begin", "end")):
            d["with_regular_expression_patterns"] = 1
        if "\r" in case["content"]:
            d["content_with_carriage_return"] = 1
        if case.get("earlier"):
            d["earlier_reads_through_the_same_file_class"] = 1
        if any(bd.get("store") == "init" for bd in case["blocks"]):
            d["block_storage_allocated_by_the_constructor"] = 1
        return d

    def signature(self, case, why):
        return why

    def shrink(self, case):
        if not case["binary"]:
            lines = nl_lines(case["content"])
            for i in range(len(lines)):
                c = dict(case)
                c["content"] = "".join(lines[:i] + lines[i + 1:])
                yield c
        else:
            s = case["content"]
            for i in range(len(s)):
                c = dict(case)
                c["content"] = s[:i] + s[i + 1:]
                yield c
        if len(case["blocks"]) > 1:
            for i in range(len(case["blocks"])):
                c = dict(case)
                c["blocks"] = case["blocks"][:i] + case["blocks"][i + 1:]
                yield c
        if case.get("earlier"):
            for i in range(len(case["earlier"])):
                c = dict(case)
                c["earlier"] = case["earlier"][:i] + case["earlier"][i + 1:]
                yield c

    def neighbours(self, case, rng):
        return []
