"""C12 — block files: begin-pattern dispatch, full accounting, verbatim round trip."""
import io
import re

from ..framework import Check
from .c13 import nl_lines
from .. import blocklib as bl, lib

LINE_POOL = ["BEGIN X", "END", "  BEGIN", "data 1", "STOP here", "B", "", "XEND", "--", "# c", "E", "BEGIN END", "GIN X B",
             "BEGIN \u00e9t\u00e9", "\u00e7 END", "\u20ac B"]


class CHECK(Check):
    pid = "C12"
    entry = "BLOCKFILE"
    theorems = ["C12_total", "C12_accounting", "C12_roundtrip", "C12_dispatch", "C12_first_match", "C12_default_one_line"]
    rule = ("block lists of 1-4 raw block types (blocks that store the lines they consume: from the first line up to and "
            "including the first line where the end pattern is found, or the end of input) with begin/end patterns from a "
            "pool of regular expressions that match mid-line, are anchored, alternate and overlap (declaration order "
            "matters) x contents of 0-10 lines from a pool with nested-looking markers, unterminated blocks, markers on "
            "the last line without newline, blank lines, empty content; text storage and binary storage with one-byte "
            "markers. Plus every content of <=3 lines over an 8-line pool for 10 fixed block lists (complete). "
            "non-trivial = at least one typed block of >= 2 lines and one default block; distinct = hash"
            " Later additions: block class hierarchies, read() returning True/honest False/None, patterns containing the line terminator, the empty pattern.")

    def gen(self, tier, rng):
        import itertools, random
        r2 = random.Random(777)
        for _ in range(10):
            bds = [{"begin": r2.choice(bl.PATTERN_POOL), "end": r2.choice(bl.PATTERN_POOL)} for _ in range(r2.randint(1, 3))]
            pool = r2.sample(LINE_POOL, 8)
            for n in range(0, 4 if tier == "thorough" else 3):
                for combo in itertools.product(pool, repeat=n):
                    for fin in ("\n", ""):
                        if n == 0 and fin == "":
                            continue
                        yield {"binary": False, "blocks": bds, "content": "\n".join(combo) + (fin if n else "")}
        n = 2500 if tier == "quick" else 60000
        for _ in range(n):
            if rng.random() < 0.3:
                marks = "\x01\x02\x03\x04"
                bds = []
                for _ in range(rng.randint(1, 3)):
                    bds.append({"begin": [[False, rng.choice(marks)]], "end": [[False, rng.choice(marks)]]})
                content = "".join(rng.choice("\x01\x02\x03\x04\x05ab\n\x00\xff") for _ in range(rng.randint(0, 14)))
                self.hierarchy(rng, bds)
                yield {"binary": True, "blocks": bds, "content": content}
            else:
                bds = [{"begin": rng.choice(bl.PATTERN_POOL), "end": rng.choice(bl.PATTERN_POOL)} for _ in range(rng.randint(1, 4))]
                lines = [rng.choice(LINE_POOL) for _ in range(rng.randint(0, 10))]
                self.hierarchy(rng, bds)
                yield {"binary": False, "blocks": bds, "content": "\n".join(lines) + (rng.choice(["\n", "\n", ""]) if lines else "")}

    @staticmethod
    def hierarchy(rng, bds):
        """a quarter of the block lists are class hierarchies: a later block type subclasses an earlier one"""
        if rng.random() < 0.25:
            for i in range(1, len(bds)):
                if rng.random() < 0.6:
                    bds[i]["parent"] = rng.randrange(i)

    def impl(self, case):
        from cfinterface.components.defaultblock import DefaultBlock
        binary = case["binary"]
        blocks = bl.mk_block_classes(case["blocks"], binary)
        F = bl.mk_blockfile_class(blocks, binary)
        content = case["content"].encode("latin-1") if binary else case["content"]
        arg = content
        import os, hashlib
        if not binary and content and "\r" not in content and int(hashlib.sha1(repr(case).encode()).hexdigest(), 16) % 3 == 0:
            # a third of the text cases come from a file on disk (utf-8): positions there are bytes, not characters
            d = os.path.join(lib.SCRATCH, "tmp_c12")
            os.makedirs(d, exist_ok=True)
            arg = os.path.join(d, "in.txt")
            with open(arg, "w", encoding="utf-8", newline="") as fh:
                fh.write(content)
        try:
            with lib.budget(5000 + 600 * (len(content) + 1)):
                f = F.read(arg)
                elems = bl.canon_raw(f.data, DefaultBlock, binary, cap=len(content) + 5)
                buf = io.BytesIO() if binary else io.StringIO()
                f.write(buf)
                out = buf.getvalue()
        except lib.BudgetExceeded:
            return {"raised": "BudgetExceeded"}
        except Exception as e:
            return {"raised": type(e).__name__ + ": " + str(e)[:100]}
        return {"placeholder": elems[0], "elems": elems[1:], "written": list(out) if binary else out}

    def model_arg(self, case, variant=0):
        return [variant, case["binary"], [[bl.pattern_sx(bd["begin"]), bl.pattern_sx(bd["end"])] for bd in case["blocks"]],
                case["content"]]

    def model_obs(self, case, res):
        if res == [-3]:
            return {"raised": "OutOfFuel"}
        b = case["binary"]
        return {"placeholder": [-1, ""], "elems": bl.model_raw(res[0], b),
                "written": list(res[1]) if b else lib.to_str(res[1])}

    def oracle(self, case, obs):
        if "raised" in obs:
            return "BlockFile.read/write raised: %s" % obs["raised"]
        b = case["binary"]
        content = list(case["content"].encode("latin-1")) if b else case["content"]
        raws = [e[1] for e in obs["elems"]]
        cat = sum(raws, []) if b else "".join(raws)
        if cat != content:
            return "input lost, duplicated or reordered: concatenation of the elements' raw data differs from the content"
        if obs["written"] != content:
            return "written output differs from the content that was read"
        nel = len(obs["elems"])
        for ei, (idx, raw) in enumerate(obs["elems"]):
            whole = (raw[-1:] == ([10] if b else "\n")) or ei == nel - 1
            if idx == -1 and not whole:
                return "default block does not hold a whole line" + (" [binary]" if b else "")
            if b:
                first = bytes(raw[:1])
                exp = -1
                for i, bd in enumerate(case["blocks"]):
                    if re.search(bl.regex_of(bd["begin"], True), first) is not None:
                        exp = i
                        break
                one_line = (raw.count(10) == 0) or (raw.count(10) == 1 and raw[-1] == 10)
            else:
                first = nl_lines(raw)[0] if raw else ""
                exp = -1
                for i, bd in enumerate(case["blocks"]):
                    if re.search(bl.regex_of(bd["begin"]), first) is not None:
                        exp = i
                        break
                one_line = raw.count("\n") == 0 or (raw.count("\n") == 1 and raw.endswith("\n"))
            if idx != exp:
                return "region handed to the wrong block type (first declared begin match must win, else default)" + (" [binary]" if b else "")
            if idx == -1 and not one_line:
                return "default block holds more than one line"
        return None

    def nontrivial(self, case, obs):
        if not isinstance(obs, dict) or "elems" not in obs:
            return False
        typed = [e for e in obs["elems"] if e[0] >= 0 and (e[1].count(10) if case["binary"] else e[1].count("\n")) >= 1]
        return bool(typed) and any(e[0] < 0 for e in obs["elems"])

    def classify(self, case):
        return {"binary" if case["binary"] else "text": 1, "types_%d" % len(case["blocks"]): 1,
                "final_newline" if case["content"].endswith("\n") else "no_final_newline": 1}

    def signature(self, case, why):
        return why

    def shrink(self, case):
        if not case["binary"]:
            lines = nl_lines(case["content"])
            for i in range(len(lines)):
                c = dict(case)
                c["content"] = "".join(lines[:i] + lines[i + 1:])
                yield c
        else:
            s = case["content"]
            for i in range(len(s)):
                c = dict(case)
                c["content"] = s[:i] + s[i + 1:]
                yield c
        if len(case["blocks"]) > 1:
            for i in range(len(case["blocks"])):
                c = dict(case)
                c["blocks"] = case["blocks"][:i] + case["blocks"][i + 1:]
                yield c

    def neighbours(self, case, rng):
        return []
