"""C14 — no hidden sharing: objects never change as a side effect of other objects."""
import io

from ..framework import Check
from .. import fieldlib as fl, families, lib


# real-valued fields draw their texts and values from one small pool, so that the same number - and numbers that compare equal
# but are written differently (the two zeros) - recur down a column and across the objects sharing a Field
FLOAT_POOL = [0.0, -0.0, 0.0, -0.0, 1.5, -1.5, 2.25, 12.5, 0.5, -0.25, 1.5]


def float_text(rng, fd):
    if rng.random() < 0.1:
        return rng.choice(["", "x"])
    return ("%.*" + fd["fmt"]) % (fd["dd"], rng.choice(FLOAT_POOL))


def gen_line(rng, kinds=("int", "lit", "int", "int", "lit", "int", "date", "float", "float")):
    fs = []
    pos = 0
    for _ in range(rng.randint(1, 3)):
        k = rng.choice(kinds)
        fd = {"k": k, "size": rng.randint(2, 5), "start": pos}
        if k == "float":
            fmt = rng.choice("FFE")
            dd = rng.randint(1, 3)
            fd = {"k": "float", "size": dd + (7 if fmt == "E" else 4) + rng.randint(0, 2), "start": pos, "dd": dd, "fmt": fmt, "sep": "."}
        if k == "date":
            # a format list whose formats parse the same text differently: what one object reads must not depend on what
            # another object sharing the Field read before
            fd = {"k": "date", "size": 10, "start": pos, "formats": rng.choice([["%d/%m/%Y", "%m/%d/%Y"], ["%m/%d/%Y", "%d/%m/%Y"], ["%d/%m/%Y"], ["%m/%d/%Y"], ["%d/%m/%Y", "%Y/%m/%d"]]), "aslist": True}
        fs.append(fd)
        pos += fd["size"]
    return fs


def date_text(rng):
    return "%02d/%02d/%04d" % (rng.choice([1, 2, 5, 12, 13, 25]), rng.choice([1, 2, 5, 12, 13, 28]), rng.choice([1999, 2020]))


def gen_text_delim(rng, fs):
    """a ';'-delimited line, possibly with fewer tokens than fields (absent fields must read as missing)"""
    toks = []
    for fd in fs[: rng.randint(0, len(fs))] if rng.random() < 0.5 else fs:
        if fd["k"] == "date":
            toks.append(date_text(rng))
        elif fd["k"] == "float":
            toks.append(float_text(rng, fd))
        elif fd["k"] == "int":
            toks.append(str(rng.randint(0, 10 ** (fd["size"] - 1) - 1)) if rng.random() < 0.85 else "x")
        else:
            toks.append("".join(rng.choice("abc") for _ in range(rng.randint(0, fd["size"]))))
    return ";".join(toks) + "\n"


def gen_text(rng, fs):
    if rng.random() < 0.08:
        return ""            # an exhausted buffer / empty line: every field reads as missing, whatever the shared fields held
    parts = []
    for fd in fs:
        if fd["k"] == "date":
            t = date_text(rng)
        elif fd["k"] == "float":
            t = float_text(rng, fd).rjust(fd["size"])
        elif fd["k"] == "int":
            t = str(rng.randint(0, 10 ** (fd["size"] - 1) - 1)).rjust(fd["size"]) if rng.random() < 0.85 else "x".rjust(fd["size"])
        else:
            t = "".join(rng.choice("abc") for _ in range(rng.randint(0, fd["size"]))).ljust(fd["size"])
        parts.append(t)
    return "".join(parts) + "\n"


def gen_val(rng, fd):
    if rng.random() < 0.2:
        return None
    if fd["k"] == "date":
        return ["date", [rng.choice([1999, 2020]), rng.choice([1, 2, 12]), rng.choice([1, 2, 12, 25]), 0, 0, 0, 0]]
    if fd["k"] == "int":
        return ["int", rng.randint(0, 10 ** (fd["size"] - 1) - 1)]
    if fd["k"] == "float":
        return ["float", fl.f2b(rng.choice(FLOAT_POOL))]
    return ["str", "".join(rng.choice("xyz") for _ in range(rng.randint(1, fd["size"])))]


class CHECK(Check):
    pid = "C14"
    entry = "C14"
    theorems = ["C14_inv", "C14_frame_register", "C14_frame_result", "C14_frame_file", "C14_read_fresh", "C14_write_own_data",
                "C14_fresh_file"]
    rule = ("(a) interleavings of 3-25 operations over 2-4 register objects of 1-3 classes (two classes may share one Line object; some Line objects are ';'-delimited and are read with short lines), "
            "the lists returned by Line.read, and 1-3 register files: construct a register, read a line into it, write it, call "
            "Line.read directly and keep the result, mutate any list the user holds, set a shared field's value, File(), "
            "File.read(content), append / remove on a file, moving an element from one file to another; every interleaving of length<=3 over a 7-operation alphabet on two "
            "registers of one class (complete) plus random interleavings. After every operation every live object's observation "
            "and the identity partition of all data lists / containers are compared with the model, and each object's final "
            "observation with an isolated replay of its own operations. (b) for the three families: File() == File.read(''), two "
            "File() are independent, File().write gives ''. non-trivial = >= 2 objects of the same class were operated on; "
            "distinct = hash"
            " Later additions: date fields with ambiguous or head-sharing format lists, a no-op storage setter after every list mutation with every Line's field values observed, elements moved between files, two files emptied completely (oracle only). "
            "Class hierarchies: a register class may derive from an earlier register class of the case and declare its own LINE (parent/child, "
            "siblings, chains of three; 1-3 classes), so that registers of *related* classes are read and written in every order - every interleaving "
            "of length<=3 over a 6-operation alphabet on a parent and a child register (both orientations of the two layouts, complete) plus the "
            "random interleavings; such cases count as non-trivial when two registers of related classes were operated on. "
            "Real-valued fields (F and E notation, 1-3 decimals) whose texts and assigned values come from one pool of eleven numbers, so that the "
            "same number - and the two zeros, equal under == but written differently - recurs through one Field object from several registers, "
            "results and classes; one random case in seven is a short history (4-10 operations, six in ten of them a register read or written) over one class with real-valued fields only, ending with every register written once more in a random order. "
            "Query histories (oracle only): a register file of two unrelated register classes read from 2-6 rows, then 4-14 operations out of: "
            "get_registers_of_type with or without a keyword filter (a returned list is kept by the caller), of_type, a mutation of any list the "
            "caller was given (reverse, sort, pop, clear, del of the tail, append), append / remove on the container; after every operation the "
            "chain, both kinds of query for both classes and every list handed out so far are compared with plain Python lists subjected to the same operations.")

    def gen(self, tier, rng):
        import itertools
        for fam in families.FAMILIES:
            yield {"kind": "fresh", "fam": fam}
            # containers emptied completely (every element removed), then one of them is used again: the other must not change
            for variant in ("append", "preppend", "read_then_empty"):
                yield {"kind": "emptied", "fam": fam, "variant": variant}
        # complete: two registers of one class, 7-op alphabet, length <= 3
        fs = [{"k": "int", "size": 3, "start": 0}, {"k": "lit", "size": 3, "start": 3}]
        alpha = [[1, 0, " 12abc\n"], [1, 1, "  7 zz\n"], [2, 0], [2, 1], [4, 0, 0, ["int", 99]], [5, 0, 0, ["int", 5]], [3, 0, " 42 q \n"]]
        for n in range(1, 4):
            for combo in itertools.product(alpha, repeat=n):
                yield {"kind": "graph", "lines": [fs], "ops": [[0, 0], [0, 0]] + [list(o) for o in combo]}
        # complete: one register of a parent class and one of a class derived from it that declares its own layout
        # (a shorter and a longer one, both orientations), 6-op alphabet, length <= 3
        fa = [{"k": "int", "size": 3, "start": 0}]
        fb = [{"k": "int", "size": 3, "start": 0}, {"k": "lit", "size": 3, "start": 3}, {"k": "int", "size": 2, "start": 6}]
        ta, tb = [" 12\n", " 34\n"], ["  7abc 5\n", "  9xyz 1\n"]
        for hl, ht in (([fa, fb], [ta, tb]), ([fb, fa], [tb, ta])):
            alpha = [[1, 0, ht[0][0]], [1, 1, ht[1][0]], [2, 0], [2, 1], [4, 1, 0, ["int", 99]], [3, 1, ht[1][1]]]
            for n in range(1, 4):
                for combo in itertools.product(alpha, repeat=n):
                    yield {"kind": "graph", "lines": hl, "bases": [None, 0], "ops": [[0, 0], [0, 1]] + [list(o) for o in combo]}
        for _ in range(150 if tier == "quick" else 3000):
            yield self.gen_query(rng)
        nr = 1500 if tier == "quick" else 30000
        for _ in range(nr):
            k = rng.random()
            nl = 1 if k < 0.45 else 2 if k < 0.88 else 3
            # one case in seven is a short history, mostly of reads and writes, over one class whose fields are all real-valued ("a column of numbers")
            column = rng.random() < 0.15
            if column:
                nl = 1
            lines = [gen_line(rng, ("float",)) if column else gen_line(rng) for _ in range(nl)]
            # class i derives from Register or from an earlier class of the case (and declares its own LINE)
            bases = [None] + [(rng.randrange(i) if rng.random() < 0.5 else None) for i in range(1, nl)]
            delims = [(";" if rng.random() < 0.3 else None) for _ in range(nl)]
            gt = lambda ln: gen_text_delim(rng, lines[ln]) if delims[ln] else gen_text(rng, lines[ln])
            ops = []
            nregs, nlists, nfiles = 0, 0, 0
            reg_line = []
            list_line = []
            for _ in range(rng.randint(4, 10) if column else rng.randint(3, 25)):
                k = rng.random()
                if column and rng.random() < 0.6:
                    k = rng.choice([0.2, 0.4])      # mostly registers read and written in turn
                if nregs < 2 or (k < 0.12 and nregs < 4):
                    ln = rng.randrange(nl)
                    ops.append([0, ln])
                    reg_line.append(ln)
                    list_line.append(ln)
                    nregs += 1
                    nlists += 1
                elif k < 0.35:
                    r = rng.randrange(nregs)
                    ops.append([1, r, gt(reg_line[r])])
                    list_line.append(reg_line[r])
                    nlists += 1
                elif k < 0.5:
                    ops.append([2, rng.randrange(nregs)])
                elif k < 0.58:
                    ln = rng.randrange(nl)
                    ops.append([3, ln, gt(ln)])
                    list_line.append(ln)
                    nlists += 1
                elif k < 0.72:
                    l = rng.randrange(nlists)
                    fsl = lines[list_line[l]]
                    i = rng.randrange(len(fsl))
                    ops.append([4, l, i, gen_val(rng, fsl[i])])
                elif k < 0.8:
                    ln = rng.randrange(nl)
                    i = rng.randrange(len(lines[ln]))
                    ops.append([5, ln, i, gen_val(rng, lines[ln][i])])
                elif k < 0.88 or nfiles == 0:
                    if rng.random() < 0.7:
                        ops.append([6])
                    else:
                        ops.append([7, rng.randint(0, 3)])
                    nfiles += 1
                elif k < 0.93:
                    ops.append([8, rng.randrange(nfiles)])
                elif k < 0.96:
                    ops.append([9, rng.randrange(nfiles)])
                else:
                    ops.append([10, rng.randrange(nfiles), rng.randrange(nfiles)])
            if column:
                # the history ends with every register written once more, in a random order
                order = list(range(nregs))
                rng.shuffle(order)
                ops.extend([2, r] for r in order)
            yield {"kind": "graph", "lines": lines, "delims": delims, "bases": bases, "ops": ops}

    @staticmethod
    def gen_query(rng):
        """a register file of two unrelated classes, queried by type; the lists it hands out are mutated by the caller"""
        code = [0]

        def row():
            code[0] += 1
            return [rng.randrange(2) if rng.random() < 0.35 else 0, code[0], rng.randrange(3)]
        rows = [row() for _ in range(rng.randint(2, 6))]
        ops = []
        for _ in range(rng.randint(4, 14)):
            k = rng.random()
            c = 0 if rng.random() < 0.75 else 1
            if k < 0.35:
                ops.append(["q", c])
            elif k < 0.45:
                ops.append(["qf", c, rng.randrange(3)])
            elif k < 0.8:
                ops.append(["mut", rng.randrange(8), rng.choice(["reverse", "sort", "pop", "clear", "del_tail", "append_first"])])
            elif k < 0.9:
                ops.append(["add"] + row())
            else:
                ops.append(["rm", rng.randrange(8)])
        return {"kind": "query", "rows": rows, "ops": ops}

    @staticmethod
    def mutate_list(l, how):
        """what the caller does with a list he was given (the same on the implementation's lists and on the reference's)"""
        if how == "reverse":
            l.reverse()
        elif how == "sort":
            l.sort(key=lambda x: x if isinstance(x, int) else x.data[0])
        elif how == "pop":
            if l:
                l.pop()
        elif how == "clear":
            del l[:]
        elif how == "del_tail":
            del l[1:]
        elif l:
            l.append(l[0])

    def run_query(self, case):
        from cfinterface.components.register import Register
        from cfinterface.components.line import Line
        from cfinterface.components.integerfield import IntegerField
        from cfinterface.files.registerfile import RegisterFile
        ns = {"IDENTIFIER_DIGITS": 2, "__slots__": [], "code": property(lambda self: self.data[0]), "grp": property(lambda self: self.data[1])}
        classes = [type("Q%d" % i, (Register,), dict(ns, IDENTIFIER=idt, LINE=Line([IntegerField(4, 3), IntegerField(4, 8)])))
                   for i, idt in enumerate(["UN", "OT"])]
        FC = type("QFile", (RegisterFile,), {"REGISTERS": list(classes), "__slots__": []})
        codes = lambda q: [] if q is None else [r.data[0] for r in q] if isinstance(q, list) else [q.data[0]]
        trace = []
        try:
            with lib.budget(400000):
                f = FC.read("".join("%s %4d %4d\n" % (classes[c].IDENTIFIER, code, grp) for c, code, grp in case["rows"]))
                held = []
                for op in case["ops"]:
                    chain = [r for r in f.data if isinstance(r, tuple(classes))]
                    if op[0] == "q":
                        q = f.data.get_registers_of_type(classes[op[1]])
                        if isinstance(q, list):
                            held.append(q)
                    elif op[0] == "qf":
                        q = f.data.get_registers_of_type(classes[op[1]], grp=op[2])
                        if isinstance(q, list):
                            held.append(q)
                    elif op[0] == "mut":
                        if held:
                            self.mutate_list(held[op[1] % len(held)], op[2])
                    elif op[0] == "add":
                        f.data.append(classes[op[1]](data=[op[2], op[3]]))
                    elif chain:
                        f.data.remove(chain[op[1] % len(chain)])
                    trace.append({"chain": [r.data[0] for r in f.data if isinstance(r, tuple(classes))],
                                  "query": [codes(f.data.get_registers_of_type(c)) for c in classes],
                                  "of_type": [[r.data[0] for r in f.data.of_type(c)] for c in classes],
                                  "held": [[r.data[0] for r in h] for h in held],
                                  "held_distinct": len({id(h) for h in held}) == len(held)})
        except BaseException as e:
            trace.append({"raised": type(e).__name__ + ": " + str(e)[:80]})
        return trace

    def oracle_query(self, case, obs):
        """the container is a plain list of rows subjected to its own operations; a list handed out is a copy that only its holder changes"""
        bad = [s for s in obs if "raised" in s]
        if bad:
            return "an operation of a query history raised: %s" % bad[0]["raised"]
        chain = [list(r) for r in case["rows"]]
        held = []
        sel = lambda c, g=None: [r[1] for r in chain if r[0] == c and (g is None or r[2] == g)]
        if len(obs) != len(case["ops"]):
            return "a query history was not carried out completely"
        for i, (op, got) in enumerate(zip(case["ops"], obs)):
            if op[0] in ("q", "qf"):
                q = sel(op[1], op[2] if op[0] == "qf" else None)
                if len(q) > 1:
                    held.append(q)
            elif op[0] == "mut":
                if held:
                    self.mutate_list(held[op[1] % len(held)], op[2])
            elif op[0] == "add":
                chain.append(op[1:])
            elif chain:
                del chain[op[1] % len(chain)]
            exp = {"chain": [r[1] for r in chain], "query": [sel(0), sel(1)], "of_type": [sel(0), sel(1)], "held": held, "held_distinct": True}
            for k in ("chain", "query", "of_type", "held", "held_distinct"):
                if got[k] != exp[k]:
                    return ("query history: %s differs from plain lists subjected to the same operations (changed as a side effect): after op %d %r got %r, expected %r"
                            % (k, i, op, got[k], exp[k]))
        return None

    # ---------------------------------------------------------------- implementation
    def run_graph(self, case):
        from cfinterface.components.register import Register
        from cfinterface.components.defaultregister import DefaultRegister
        from cfinterface.components.line import Line
        from cfinterface.files.registerfile import RegisterFile
        delims = case.get("delims") or [None] * len(case["lines"])
        line_objs = [Line([fl.mk_field(fd) for fd in fs], delimiter=d) for fs, d in zip(case["lines"], delims)]
        reg_delim = []
        bases = case.get("bases") or [None] * len(line_objs)
        classes = []
        for i, lo in enumerate(line_objs):
            # a class derives from Register or from an earlier class of the case; every class declares its own LINE
            base = Register if bases[i] is None else classes[bases[i]]
            classes.append(type("W%d" % i, (base,), {"IDENTIFIER": "", "IDENTIFIER_DIGITS": 0, "LINE": lo, "__slots__": []}))
        FC = type("WFile", (RegisterFile,), {"REGISTERS": [], "__slots__": []})
        regs, results, files = [], [], []
        list_objs = []        # user-visible handles, in allocation order
        list_ids, elem_ids, cont_ids = {}, {}, {}
        keep = []             # keep every object alive so id() stays unique

        def ident(table, obj, start=0):
            if id(obj) not in table:
                table[id(obj)] = len(table) + start
                keep.append(obj)
            return table[id(obj)]

        trace = []
        import itertools
        for op in case["ops"]:
            out = None
            try:
              with lib.budget(60000):
                t = op[0]
                if t == 0:
                    r = classes[op[1]]()
                    regs.append(r)
                    reg_delim.append(delims[op[1]])
                    list_objs.append(r.data)
                elif t == 1:
                    # a delimited register line starts with the (empty) identifier token
                    regs[op[1]].read(io.StringIO((reg_delim[op[1]] + op[2]) if reg_delim[op[1]] else op[2]))
                    list_objs.append(regs[op[1]].data)
                elif t == 2:
                    b = io.StringIO()
                    regs[op[1]].write(b)
                    out = b.getvalue()
                    if reg_delim[op[1]] and out.startswith(reg_delim[op[1]]):
                        out = out[1:]
                elif t == 3:
                    res = line_objs[op[1]].read(op[2])
                    results.append(res)
                    list_objs.append(res)
                elif t == 4:
                    l = list_objs[op[1]]
                    if op[2] < len(l):
                        l[op[2]] = fl.py_value(op[3])
                    # a setter that changes nothing: lists handed out earlier must not be what the Line reloads its fields from
                    for lo in line_objs:
                        lo.storage = lo.storage
                elif t == 5:
                    line_objs[op[1]].fields[op[2]].value = fl.py_value(op[3])
                elif t == 6:
                    files.append(FC())
                elif t == 7:
                    files.append(FC.read("".join("free %d\n" % i for i in range(op[1]))))
                elif t == 8:
                    files[op[1]].data.append(DefaultRegister(data="appended\n"))
                elif t == 9:
                    d = files[op[1]].data
                    if len(list(itertools.islice(d, 3))) > 1:
                        d.remove(d.last)
                else:
                    d = files[op[1]].data
                    els = list(itertools.islice(d, 200))
                    if len(els) >= 3:
                        d.remove(els[1])
                        files[op[2]].data.append(els[1])
            except lib.BudgetExceeded:
                trace.append({"raised": "BudgetExceeded (an operation did not terminate)"})
                break
            except Exception as e:
                trace.append({"raised": type(e).__name__ + ": " + str(e)[:80]})
                break
            # identity bookkeeping in allocation order: lists first (registers then results), then containers/elements
            for r in regs:
                ident(list_ids, r.data)
            for res in results:
                ident(list_ids, res)
            fobs = []
            for f in files:
                ident(cont_ids, f.data, 1)
                els = []
                n = 0
                for e in f.data:
                    n += 1
                    if n > 60:
                        break
                    els.append(ident(elem_ids, e, 1))
                fobs.append(els)
            trace.append({"out": out,
                          "regs": [[fl.canon_value(x) for x in r.data] for r in regs],
                          "results": [[fl.canon_value(x) for x in res] for res in results],
                          "files": fobs,
                          "reg_lists": [list_ids[id(r.data)] for r in regs],
                          "result_lists": [list_ids[id(res)] for res in results],
                          "file_conts": [cont_ids[id(f.data)] for f in files],
                          "line_fields": [[fl.canon_value(f.value) for f in lo.fields] for lo in line_objs]})
        return trace

    def impl(self, case):
        if case["kind"] == "fresh":
            F = families.get(case["fam"])
            FC = type("WF" + case["fam"], (F["File"],), {F["list_attr"]: [], "__slots__": []})
            obs = {}
            try:
                a, b = FC(), FC()
                obs["distinct_containers"] = a.data is not b.data
                obs["len"] = len(a.data)
                obs["eq_read_empty"] = bool(a == FC.read("")) and bool(FC.read("") == a)
                buf = io.StringIO()
                a.write(buf)
                obs["written"] = buf.getvalue()
                a.data.append(F["Default"](data="x\n"))
                obs["len_other_after_append"] = len(b.data)
                obs["len_new_after_append"] = len(FC().data)
            except Exception as e:
                obs["raised"] = type(e).__name__ + ": " + str(e)[:80]
            return obs
        if case["kind"] == "emptied":
            return self.run_emptied(case)
        if case["kind"] == "query":
            return self.run_query(case)
        return self.run_graph(case)

    @staticmethod
    def run_emptied(case):
        import itertools
        F = families.get(case["fam"])
        FC = type("WE" + case["fam"], (F["File"],), {F["list_attr"]: [], "__slots__": []})

        def snapshot(f):
            els = list(itertools.islice(iter(f.data), 50))
            buf = io.StringIO()
            f.write(buf)
            return [len(els), [repr(getattr(e, "data", None))[:30] for e in els], buf.getvalue()]

        def empty(f):
            d = f.data
            for _ in range(10):
                if d.first is None:
                    break
                d.remove(d.first)
        obs = {}
        try:
            with lib.budget(200000):
                a = FC.read("x\ny\n") if case["variant"] == "read_then_empty" else FC()
                b = FC()
                empty(a)
                empty(b)
                obs["before"] = snapshot(b)
                try:
                    el = F["Default"](data="z\n")
                    if case["variant"] == "preppend":
                        a.data.preppend(el)
                    else:
                        a.data.append(el)
                    obs["use_of_a"] = "ok"
                except Exception as e:
                    obs["use_of_a"] = type(e).__name__
                obs["after"] = snapshot(b)
                c = FC()
                empty(c)
                obs["third"] = snapshot(c)
        except BaseException as e:
            obs["raised"] = type(e).__name__ + ": " + str(e)[:80]
        return obs

    # ---------------------------------------------------------------- model
    def comparable(self, case):
        return case["kind"] not in ("emptied", "query")     # query histories likewise: the model has no queries by type; judged by the oracle only: the model has no emptied containers (C07's excluded call)

    def model_arg(self, case, fresh=True):
        if case["kind"] in ("fresh", "emptied", "query"):
            return [fresh, [], [[6], [6], [8, 0], [6]]]
        delims = case.get("delims") or [None] * len(case["lines"])
        lines = [[[[fl.field_sx(fd), []] for fd in fs], [], ([d] if d else []), False] for fs, d in zip(case["lines"], delims)]
        ops = []
        for op in case["ops"]:
            if op[0] in (4, 5):
                ops.append([op[0], op[1], op[2], fl.value_sx(op[3])])
            else:
                ops.append(op)
        return [fresh, lines, ops]

    def model_obs(self, case, res):
        if case["kind"] in ("emptied", "query"):
            return {}
        if case["kind"] == "fresh":
            last = res[-1][1]
            files = last[2]
            return {"distinct_containers": last[5][0] != last[5][1], "len": 1, "eq_read_empty": True, "written": "",
                    "len_other_after_append": len(files[1]), "len_new_after_append": len(files[2])}
        out = []
        for step in res:
            o, w = step
            regs, results, files, rl, resl, fc, lf = w
            # the model's heaps start with the as-found shared container 0 / element 0; renumber files' containers and
            # elements by first appearance like the harness does (ids from 1)
            out.append({"out": None if o == [-1] else fl.ostr(o),
                        "regs": [[fl.canon_model_value(v) for v in r] for r in regs],
                        "results": [[fl.canon_model_value(v) for v in r] for r in results],
                        "files": files, "reg_lists": rl, "result_lists": resl, "file_conts": fc,
                        "line_fields": [[fl.canon_model_value(v) for v in l] for l in lf]})
        return out

    @staticmethod
    def renumber(trace):
        """identity partitions up to renaming, numbering by first appearance over the whole trace"""
        lm, em, cm = {}, {}, {}
        out = []
        for s in trace:
            if "raised" in s:
                out.append(s)
                continue
            t = dict(s)
            t["reg_lists"] = [lm.setdefault(x, len(lm)) for x in s["reg_lists"]]
            t["result_lists"] = [lm.setdefault(x, len(lm)) for x in s["result_lists"]]
            t["file_conts"] = [cm.setdefault(x, len(cm)) for x in s["file_conts"]]
            t["files"] = [[em.setdefault(x, len(em)) for x in f] for f in s["files"]]
            out.append(t)
        return out

    def compare(self, case, iobs, mobs):
        if case["kind"] == "fresh":
            return None if iobs == mobs else "impl=%r model=%r" % (iobs, mobs)
        a, b = self.renumber(iobs), self.renumber(mobs)
        for i, (x, y) in enumerate(zip(a, b)):
            if x != y:
                return "after op %d %r: impl=%r model=%r" % (i, case["ops"][i], x, y)
        if len(a) != len(b):
            return "trace lengths differ"
        return None

    # ---------------------------------------------------------------- oracle: isolated replay of each object's own operations
    def oracle(self, case, obs):
        if case["kind"] == "query":
            return self.oracle_query(case, obs)
        if case["kind"] == "emptied":
            if "raised" in obs:
                return "emptying two files and using one of them raised: %s" % obs["raised"]
            if obs["before"] != obs["after"]:
                return "an emptied container changed because another emptied container was used (shared placeholder)"
            if obs["third"][0] != obs["before"][0] or obs["third"][2] != obs["before"][2]:
                return "a container emptied later differs from one emptied earlier (state accumulated across containers)"
            return None
        if case["kind"] == "fresh":
            if "raised" in obs:
                return "a file constructed without arguments cannot be used: %s" % obs["raised"]
            if not obs["distinct_containers"] or obs["len_other_after_append"] != 1 or obs["len_new_after_append"] != 1:
                return "files constructed without arguments share one container"
            if obs["len"] != 1 or not obs["eq_read_empty"]:
                return "a file constructed without arguments differs from the result of reading empty content"
            if obs["written"] != "":
                return "writing a file constructed without arguments does not produce empty output"
            return None
        if any("raised" in s for s in obs):
            return "an operation raised: %s" % [s for s in obs if "raised" in s][0]["raised"]
        ops = case["ops"]
        # list allocation bookkeeping: which register/result owns which allocated list at each time
        owner = []      # per allocated list: ("reg", r) or ("res", k)
        cur = {}        # register -> current list index
        nreg = nres = nfile = 0
        per_obj_ops = {}
        for i, op in enumerate(ops):
            t = op[0]
            if t == 0:
                owner.append(("reg", nreg)); cur[nreg] = len(owner) - 1
                per_obj_ops[("reg", nreg)] = [i]; nreg += 1
            elif t == 1:
                owner.append(("reg", op[1])); cur[op[1]] = len(owner) - 1
                per_obj_ops[("reg", op[1])].append(i)
            elif t == 2:
                per_obj_ops[("reg", op[1])].append(i)
            elif t == 3:
                owner.append(("res", nres)); per_obj_ops[("res", nres)] = [i]; nres += 1
            elif t == 4:
                o = owner[op[1]]
                if o[0] == "res" or cur.get(o[1]) == op[1]:
                    per_obj_ops[o].append(i)
            elif t in (6, 7):
                nfile += 1
        final = obs[-1]
        for key, idxs in per_obj_ops.items():
            sub, remap = self.project(case, key, idxs, owner)
            if sub is None:
                continue
            iso = self.run_graph(sub)
            if any("raised" in s for s in iso):
                continue
            last = iso[-1]
            if key[0] == "reg":
                if final["regs"][key[1]] != last["regs"][0]:
                    return "a register's data differ from an isolated run of its own operations (changed as a side effect)"
                outs = [obs[i]["out"] for i in idxs if ops[i][0] == 2]
                iso_outs = [s["out"] for s, o in zip(iso, sub["ops"]) if o[0] == 2]
                if outs != iso_outs:
                    return "a register's written text differs from an isolated run of its own operations"
            elif key[0] == "res":
                if final["results"][key[1]] != last["results"][0]:
                    return "a list returned by Line.read changed as a side effect of other operations"
        # files: reference simulation with plain Python lists of element tokens
        ref = []
        tok = [0]

        def fresh():
            tok[0] += 1
            return tok[0]
        for i, op in enumerate(ops):
            t = op[0]
            if t == 6:
                ref.append([fresh()])
            elif t == 7:
                ref.append([fresh() for _ in range(op[1] + 1)])
            elif t == 8:
                ref[op[1]].append(fresh())
            elif t == 9:
                if len(ref[op[1]]) > 1:
                    ref[op[1]].pop()
            elif t == 10:
                if len(ref[op[1]]) >= 3:
                    e = ref[op[1]].pop(1)
                    ref[op[2]].append(e)
            got = obs[i]["files"]
            if [len(x) for x in got] != [len(x) for x in ref]:
                return "a file's container differs from a plain list subjected to its own operations (changed as a side effect)"
        m = {}
        for x, y in zip(sum(final["files"], []), sum(ref, [])):
            if m.setdefault(x, y) != y:
                return "files hold the wrong elements"
        if len(set(m.values())) != len(m):
            return "files hold the wrong elements"
        # containers of distinct files are distinct objects
        if len(set(final["file_conts"])) != len(final["file_conts"]):
            return "two files share one container"
        return None

    @staticmethod
    def project(case, key, idxs, owner):
        ops = case["ops"]
        sub = []
        if key[0] == "reg":
            lists_of_r = [j for j, o in enumerate(owner) if o == key]
            for i in idxs:
                op = ops[i]
                if op[0] == 0:
                    sub.append([0, op[1]])
                elif op[0] in (1, 2):
                    sub.append([op[0], 0] + op[2:])
                elif op[0] == 4:
                    sub.append([4, lists_of_r.index(op[1]), op[2], op[3]])
        elif key[0] == "res":
            for i in idxs:
                op = ops[i]
                if op[0] == 3:
                    sub.append(op)
                elif op[0] == 4:
                    sub.append([4, 0, op[2], op[3]])
        else:
            for i in idxs:
                op = ops[i]
                sub.append(op if op[0] in (6, 7) else [op[0], 0])
        if not sub:
            return None, None
        return {"kind": "graph", "lines": case["lines"], "delims": case.get("delims"), "bases": case.get("bases"), "ops": sub}, None

    def nontrivial(self, case, obs):
        if case["kind"] in ("fresh", "emptied"):
            return True
        if case["kind"] == "query":
            # a list was handed out and mutated by its holder
            qs = [i for i, op in enumerate(case["ops"]) if op[0] in ("q", "qf")]
            return bool(qs) and any(op[0] == "mut" for op in case["ops"][qs[0]:]) and any(s.get("held") for s in obs)
        lines = [op[1] for op in case["ops"] if op[0] == 0]
        return (len(lines) != len(set(lines)) or self.related_used(case)) and any(op[0] in (1, 4, 5) for op in case["ops"])

    @staticmethod
    def related_used(case):
        """registers of two classes, one derived (directly or not) from the other, were both read or written"""
        bases = case.get("bases") or []
        cls_of = [op[1] for op in case["ops"] if op[0] == 0]
        used = {cls_of[op[1]] for op in case["ops"] if op[0] in (1, 2)}
        for c in used:
            a = bases[c] if c < len(bases) else None
            while a is not None:
                if a in used:
                    return True
                a = bases[a]
        return False

    def classify(self, case):
        if case["kind"] in ("fresh", "emptied"):
            return {case["kind"] + "_" + case["fam"]: 1}
        if case["kind"] == "query":
            d = {"query_history": 1, "query_rows_%d" % len(case["rows"]): 1}
            for op in case["ops"]:
                k = "query_op_" + op[0] + ("_" + op[2] if op[0] == "mut" else "")
                d[k] = d.get(k, 0) + 1
            return d
        d = {"ops_%02d" % len(case["ops"]): 1, "lines_%d" % len(case["lines"]): 1}
        if any(b is not None for b in case.get("bases") or []):
            d["derived_classes_%d" % sum(b is not None for b in case["bases"])] = 1
            if self.related_used(case):
                d["related_classes_both_used"] = 1
        for op in case["ops"]:
            d["op_%d" % op[0]] = d.get("op_%d" % op[0], 0) + 1
        kinds = [fd["k"] for fs in case["lines"] for fd in fs]
        if "float" in kinds:
            d["with_float_fields"] = 1
            if set(kinds) == {"float"}:
                d["float_fields_only"] = 1
            if self.both_zeros_written(case):
                d["both_zeros_through_one_float_field"] = 1
        return d

    @staticmethod
    def both_zeros_written(case):
        """a zero of each sign is among the texts read / values assigned for one real-valued field (a count of what the generator
        produced, for the evidence's input distribution; it plays no part in the verdict)"""
        import math
        delims = case.get("delims") or [None] * len(case["lines"])
        seen = {}
        for op in case["ops"]:
            if op[0] == 5:
                ln, vals = op[1], {op[2]: op[3]}
            elif op[0] in (1, 3):
                ln = CHECK.line_of(case, op)
                toks = op[2].rstrip("\n").split(delims[ln]) if delims[ln] else None
                vals = {}
                for i, fd in enumerate(case["lines"][ln]):
                    t = (toks[i] if i < len(toks) else "") if delims[ln] else op[2][fd["start"]:fd["start"] + fd["size"]]
                    try:
                        vals[i] = ["float", fl.f2b(float(t))]
                    except ValueError:
                        pass
            else:
                continue
            for i, v in vals.items():
                if case["lines"][ln][i]["k"] == "float" and v is not None and v[0] == "float" and fl.b2f(v[1]) == 0:
                    seen.setdefault((ln, i), set()).add(math.copysign(1.0, fl.b2f(v[1])))
        return any(len(v) == 2 for v in seen.values())

    @staticmethod
    def line_of(case, op):
        if op[0] == 3:
            return op[1]
        return [o[1] for o in case["ops"] if o[0] == 0][op[1]]

    def signature(self, case, why):
        return why.split(":")[0]

    def shrink(self, case):
        if case["kind"] == "query":
            # every index of a query history is taken modulo what exists, so any operation or row can be dropped
            for i in range(len(case["ops"]) - 1, -1, -1):
                yield dict(case, ops=case["ops"][:i] + case["ops"][i + 1:])
            for i in range(len(case["rows"]) - 1, -1, -1):
                yield dict(case, rows=case["rows"][:i] + case["rows"][i + 1:])
            return
        if case["kind"] != "graph":
            return
        ops = case["ops"]
        for i in range(len(ops) - 1, 1, -1):
            if ops[i][0] in (2, 5, 8, 9, 10):      # operations that allocate nothing can be dropped without renumbering
                c = dict(case)
                c["ops"] = ops[:i] + ops[i + 1:]
                yield c

    def neighbours(self, case, rng):
        return []
