"""C06 — read-then-write is a projection; unrecognised lines survive verbatim."""
import io

from ..framework import Check
from .c13 import nl_lines
from .. import fieldlib as fl, reglib, lib
from .c04 import gen_line
from .c05 import gen_data, build_file


def perturb(rng, text, regdefs):
    """perturbed but still plausible line: extra precision, odd spacing, signs, right-aligned literals, trailing garbage"""
    k = rng.random()
    if k < 0.3 or not text:
        return text
    if k < 0.45:
        return text + rng.choice(["   ", " # comment", "xyz"])
    i = rng.randrange(len(text))
    if k < 0.6 and text[i] == " ":
        return text[:i] + "+" + text[i + 1:]
    if k < 0.8 and text[i].isdigit():
        return text[:i] + rng.choice("0123456789") + text[i + 1:]
    if k < 0.9:
        return text[:i] + " " + text[i + 1:]
    return text[:i] + rng.choice("0123456789") + text[i:]


class CHECK(Check):
    pid = "C06"
    entry = "REGFILE"
    theorems = ["C06_projection", "C06_default_preserved", "C06_written_fixed"]
    rule = ("register file definitions with unambiguous identifiers (equal or different windows) x text contents: (a) contents produced by "
            "a write of generated data (must be reproduced exactly); (b) 0-12 lines from the C04 grammar with perturbations "
            "(extra precision, odd spacing, '+' signs, right-aligned literals, trailing garbage, comments, blank lines, "
            "missing final newline). Precondition 'parsed values fit their fields' is evaluated per case by the model "
            "(others counted and skipped). A ninth of the cycles go through files on disk with the file class's declared encoding (utf-8 / latin-1 / cp1252). Observed: y = write(read(x)) and write(read(y)). non-trivial = x contains a "
            "typed line that is not already canonical (y != x) or a default line between typed lines; distinct = hash"
            " Later additions: cycles through disk with utf-8/latin-1/cp1252, contents beginning with U+FEFF, class hierarchies.")

    def gen(self, tier, rng):
        n = 2500 if tier == "quick" else 60000
        made = 0
        while made < n:
            regdefs = reglib.gen_regdefs(rng, same_window=rng.random() < 0.5)
            if not reglib.unambiguous(regdefs):
                continue
            made += 1
            if rng.random() < 0.3:
                yield {"regdefs": regdefs, "kind": "written", "elems": gen_data(rng, regdefs, allnone=0.0)}
            else:
                lines = [perturb(rng, gen_line(rng, regdefs), regdefs) for _ in range(rng.randint(0, 12))]
                lines = [l for l in lines if "\n" not in l]
                content = "\n".join(lines) + (rng.choice(["\n", "\n", ""]) if lines else "")
                if rng.random() < 0.06:
                    content = "\ufeff" + content      # a byte-order mark at the start of in-memory content is a character like any other
                yield {"regdefs": regdefs, "kind": "content", "content": content}

    def content_of(self, case, regs, F):
        if case["kind"] == "content":
            return case["content"]
        buf = io.StringIO()
        build_file(F, regs, case["elems"]).write(buf)
        return buf.getvalue()

    def impl(self, case):
        import os, hashlib
        regs = reglib.mk_register_classes(case["regdefs"])
        h = int(hashlib.sha1(repr(case).encode()).hexdigest(), 16)
        enc = ["utf-8", "latin-1", "cp1252"][h % 3]
        F = reglib.mk_file_class(regs, encoding=enc)
        try:
            with lib.budget(400000):
                x = self.content_of(case, regs, F)
                via_disk = (h // 3) % 3 == 0 and x and "\r" not in x and "\x0c" not in x
                if via_disk:
                    try:
                        x.encode(enc)
                    except UnicodeEncodeError:
                        via_disk = False
                if via_disk:
                    # the same cycle through files on disk, with the file class's declared encoding
                    d = os.path.join(lib.SCRATCH, "tmp_c06")
                    os.makedirs(d, exist_ok=True)
                    p0, p1, p2 = (os.path.join(d, n) for n in ("x.txt", "y.txt", "y2.txt"))
                    with open(p0, "w", encoding=enc, newline="") as fh:
                        fh.write(x)
                    F.read(p0).write(p1)
                    F.read(p1).write(p2)
                    with open(p1, "rb") as fh:
                        y = fh.read().decode(enc)
                    with open(p2, "rb") as fh:
                        y2 = fh.read().decode(enc)
                else:
                    b1 = io.StringIO()
                    F.read(x).write(b1)
                    y = b1.getvalue()
                    b2 = io.StringIO()
                    F.read(y).write(b2)
                    y2 = b2.getvalue()
        except lib.BudgetExceeded:
            return {"raised": "BudgetExceeded"}
        except OverflowError:
            return {"raised": "OverflowError"}
        except Exception as e:
            return {"raised": type(e).__name__ + ": " + str(e)[:100]}
        return {"x": x, "y": y, "y2": y2}

    def model_arg(self, case):
        rs = [reglib.regdef_sx(rd) for rd in case["regdefs"]]
        if case["kind"] == "content":
            return [0, False, 1, rs, 0, case["content"]]
        # x is what the model writes for the data; then it is treated as content (two stages in one call is not
        # available, so the model's own W D is recomputed by the harness through mode 1 and fed back in mode 0)
        return [0, False, 1, rs, 2, reglib.elems_sx(case["elems"])]

    def model_obs(self, case, res):
        elems, pos, y, y2, fits = res[:5]
        x = lib.to_str(res[5]) if len(res) > 5 else case.get("content")
        return {"x": x, "y": fl.ostr(y), "y2": fl.ostr(y2), "fits": bool(fits) and y != [] and y2 != []}

    def in_domain(self, case, mobs):
        return mobs["fits"]

    def compare(self, case, iobs, mobs):
        if "raised" in iobs:
            return "implementation raised %s" % iobs["raised"]
        for k in ("x", "y", "y2"):
            if iobs[k] != mobs[k]:
                return "%s: impl=%r model=%r" % (k, iobs[k], mobs[k])
        return None

    def oracle(self, case, obs):
        if "raised" in obs:
            return "read/write raised: %s" % obs["raised"]
        x, y, y2 = obs["x"], obs["y"], obs["y2"]
        if y2 != y:
            return "y = write(read(x)) is not a fixed point: write(read(y)) differs"
        dx = [l for l in nl_lines(x) if reglib.ref_dispatch(case["regdefs"], l) < 0]
        dy = [l for l in nl_lines(y) if reglib.ref_dispatch(case["regdefs"], l) < 0]
        if dx != dy:
            return "lines matching no declared register are not preserved verbatim in order"
        if case["kind"] == "written" and y != x:
            return "content produced by a write is not reproduced exactly"
        return None

    def nontrivial(self, case, obs):
        return isinstance(obs, dict) and "y" in obs and (obs["y"] != obs["x"] or case["kind"] == "written") and len(obs["x"]) > 0

    def classify(self, case):
        return {"kind_" + case["kind"]: 1, "types_%d" % len(case["regdefs"]): 1}

    def signature(self, case, why):
        return why.split(":")[0]

    def shrink(self, case):
        if case["kind"] == "content":
            lines = nl_lines(case["content"])
            if len(lines) > 1:
                for i in range(len(lines)):
                    c = dict(case)
                    c["content"] = "".join(lines[:i] + lines[i + 1:])
                    yield c
        elif len(case["elems"]) > 1:
            for i in range(len(case["elems"])):
                c = dict(case)
                c["elems"] = case["elems"][:i] + case["elems"][i + 1:]
                yield c

    def neighbours(self, case, rng):
        for _ in range(15):
            lines = [perturb(rng, gen_line(rng, case["regdefs"]), case["regdefs"]) for _ in range(rng.randint(1, 5))]
            yield {"regdefs": case["regdefs"], "kind": "content", "content": "\n".join(lines) + "\n"}
