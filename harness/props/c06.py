"""C06 — read-then-write is a projection; unrecognised lines survive verbatim."""
import io

from ..framework import Check
from .c13 import nl_lines
from .. import fieldlib as fl, reglib, lib
from .c04 import gen_line
from .c05 import gen_data, build_file


def perturb(rng, text, regdefs):
    """perturbed but still plausible line: extra precision, odd spacing, signs, right-aligned literals, trailing garbage"""
    k = rng.random()
    if k < 0.3 or not text:
        return text
    if k < 0.45:
        return text + rng.choice(["   ", " # comment", "xyz"])
    i = rng.randrange(len(text))
    if k < 0.6 and text[i] == " ":
        return text[:i] + "+" + text[i + 1:]
    if k < 0.8 and text[i].isdigit():
        return text[:i] + rng.choice("0123456789") + text[i + 1:]
    if k < 0.9:
        return text[:i] + " " + text[i + 1:]
    return text[:i] + rng.choice("0123456789") + text[i:]


DELIMS = [";", ",", "|", "\t", "\t", " ", " "]


def delim_defs_ok(regdefs):
    """premise 'unambiguous identifiers' + tokenisation premise for DELIMITED register types, on the definitions alone: a line
    written by type r begins with r's (trimmed) identifier followed by r's delimiter, so no EARLIER type's window may reach
    beyond that text or find its identifier in it; no field's own rendering can contain the delimiter (decimal separator,
    date format literals) and the identifier is a token (no blanks around it, no delimiter in it)."""
    for j, r in enumerate(regdefs):
        d, ident = r["delim"], r["ident"]
        if not ident or ident != ident.strip() or d in ident:
            return False
        for fd in r["fields"]:
            if fd["k"] == "float" and fd["sep"] == d:
                return False
            if fd["k"] == "date" and any(d in f for f in fd["formats"]):
                return False
        head = ident + d
        for e in regdefs[:j]:
            if e["digits"] > len(head) or e["ident"] in head[: e["digits"]]:
                return False
    return True


def gen_delim_regdefs(rng):
    """1-3 delimited register types; each type has its own delimiter, blank delimiters (tab, space) as often as visible ones"""
    regdefs = reglib.gen_regdefs(rng, nmax=3, delim=True)
    for rd in regdefs:
        rd["delim"] = rng.choice(DELIMS)
        rd["digits"] = len(rd["ident"]) + rng.choice([0, 0, 0, 1, 2])
    return regdefs


def gen_delim_line(rng, regdefs):
    """one line of a delimited type, token by token (each token rendered through a one-field positional Line, so the text
    does not depend on the delimited writer): all tokens, FEWER tokens than fields, the last tokens empty, blanks around
    the tokens, one token too many; a third of the values are missing (empty tokens anywhere, also at the end)"""
    from cfinterface.components.line import Line
    r = rng.choice(regdefs)
    toks = [r["ident"]]
    for fd in r["fields"]:
        f1 = dict(fd)
        f1["start"] = 0
        try:
            toks.append(Line([fl.mk_field(f1)]).write([fl.py_value(fl.gen_value(rng, fd, missing=0.3))])[:-1].strip())
        except (OverflowError, TypeError, ValueError):
            toks.append("")
    m = rng.random()
    if m < 0.22 and len(toks) > 1:
        toks = toks[: rng.randint(1, len(toks) - 1)]
    elif m < 0.4:
        k = rng.randint(1, len(toks) - 1) if len(toks) > 1 else 0
        toks = toks[: len(toks) - k] + [""] * k
    elif m < 0.5:
        toks = [rng.choice(["", " ", "  "]) + t + rng.choice(["", " ", "  "]) for t in toks]
    elif m < 0.56:
        toks.append(rng.choice(["7", "x", ""]))
    return r["delim"].join(toks)


def tokens_ok(case):
    """tokenisation premise of a delimited write, on the data: no literal value contains its type's delimiter"""
    for i, d in case["elems"]:
        if i >= 0:
            dl = case["regdefs"][i].get("delim")
            if dl is not None and any(v is not None and v[0] == "str" and dl in v[1] for v in d):
                return False
    return True


def active_unambiguous(regdefs):
    """premise 'unambiguous identifiers' for a list in which some types declare an identifier window SHORTER than their
    identifier (IDENTIFIER_DIGITS left at its default 0, or a miscounted width): the literal identifier cannot be found in
    such a window, so the type recognises no line and never writes one; the premise concerns the remaining types, in order"""
    return reglib.unambiguous([rd for rd in regdefs if rd["digits"] >= len(rd["ident"])])


def gen_short_window_regdefs(rng):
    """a register list laid out as usual (identifier columns, then the fields) in which 1..all types then declare a window
    shorter than the identifier: 0 (the declared default of Register.IDENTIFIER_DIGITS) three times out of four, otherwise
    1..len-1. Returns (layout, regdefs): the layout is what the author of the lines had in mind (lines are generated from it),
    regdefs is what the classes declare"""
    import copy
    layout = reglib.gen_regdefs(rng, same_window=rng.random() < 0.5)
    regdefs = copy.deepcopy(layout)
    k = rng.randint(1, len(regdefs))
    for i in rng.sample(range(len(regdefs)), k):
        n = len(regdefs[i]["ident"])
        regdefs[i]["digits"] = 0 if n == 1 or rng.random() < 0.75 else rng.randint(1, n - 1)
    return layout, regdefs


class CHECK(Check):
    pid = "C06"
    entry = "REGFILE"
    theorems = ["C06_projection", "C06_default_preserved", "C06_written_fixed"]
    rule = ("register file definitions with unambiguous identifiers (equal or different windows) x text contents: (a) contents produced by "
            "a write of generated data (must be reproduced exactly); (b) 0-12 lines from the C04 grammar with perturbations "
            "(extra precision, odd spacing, '+' signs, right-aligned literals, trailing garbage, comments, blank lines, "
            "missing final newline). Precondition 'parsed values fit their fields' is evaluated per case by the model "
            "(others counted and skipped). A ninth of the cycles go through files on disk with the file class's declared encoding (utf-8 / latin-1 / cp1252). Observed: y = write(read(x)) and write(read(y)). non-trivial = x contains a "
            "typed line that is not already canonical (y != x) or a default line between typed lines; distinct = hash"
            " Later additions: cycles through disk with utf-8/latin-1/cp1252, contents beginning with U+FEFF, class hierarchies."
            " Round 12: DELIMITED register types (1-3 per list, each with its own delimiter from ; , | tab space; unambiguity and "
            "tokenisation premises decided on the definitions, and on the data for written contents): contents of 1-12 lines in "
            "which several records of one type follow each other with all tokens, fewer tokens than fields, empty last tokens, "
            "missing values anywhere, blanks around tokens, an extra token, plus the grammar/perturbation lines; and contents "
            "written from generated data."
            " Round 14: register lists in which 1..all types declare an identifier window SHORTER than their identifier (0, the "
            "declared default of IDENTIFIER_DIGITS, three times out of four; otherwise 1..len-1) while lines and fields are laid "
            "out as if the window covered the identifier: such a type recognises no line, so every line of its layout "
            "(canonical, perturbed, with trailing text) is an unrecognised line that must survive verbatim between the lines "
            "of the other types; unambiguity is required of the types that can match.")

    def gen(self, tier, rng):
        n = 2500 if tier == "quick" else 60000
        made = 0
        while made < n:
            regdefs = reglib.gen_regdefs(rng, same_window=rng.random() < 0.5)
            if not reglib.unambiguous(regdefs):
                continue
            made += 1
            if rng.random() < 0.3:
                yield {"regdefs": regdefs, "kind": "written", "elems": gen_data(rng, regdefs, allnone=0.0)}
            else:
                lines = [perturb(rng, gen_line(rng, regdefs), regdefs) for _ in range(rng.randint(0, 12))]
                lines = [l for l in lines if "\n" not in l]
                content = "\n".join(lines) + (rng.choice(["\n", "\n", ""]) if lines else "")
                if rng.random() < 0.06:
                    content = "\ufeff" + content      # a byte-order mark at the start of in-memory content is a character like any other
                yield {"regdefs": regdefs, "kind": "content", "content": content}
        # delimited register types: records of one type after each other, short lines, empty last tokens, blank delimiters
        n = 400 if tier == "quick" else 10000
        made = 0
        while made < n:
            regdefs = gen_delim_regdefs(rng)
            if not delim_defs_ok(regdefs):
                continue
            made += 1
            if rng.random() < 0.25:
                yield {"regdefs": regdefs, "kind": "written", "elems": gen_data(rng, regdefs, allnone=0.0), "delimited": True}
            else:
                lines = []
                for _ in range(rng.randint(1, 12)):
                    l = gen_delim_line(rng, regdefs) if rng.random() < 0.75 else gen_line(rng, regdefs)
                    lines.append(perturb(rng, l, regdefs) if rng.random() < 0.4 else l)
                lines = [l for l in lines if "\n" not in l]
                content = "\n".join(lines) + (rng.choice(["\n", "\n", ""]) if lines else "")
                yield {"regdefs": regdefs, "kind": "content", "content": content, "delimited": True}
        # types whose declared window is shorter than their identifier (IDENTIFIER_DIGITS left at 0, or miscounted)
        n = 300 if tier == "quick" else 8000
        made = 0
        while made < n:
            layout, regdefs = gen_short_window_regdefs(rng)
            if not active_unambiguous(regdefs):
                continue
            made += 1
            lines = [perturb(rng, gen_line(rng, layout), layout) for _ in range(rng.randint(1, 12))]
            lines = [l for l in lines if "\n" not in l]
            content = "\n".join(lines) + (rng.choice(["\n", "\n", ""]) if lines else "")
            yield {"regdefs": regdefs, "kind": "content", "content": content, "short_window": True}

    def content_of(self, case, regs, F):
        if case["kind"] == "content":
            return case["content"]
        buf = io.StringIO()
        build_file(F, regs, case["elems"]).write(buf)
        return buf.getvalue()

    def impl(self, case):
        import os, hashlib
        regs = reglib.mk_register_classes(case["regdefs"])
        h = int(hashlib.sha1(repr(case).encode()).hexdigest(), 16)
        enc = ["utf-8", "latin-1", "cp1252"][h % 3]
        F = reglib.mk_file_class(regs, encoding=enc)
        try:
            with lib.budget(400000):
                x = self.content_of(case, regs, F)
                via_disk = (h // 3) % 3 == 0 and x and "\r" not in x and "\x0c" not in x
                if via_disk:
                    try:
                        x.encode(enc)
                    except UnicodeEncodeError:
                        via_disk = False
                if via_disk:
                    # the same cycle through files on disk, with the file class's declared encoding
                    d = os.path.join(lib.SCRATCH, "tmp_c06")
                    os.makedirs(d, exist_ok=True)
                    p0, p1, p2 = (os.path.join(d, n) for n in ("x.txt", "y.txt", "y2.txt"))
                    with open(p0, "w", encoding=enc, newline="") as fh:
                        fh.write(x)
                    F.read(p0).write(p1)
                    F.read(p1).write(p2)
                    with open(p1, "rb") as fh:
                        y = fh.read().decode(enc)
                    with open(p2, "rb") as fh:
                        y2 = fh.read().decode(enc)
                else:
                    b1 = io.StringIO()
                    F.read(x).write(b1)
                    y = b1.getvalue()
                    b2 = io.StringIO()
                    F.read(y).write(b2)
                    y2 = b2.getvalue()
        except lib.BudgetExceeded:
            return {"raised": "BudgetExceeded"}
        except OverflowError:
            return {"raised": "OverflowError"}
        except Exception as e:
            return {"raised": type(e).__name__ + ": " + str(e)[:100]}
        return {"x": x, "y": y, "y2": y2}

    def model_arg(self, case):
        rs = [reglib.regdef_sx(rd) for rd in case["regdefs"]]
        if case["kind"] == "content":
            return [0, False, 1, rs, 0, case["content"]]
        # x is what the model writes for the data; then it is treated as content (two stages in one call is not
        # available, so the model's own W D is recomputed by the harness through mode 1 and fed back in mode 0)
        return [0, False, 1, rs, 2, reglib.elems_sx(case["elems"])]

    def model_obs(self, case, res):
        elems, pos, y, y2, fits = res[:5]
        x = lib.to_str(res[5]) if len(res) > 5 else case.get("content")
        return {"x": x, "y": fl.ostr(y), "y2": fl.ostr(y2), "fits": bool(fits) and y != [] and y2 != []}

    def in_domain(self, case, mobs):
        if case.get("delimited") and case["kind"] == "written" and not tokens_ok(case):
            return False
        return mobs["fits"]

    def compare(self, case, iobs, mobs):
        if "raised" in iobs:
            return "implementation raised %s" % iobs["raised"]
        for k in ("x", "y", "y2"):
            if iobs[k] != mobs[k]:
                return "%s: impl=%r model=%r" % (k, iobs[k], mobs[k])
        return None

    def oracle(self, case, obs):
        if "raised" in obs:
            return "read/write raised: %s" % obs["raised"]
        x, y, y2 = obs["x"], obs["y"], obs["y2"]
        if y2 != y:
            return "y = write(read(x)) is not a fixed point: write(read(y)) differs"
        dx = [l for l in nl_lines(x) if reglib.ref_dispatch(case["regdefs"], l) < 0]
        dy = [l for l in nl_lines(y) if reglib.ref_dispatch(case["regdefs"], l) < 0]
        if dx != dy:
            return "lines matching no declared register are not preserved verbatim in order"
        if case["kind"] == "written" and y != x:
            return "content produced by a write is not reproduced exactly"
        return None

    def nontrivial(self, case, obs):
        return isinstance(obs, dict) and "y" in obs and (obs["y"] != obs["x"] or case["kind"] == "written") and len(obs["x"]) > 0

    def classify(self, case):
        out = {"kind_" + case["kind"]: 1, "types_%d" % len(case["regdefs"]): 1}
        if case.get("delimited"):
            out["delimited_" + case["kind"]] = 1
            out["delimited_with_blank_delimiter"] = int(any(rd["delim"] in "\t " for rd in case["regdefs"]))
        if case.get("short_window"):
            short = [rd for rd in case["regdefs"] if rd["digits"] < len(rd["ident"])]
            out["window_shorter_than_identifier"] = 1
            out["window_zero"] = int(any(rd["digits"] == 0 for rd in short))
            out["window_short_all_types"] = int(len(short) == len(case["regdefs"]))
            out["window_short_line_of_that_type_in_content"] = int(any(
                l.startswith(rd["ident"].rstrip()) for rd in short for l in nl_lines(case["content"])))
        return out

    def signature(self, case, why):
        return why.split(":")[0]

    def shrink(self, case):
        if case["kind"] == "content":
            lines = nl_lines(case["content"])
            if len(lines) > 1:
                for i in range(len(lines)):
                    c = dict(case)
                    c["content"] = "".join(lines[:i] + lines[i + 1:])
                    yield c
            if len(case["regdefs"]) > 1 and not any("parent" in rd for rd in case["regdefs"]):
                for i in range(len(case["regdefs"])):
                    c = dict(case)
                    c["regdefs"] = case["regdefs"][:i] + case["regdefs"][i + 1:]
                    yield c
        elif len(case["elems"]) > 1:
            for i in range(len(case["elems"])):
                c = dict(case)
                c["elems"] = case["elems"][:i] + case["elems"][i + 1:]
                yield c

    def neighbours(self, case, rng):
        for _ in range(15):
            lines = [perturb(rng, gen_line(rng, case["regdefs"]), case["regdefs"]) for _ in range(rng.randint(1, 5))]
            yield {"regdefs": case["regdefs"], "kind": "content", "content": "\n".join(lines) + "\n"}
