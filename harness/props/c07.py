"""C07 — linked containers stay a faithful ordered list under every operation history."""
import itertools

from ..framework import Check
from .. import families, lib

OPN = {0: "prepend", 1: "append", 2: "add_before", 3: "add_after", 4: "remove"}


def ref_apply(l, op):
    k, a, b = op
    l = list(l)
    if k == 0:
        return [a] + l
    if k == 1:
        return l + [a]
    if k == 2:
        i = l.index(a)
        return l[:i] + [b] + l[i:]
    if k == 3:
        i = l.index(a)
        return l[: i + 1] + [b] + l[i + 1:]
    l.remove(a)
    return l


def valid_ops(l, pool):
    out = []
    free = [x for x in pool if x not in l]
    for x in free:
        out.append([0, x, 0])
        out.append([1, x, 0])
        for a in l:
            out.append([2, a, x])
            out.append([3, a, x])
    if len(l) > 1:
        for a in l:
            out.append([4, a, 0])
    return out


def observe(container, ids, cap):
    def ident(o):
        return -1 if o is None else ids.get(id(o), -9)
    # length asked BEFORE any walk of this observation (a walk could refresh a cache); bounded, the chain may be cyclic
    try:
        with lib.budget(40 * cap + 400):
            n0 = len(container)
    except lib.BudgetExceeded:
        n0 = None
    fwd = list(itertools.islice(iter(container), cap))
    back = []
    cur = container.last
    while cur is not None and len(back) < cap:
        back.append(cur)
        cur = cur.previous
    # two iterations at once (nested loops, zip(c, c), c == c): each must see the whole chain -- like a list
    nested = -1
    if len(fwd) < cap:
        nested = sum(1 for _a in itertools.islice(iter(container), cap) for _b in itertools.islice(iter(container), cap))
    links = [[ident(e.previous), ident(e.next)] for e in fwd]
    flags = [[e.is_first, e.is_last] for e in fwd]
    n = len(container) if len(fwd) < cap else -1
    if n0 is not None and n != -1 and n0 != n:
        n = [n0, n]   # two answers for one state
    return {"fwd": [ident(e) for e in fwd], "back": [ident(e) for e in back], "first": ident(container.first),
            "last": ident(container.last), "links": links, "flags": flags, "len": n, "nested": nested}


def apply_op(container, elems, op):
    k, a, b = op
    if k == 0:
        container.preppend(elems[a])
    elif k == 1:
        container.append(elems[a])
    elif k == 2:
        container.add_before(elems[a], elems[b])
    elif k == 3:
        container.add_after(elems[a], elems[b])
    else:
        container.remove(elems[a])


class CHECK(Check):
    pid = "C07"
    entry = "C07"
    theorems = ["C07_step", "C07_reachable", "C07_iter", "C07_iter_back", "C07_ends", "C07_links", "C07_init"]
    rule = ("operation histories over {prepend, append, add_before, add_after, remove} built through the public API "
            "for RegisterData, BlockData and SectionData: (a) every history up to the depth bound over a pool of "
            "fresh elements (removing first/last and re-inserting removed elements included), each with the all-"
            "value-equal pattern and a mixed pattern; (b) inductive-step scope: every single operation on every "
            "container of size<=4 built by appends, with every value-equality pattern over two value classes; "
            "(c) random histories up to length 30 over a pool of 8. After every operation: list(container), "
            "backward walk, len, first, last, previous/next/is_first/is_last of every member. Only the sole-"
            "element removal is excluded. non-trivial = history contains an insertion next to or a removal of an "
            "end or a re-insertion; distinct = distinct case hash"
            " Later additions: a third of the operations run under a suspended iterator (exhausted afterwards), len() asked before any walk, a third of the cases use base-class components without a usable ==.")

    def gen(self, tier, rng):
        depth = 4 if tier == "quick" else 5
        npool = 3 if tier == "quick" else 4
        pool = list(range(0, npool + 1))
        cap = len(pool) + 3
        # (b) inductive step
        for fam in families.FAMILIES:
            for n in range(1, 5):
                base = [[1, i, 0] for i in range(1, n)]
                l = list(range(n))
                for pat in itertools.product([0, 1], repeat=n + 1):
                    for op in valid_ops(l, list(range(n + 1))):
                        yield {"fam": fam, "vc": list(pat), "cap": n + 4, "ops": base + [op], "kind": "step"}
        # (a) all histories up to depth
        def rec(l, hist):
            if hist:
                yield hist
            if len(hist) == depth:
                return
            for op in valid_ops(l, pool):
                yield from rec(ref_apply(l, op), hist + [op])
        count = 0
        for hist in rec([0], []):
            if len(hist) < 2:
                continue
            count += 1
            fam = families.FAMILIES[count % 3]
            h = int(lib.hashlib.sha1(repr(hist).encode()).hexdigest(), 16)
            mixed = [(h >> i) & 1 for i in range(len(pool))]
            yield {"fam": fam, "vc": [0] * len(pool), "cap": cap, "ops": hist, "kind": "hist"}
            if len(hist) == depth or tier == "thorough":
                yield {"fam": families.FAMILIES[(count + 1) % 3], "vc": mixed, "cap": cap, "ops": hist, "kind": "hist"}
        # (c) random long histories
        n = 600 if tier == "quick" else 20000
        for _ in range(n):
            pl = list(range(8))
            l = [0]
            hist = []
            for _ in range(rng.randint(5, 30)):
                ops = valid_ops(l, pl)
                rem = [o for o in ops if o[0] == 4]
                op = rng.choice(rem) if rem and rng.random() < 0.35 else rng.choice(ops)
                hist.append(op)
                l = ref_apply(l, op)
            yield {"fam": rng.choice(families.FAMILIES), "vc": [rng.randint(0, 1) for _ in pl], "cap": 11,
                   "ops": hist, "kind": "random"}

    def impl(self, case):
        F = families.get(case["fam"])
        import hashlib, json
        h = int(hashlib.sha1(json.dumps(case, sort_keys=True).encode()).hexdigest(), 16)
        # a third of the cases use plain base-class components: Block and Section define no usable ==  (it raises
        # NotImplementedError), and the containers are about identity -- they must never compare their members
        K = F["Base"] if (h >> 40) % 3 == 0 else F["Default"]
        elems = [K(data="v%d" % v) for v in case["vc"]]
        ids = {id(e): i for i, e in enumerate(elems)}
        c = F["Data"](elems[0])
        out = []
        seen_new = set()
        for j, op in enumerate(case["ops"]):
            # a third of the operations run while an iteration over the container is suspended (`for e in c: c.remove(e)` is
            # ordinary user code); the iterator is exhausted afterwards. Iterating is an observation: it must not change what
            # the container answers afterwards.
            it = None
            if (h >> (2 * j)) % 3 == 0:
                it = iter(c)
                for _ in range((h >> (2 * j + 7)) % 3):
                    next(it, None)
            newi = op[1] if op[0] <= 1 else (op[2] if op[0] <= 3 else None)     # index of the element being inserted
            if newi is not None and newi != 0 and newi not in seen_new and (h >> (3 * j + 11)) % 3 == 0:
                # the element about to be inserted for the first time is built with previous= / next= that name current members (a
                # constructor only records what it is given; the container's operation decides where the element goes)
                old = elems[newi]
                elems[newi] = K(previous=c.last, next=c.first, data=old.data)
                ids[id(elems[newi])] = ids.pop(id(old))
            if newi is not None:
                seen_new.add(newi)
            try:
                apply_op(c, elems, op)
            except AttributeError:
                out.append("AttributeError")
                break
            if it is not None:
                for _ in itertools.islice(it, case["cap"]):
                    pass
            out.append(observe(c, ids, case["cap"]))
        return out

    def model_arg(self, case, variant=0):
        return [variant, case["vc"], case["cap"], case["ops"]]

    def model_obs(self, case, res):
        out = []
        for r in res:
            if r == -2:
                out.append("AttributeError")
                break
            fwd, back, root, head, links = r
            n = len(fwd)
            out.append({"fwd": fwd, "back": back, "first": root, "last": head, "links": links,
                        "flags": [[l[0] == -1, l[1] == -1] for l in links], "len": n if n < case["cap"] else -1,
                        "nested": n * n if n < case["cap"] else -1})
        return out

    def oracle(self, case, obs):
        l = [0]
        if not isinstance(obs, list):
            return "exception: %s" % (obs,)
        for i, op in enumerate(case["ops"]):
            l = ref_apply(l, op)
            if i >= len(obs):
                return "%s raised earlier" % OPN[op[0]]
            o = obs[i]
            name = OPN[op[0]]
            if o == "AttributeError":
                return "%s raises AttributeError on a valid call" % name
            if o["fwd"] != l:
                return "after %s: iteration differs from the reference list" % name
            if o["len"] != len(l):
                return "after %s: len differs" % name
            if o.get("nested", len(l) ** 2) != len(l) ** 2:
                return "after %s: two simultaneous iterations do not each yield the whole sequence" % name
            if o["first"] != l[0]:
                return "after %s: first is stale" % name
            if o["last"] != l[-1]:
                return "after %s: last is stale" % name
            if o["back"] != l[::-1]:
                return "after %s: backward walk is not the reverse" % name
            exp = [[l[j - 1] if j > 0 else -1, l[j + 1] if j + 1 < len(l) else -1] for j in range(len(l))]
            if o["links"] != exp:
                return "after %s: previous/next links differ from list neighbours" % name
            if o["flags"] != [[j == 0, j == len(l) - 1] for j in range(len(l))]:
                return "after %s: is_first/is_last wrong" % name
        return None

    def nontrivial(self, case, obs):
        l = [0]
        removed = set()
        for op in case["ops"]:
            if op[0] == 4 and (op[1] in (l[0], l[-1])):
                return True
            if op[0] in (0, 1) and op[1] in removed:
                return True
            if op[0] in (2, 3) and (op[2] in removed or op[1] in (l[0], l[-1])):
                return True
            if op[0] == 4:
                removed.add(op[1])
            l = ref_apply(l, op)
        return False

    def classify(self, case):
        d = {"kind_" + case["kind"]: 1, "fam_" + case["fam"]: 1, "len_%02d" % min(len(case["ops"]), 30): 1}
        for op in case["ops"]:
            d["op_" + OPN[op[0]]] = d.get("op_" + OPN[op[0]], 0) + 1
        return d

    def signature(self, case, why):
        return why

    def shrink(self, case):
        ops = case["ops"]
        # drop one op (keeping the history valid w.r.t. the reference list)
        for i in range(len(ops)):
            cand = ops[:i] + ops[i + 1:]
            l = [0]
            ok = True
            for op in cand:
                if op not in valid_ops(l, list(range(len(case["vc"])))):
                    ok = False
                    break
                l = ref_apply(l, op)
            if ok and cand:
                c = dict(case)
                c["ops"] = cand
                yield c
        for fam in families.FAMILIES:
            if fam != case["fam"]:
                c = dict(case)
                c["fam"] = fam
                yield c

    def neighbours(self, case, rng):
        for pat in ([0] * len(case["vc"]), list(range(len(case["vc"])))):
            c = dict(case)
            c["vc"] = [p % 2 for p in pat]
            yield c
        for fam in families.FAMILIES:
            c = dict(case)
            c["fam"] = fam
            yield c
