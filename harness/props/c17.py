"""C17 — faults propagate, handles are released, partial output is a clean prefix."""
import builtins
import gc
import io
import os
import shutil

from ..framework import Check
from .. import families, lib


class CustomError(Exception):
    pass


class CustomBase(BaseException):
    """not an Exception: what KeyboardInterrupt / SystemExit are"""


class EndOfTable(StopIteration):
    pass


# StopIteration: what a component's read raises when it calls next() on an exhausted iterator; iterator-protocol plumbing
# (iter(callable, sentinel), generators) swallows it
class DeviceError(OSError):
    pass


EXC_TYPES = [ValueError, KeyError, CustomError, CustomBase, StopIteration, EndOfTable, DeviceError]
TMP = os.path.join(lib.SCRATCH, "tmp_c17")

# what a caller may hand over as a destination it owns ("caller buffer"): an in-memory buffer, or a file object the caller opened
# itself - read/write and buffered, write-only and buffered, write-only and line-buffered (text) / unbuffered (binary: a raw
# io.FileIO, every write() goes straight to the descriptor)
DESTS = {False: ("mem", "file", "wfile", "linefile"), True: ("mem", "file", "wfile", "rawfile")}

# volume: (number of elements, total characters/bytes the elements read or write together). The small enumeration moves a few
# bytes per element; these files are as large as, one more than, and several times the sizes at which the I/O layers under the
# framework change how they work (a memory page / allocation unit of 4 KiB, io.DEFAULT_BUFFER_SIZE of 8 KiB, 64 KiB), both as one
# large record and as many records; one more (n, total) per arrangement is drawn from the seeded PRNG
VOLUMES = [(1, 4097), (8, 4096), (8, 4097), (3, 8193), (5, 20000), (8, 70000)]


# history of a destination PATH: what the path holds when the measured write starts. Absent = a fresh path (no such file); else
# (who put it there, how much): "written" = an earlier file of the same file class, of m elements, was written to the path through
# the framework (successfully); "foreign" = m bytes the caller stored there. A write replaces the file: what the path held before
# is no part of "what was already written". The amounts are taken in rotation: more than / less than the new output
PRIORS = ("written_more", "foreign_more", "written_less", "foreign_same")


# what the user's element class says about equality. A component only has to provide read() and write(); __eq__ is optional, and
# what the framework does with a fault must not depend on it: "identity" = the class defines __eq__ as `is`; "inherited" = the class
# defines read/write only and inherits the base class's __eq__ (Register: compares data; Block / Section: the base method raises
# NotImplementedError); "uncomparable" = the class defines an __eq__ that raises (what `self.data == o.data` on array-valued data
# does: ValueError, the truth value is ambiguous). One kind per case, in rotation
EQ_KINDS = ("identity", "inherited", "uncomparable")


class Uncomparable(ValueError):
    pass


def prior_of(kind, case):
    """the (who, amount) history of the given kind for the case"""
    n = len(case["behs"])
    full = sum(len(b[1]) for b in case["behs"] if not b[0])
    return {"written_more": ["written", n + 3], "written_less": ["written", 1],
            "foreign_more": ["foreign", full + 37], "foreign_same": ["foreign", max(1, full)]}[kind]


def prior_behs(m):
    """what the m elements of the earlier file wrote"""
    return [[False, "P%d%s\n" % (j, "w" * (1 + j % 4))] for j in range(m)]


def volume_of(case):
    """characters/bytes the non-failing elements of the case read or write together"""
    return sum((b[1] if case["read"] else len(b[1])) for b in case["behs"] if not b[0])


def open_dest(kind, binary):
    """the caller's own destination object of the given kind"""
    p = os.path.join(TMP, "caller.dat")
    if kind == "mem":
        return io.BytesIO() if binary else io.StringIO()
    if kind == "file":
        return open(p, "w+b" if binary else "w+")
    if kind == "wfile":
        return open(p, "wb" if binary else "w")
    if kind == "linefile" and not binary:
        return open(p, "w", buffering=1)
    if kind == "rawfile" and binary:
        return open(p, "wb", buffering=0)
    raise ValueError("no destination kind %r for %s storage" % (kind, "binary" if binary else "text"))


class Recorder:
    """wraps builtins.open and the StringIO/BytesIO the reading adapter creates, recording every handle"""

    def __init__(self):
        self.handles = []

    def __enter__(self):
        import cfinterface.adapters.reading.repository as rr
        self.rr = rr
        self.real_open = builtins.open
        rec = self

        def wopen(path, *a, **k):
            h = rec.real_open(path, *a, **k)
            if isinstance(path, (str, bytes)) and (path.decode() if isinstance(path, bytes) else path).startswith(TMP):
                rec.handles.append(h)
            return h

        class RS(io.StringIO):
            def __init__(s, *a, **k):
                super().__init__(*a, **k)
                rec.handles.append(s)

        class RB(io.BytesIO):
            def __init__(s, *a, **k):
                super().__init__(*a, **k)
                rec.handles.append(s)

        builtins.open = wopen
        self.saved = (rr.StringIO, rr.BytesIO)
        rr.StringIO, rr.BytesIO = RS, RB
        return self

    def __exit__(self, *a):
        builtins.open = self.real_open
        self.rr.StringIO, self.rr.BytesIO = self.saved
        return False


def make_elements(fam, binary, behs, excs, mode, eq=None):
    """component classes / instances whose i-th read or write performs behaviour i"""
    F = families.get(fam)
    Base = F["Base"]
    state = {"i": 0}

    def do(file, kind):
        i = state["i"]
        state["i"] += 1
        b = behs[i]
        if b[0]:
            raise excs[b[1]]
        if kind == "w":
            file.write(b[1].encode("latin-1") if binary else b[1])
        else:
            return file.read(b[1]) if binary else file.readline()

    if fam == "register":
        def read(self, file, storage="", *a, **k):
            self.data = [do(file, "r")]
            return True

        def write(self, file, storage="", *a, **k):
            do(file, "w")
            return True
        ns = {"IDENTIFIER": "R", "IDENTIFIER_DIGITS": 1, "read": read, "write": write, "__slots__": []}
    else:
        def read(self, file, *a, **k):
            self.data = do(file, "r")
            return True

        def write(self, file, *a, **k):
            do(file, "w")
            return True
        ns = {"read": read, "write": write, "__slots__": [], "__eq__": lambda s, o: s is o, "__hash__": None}
        if fam == "block":
            ns["BEGIN_PATTERN"] = b"R" if binary else "R"
    if eq is not None:
        # (eq None: replay files written before the equality kind was part of the case - the classes of that time)
        ns.pop("__eq__", None)
        ns.pop("__hash__", None)
        if eq == "identity":
            ns.update({"__eq__": lambda s, o: s is o, "__hash__": None})
        elif eq == "uncomparable":
            def _eq(s, o):
                raise Uncomparable("The truth value of an array with more than one element is ambiguous")
            ns.update({"__eq__": _eq, "__hash__": None})
        elif eq != "inherited":
            raise ValueError("no equality kind %r" % (eq,))
    K = type("V17" + fam, (Base,), ns)
    return K, state


class CHECK(Check):
    pid = "C17"
    entry = "C17"
    level = "proof"
    theorems = ["C17_write", "C17_clean_prefix", "C17_success_output", "C17_read"]
    rule = ("complete enumeration: files of n = 1..8 elements (quick: n in {1,2,3,5,8}) x fault position k in 0..n-1 or no fault x "
            "{read, write} x file family {register, block, section} x endpoint {path in a real temp directory, caller buffer / "
            "in-memory content} x (writes to a caller buffer) kind of caller-owned destination {StringIO/BytesIO, file object opened "
            "read-write, opened write-only, write-only and line-buffered (text) / unbuffered raw FileIO (binary)} x storage {text, binary} x exception object {ValueError, KeyError, custom Exception subclass} x {built with a message, built without arguments}; "
            "plus, per arrangement {family, storage, read/write, endpoint (and kind of caller destination)}, files with kilobytes of "
            "content - (elements, total size) in {(1, 4097), (8, 4096), (8, 4097), (3, 8193), (5, 20000), (8, 70000)} and one drawn "
            "pair (sizes at, one past and several times a 4 KiB page, the 8 KiB io buffer, 64 KiB) - with no fault and a fault in "
            "the first / last element (writes: up to 20 kB, the kinds of caller destination taken in rotation). "
            "every write to a path is made to a fresh path and also to a path with a history - one per case, in rotation: an earlier "
            "file of the same file class with n+3 elements / with 1 element was written there through the framework, or the caller "
            "stored bytes there (37 more than / as many as the new output) - what the path held before is no part of the output. "
            "builtins.open and the adapter's StringIO/BytesIO are wrapped to record every handle the framework opens and its "
            "closed flag after the call; every case with one kind of equality of the user's element class, in rotation: __eq__ defined as "
            "identity / not defined (read and write only: the base class's __eq__ - Block and Section raise NotImplementedError) / "
            "defined and raising (data that cannot be compared with ==); observed: identity of the exception at the call site, handles opened/closed, "
            "buffer.closed (inside the caller's except block, on return, and again after the caller has dropped the exception and the "
            "file object and a gc.collect() has run) / tell() / contents (for a caller-opened file: the bytes on disk after the caller's "
            "own flush), bytes on disk after a failed write. non-trivial = a fault is injected; distinct = hash")
    exhaustive = True
    not_exhibited = ["descriptor-level release by the OS (Python-level closed flags are observed)"]

    def gen(self, tier, rng):
        # every case with one kind of element-class equality, in rotation (the start drawn)
        turn_e = rng.randrange(len(EQ_KINDS))
        for case in self._gen(tier, rng):
            turn_e += 1
            yield dict(case, eq=EQ_KINDS[turn_e % len(EQ_KINDS)])

    def _gen(self, tier, rng):
        ns = (1, 2, 3, 5, 8) if tier == "quick" else range(1, 9)
        turn_p = rng.randrange(4)
        for fam in families.FAMILIES:
            for binary in (False, True):
                for is_read in (False, True):
                    for buf in (False, True):
                        for n in ns:
                            for k in list(range(n)) + [None]:
                                for et in range(2 * len(EXC_TYPES)):
                                    if k is None and et:
                                        continue
                                    behs = []
                                    for i in range(n):
                                        if i == k:
                                            behs.append([True, et])
                                        elif is_read:
                                            behs.append([False, 2 + (i % 3)])
                                        else:
                                            behs.append([False, "R%d%s\n" % (i, "x" * (i % 3))])
                                    case = {"fam": fam, "binary": binary, "read": is_read, "buffer": buf, "behs": behs}
                                    if buf and not is_read:
                                        # every kind of caller-owned destination, at every fault position
                                        for dest in DESTS[binary]:
                                            yield dict(case, dest=dest)
                                    else:
                                        yield case
                                        if not is_read:
                                            # ... and the same write to a path that already holds something (one history per
                                            # case, the kinds taken in rotation)
                                            turn_p += 1
                                            yield dict(case, prior=prior_of(PRIORS[turn_p % 4], case))
        # volume: the same arrangements with kilobytes of content (a handful per arrangement, not an enumeration): no fault, a
        # fault in the first and in the last element
        for fam in families.FAMILIES:
            for binary in (False, True):
                for is_read in (False, True):
                    for buf in (False, True):
                        # (the model's string arithmetic on what is written costs ~2 s per MB: writes get the sizes around the page
                        # and the io buffer, one 20 kB file, and each case one kind of caller destination, taken in rotation)
                        top = (4096, 8192, 16384, 65536, 131072) if is_read else (4096, 8192, 16384)
                        vols = (VOLUMES if is_read else VOLUMES[:1] + VOLUMES[2:5]) + [(rng.choice((1, 2, 3, 5, 8)), rng.choice(top) + rng.randint(-2, 600))]
                        turn = rng.randrange(4)
                        for n, total in vols:
                            sizes = [total // n] * n
                            sizes[-1] += total - sum(sizes)
                            for k in ([None] if n == 1 or (total > 17000 and not is_read) else [None, 0, n - 1]):
                                et = rng.randrange(2 * len(EXC_TYPES))
                                behs = []
                                for i in range(n):
                                    if i == k:
                                        behs.append([True, et])
                                    elif is_read:
                                        behs.append([False, sizes[i]])
                                    else:
                                        behs.append([False, ("R%d" % i) + "x" * (sizes[i] - 3) + "\n"])
                                case = {"fam": fam, "binary": binary, "read": is_read, "buffer": buf, "behs": behs}
                                if buf and not is_read:
                                    turn += 1
                                    yield dict(case, dest=DESTS[binary][turn % 4])
                                else:
                                    yield case
                                    if not is_read and not buf:
                                        turn_p += 1
                                        yield dict(case, prior=prior_of(PRIORS[turn_p % 4], case))

    def impl(self, case):
        # the objects of this case are the only thing the collection in _impl has to look at (a full collection costs ~9 ms otherwise)
        gc.freeze()
        try:
            return self._impl(case)
        finally:
            gc.unfreeze()

    def _impl(self, case):
        fam, binary = case["fam"], case["binary"]
        F = families.get(fam)
        excs = [t("injected %d" % i) for i, t in enumerate(EXC_TYPES)] + [t() for t in EXC_TYPES]   # with and without arguments
        prior = case.get("prior") if not case["read"] and not case["buffer"] else None
        before = prior_behs(prior[1]) if prior and prior[0] == "written" else []
        K, state = make_elements(fam, binary, before + case["behs"], excs, "r" if case["read"] else "w", case.get("eq"))
        n = len(case["behs"])
        attr = F["list_attr"]
        ns = {"STORAGE": "BINARY" if binary else "TEXT", "__slots__": [], attr: [K] * (n if fam == "section" else 1)}
        FC = type("V17File", (F["File"],), ns)
        shutil.rmtree(TMP, ignore_errors=True)
        os.makedirs(TMP)
        path = os.path.join(TMP, "f.dat")
        out = {"raised": None}

        def ident(e):
            ids = [i for i, x in enumerate(excs) if x is e]
            return ids[0] if ids else "other: %s %s" % (type(e).__name__, str(e)[:80])

        try:
            if case["read"]:
                # content: n records, each "R.." so that register/block dispatch selects K
                if binary:
                    content = b"".join(b"R" + b"y" * (b[1] - 1) if not b[0] else b"Rzz" for b in case["behs"])
                else:
                    # one line per element, as long as the element's size says (the small enumeration: "R<i>\n")
                    content = "".join("R%d%s\n" % (i, "y" * (0 if b[0] else max(0, b[1] - 4))) for i, b in enumerate(case["behs"]))
                if not case["buffer"]:
                    with open(path, "wb" if binary else "w") as fh:
                        fh.write(content)
                with Recorder() as rec:
                    try:
                        if fam == "register" and binary:
                            FC.read(path if not case["buffer"] else content, 1)
                        else:
                            FC.read(path if not case["buffer"] else content)
                    except BaseException as e:
                        out["raised"] = ident(e)
                out["fw_opened"] = len(rec.handles)
                out["fw_closed"] = sum(1 for h in rec.handles if h.closed)
            else:
                def container(m):
                    data = F["Data"](F["Default"](data="") if fam == "register" else K())
                    # (block / section: the container's first element is the first behaviour)
                    for _ in range(m if fam == "register" else m - 1):
                        data.append(K())
                    return data

                if prior and prior[0] == "written":
                    # the history of the path: an earlier file of the same kind, written there through the framework
                    m = len(before)
                    FC0 = type("V17File", (F["File"],), dict(ns, **{attr: [K] * (m if fam == "section" else 1)}))
                    FC0(container(m)).write(path)
                    state["i"] = m          # the measured file's elements perform the behaviours of the case
                elif prior:
                    with open(path, "wb") as fh:
                        fh.write((b"#previous content\n" * (prior[1] // 18 + 1))[:prior[1]])
                data = container(n)
                f = FC(data)
                buf = dest = None
                if case["buffer"]:
                    # the caller-owned destination: an in-memory buffer or a file object the caller opened (before the recorder
                    # starts, so it is not counted as opened by the framework): the framework must leave it open, positioned after
                    # what it wrote. (replay files written before the destination kind was part of the case: the rule of that time)
                    dest = case.get("dest") or ("file" if (n + (1 if binary else 0)) % 2 == 0 else "mem")
                    buf = open_dest(dest, binary)
                closed_seen = False
                with Recorder() as rec:
                    try:
                        f.write(buf if case["buffer"] else path)
                    except BaseException as e:
                        out["raised"] = ident(e)
                        if case["buffer"]:
                            closed_seen = buf.closed          # what the caller sees inside its except block
                out["fw_opened"] = len(rec.handles)
                out["fw_closed"] = sum(1 for h in rec.handles if h.closed)
                if case["buffer"]:
                    closed_seen = closed_seen or buf.closed   # ... when the call has returned / the except block is left
                    # ... and once the caller has let go of what the call left behind - the exception (its traceback keeps the
                    # frames of the failed call, and whatever they hold, alive), the file object and its elements - and unreachable
                    # objects have been reclaimed: "left open" is about the caller's handle, not about a moment
                    del excs[:]
                    f = data = None
                    gc.collect()
                    closed_seen = closed_seen or buf.closed
                    out["buf_closed"] = closed_seen
                    if not buf.closed:
                        out["buf_pos"] = buf.tell()
                        if dest == "mem":
                            v = buf.getvalue()
                            v = v.decode("latin-1") if binary else v
                        else:
                            # the caller flushes its own handle; what the framework wrote through it is what is on disk then
                            buf.flush()
                            with open(os.path.join(TMP, "caller.dat"), "rb") as fh:
                                v = fh.read().decode("latin-1")
                        out["output"] = v
                        buf.close()
                else:
                    if os.path.exists(path):
                        with open(path, "rb") as fh:
                            out["output"] = fh.read().decode("latin-1")
                    else:
                        out["output"] = "<the destination file does not exist>"
        finally:
            shutil.rmtree(TMP, ignore_errors=True)
        return out

    def model_arg(self, case):
        behs = [[b[0], b[1]] for b in case["behs"]]
        content = "".join("R%d\n" % i for i in range(len(behs)))
        return [case["read"], True, True, case["buffer"], behs, content]

    def model_obs(self, case, res):
        raised, output, opened, closed, bclosed, bpos = res
        out = {"raised": raised[0] if raised else None, "fw_opened": opened, "fw_closed": closed}
        if not case["read"]:
            out["output"] = lib.to_str(output)
            if case["buffer"]:
                out["buf_closed"] = bool(bclosed)
                out["buf_pos"] = bpos
        return out

    def oracle(self, case, obs):
        behs = case["behs"]
        k = next((i for i, b in enumerate(behs) if b[0]), None)
        exp_exc = None if k is None else behs[k][1]
        if obs["raised"] != exp_exc:
            return "the exception reaching the caller is not the element's own exception (got %r)" % (obs["raised"],)
        if obs["fw_closed"] != obs["fw_opened"]:
            return "a handle opened by the framework was left open (%d opened, %d closed)" % (obs["fw_opened"], obs["fw_closed"])
        if not case["read"]:
            exp_out = "".join(b[1] for b in (behs if k is None else behs[:k]))
            if case["buffer"]:
                if obs.get("buf_closed"):
                    return "the caller-supplied buffer was closed (destination kind: %s)" % case.get("dest", "-")
                if obs["fw_opened"] != 0:
                    return "the framework opened a handle although a buffer was supplied"
                if obs["buf_pos"] != len(exp_out):
                    return "caller buffer is not positioned at the end of the written data"
            if obs.get("output") != exp_out:
                if case.get("prior") and not case["buffer"] and k is None:
                    return "the file at the destination path is not exactly the output of the elements (the path held earlier content)"
                return "partial output is not exactly the output of the elements before the failing one"
        return None

    def nontrivial(self, case, obs):
        return any(b[0] for b in case["behs"])

    def classify(self, case):
        k = next((i for i, b in enumerate(case["behs"]) if b[0]), None)
        d = {"fam_" + case["fam"]: 1, "binary" if case["binary"] else "text": 1, "read" if case["read"] else "write": 1,
             "buffer" if case["buffer"] else "path": 1, "n_%d" % len(case["behs"]): 1,
             "fault_at_%s" % ("none" if k is None else k): 1}
        d["element_eq_" + case.get("eq", "as_before_the_kind_was_recorded")] = 1
        if case["buffer"] and not case["read"]:
            d["caller_dest_" + case.get("dest", "by_parity")] = 1
        if not case["buffer"] and not case["read"]:
            pr = case.get("prior")
            full = sum(len(b[1]) for b in case["behs"] if not b[0])
            d["dest_path_" + ("fresh" if not pr else "holds_earlier_%s_file" % ("longer" if pr[1] > len(case["behs"]) else "shorter")
                              if pr[0] == "written" else "holds_foreign_bytes_%s" % ("more" if pr[1] > full else "as_many_or_fewer"))] = 1
        v = volume_of(case)
        d["volume_" + ("lt_1KiB" if v < 1024 else "1KiB_to_4KiB" if v <= 4096 else "4KiB_to_8KiB" if v <= 8192
                       else "8KiB_to_64KiB" if v <= 65536 else "gt_64KiB")] = 1
        return d

    def signature(self, case, why):
        import re
        return re.sub(r"\(.*\)", "", why).strip()

    def shrink(self, case):
        behs = case["behs"]
        if len(behs) > 1:
            for i in range(len(behs)):
                if not behs[i][0]:
                    c = dict(case)
                    c["behs"] = behs[:i] + behs[i + 1:]
                    yield c
        # less history at the destination path
        pr = case.get("prior")
        if pr and not case["buffer"] and not case["read"]:
            for m in (1, pr[1] // 2, pr[1] - 1):
                if 1 <= m < pr[1]:
                    yield dict(case, prior=[pr[0], m])
        # less volume: every element three quarters / one less of what it moved
        if volume_of(case) > 64:
            for f in (lambda m: m * 3 // 4, lambda m: m - 1):
                c = dict(case)
                if case["read"]:
                    c["behs"] = [b if b[0] else [False, max(4, f(b[1]))] for b in behs]
                else:
                    c["behs"] = [b if b[0] else [False, b[1][:max(3, f(len(b[1])) - 1)] + "\n"] for b in behs]
                if c["behs"] != behs:
                    yield c

    def neighbours(self, case, rng):
        return []
