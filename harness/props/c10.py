"""C10 — written registers are recognised, self-delimiting and re-readable in any storage."""
import io

from ..framework import Check
from .. import fieldlib as fl, reglib, lib, relib
from .c05 import canonical_value
from .c09 import gen_bin_value


SELF_MATCHING = [["seq", ["lit", "A"], ["any"]], ["plus", ["lit", "B"]], ["plus", ["cls", False, [[65, 66]]]],
                 ["seq", ["lit", "X"], ["opt", ["lit", "1"]]], ["seq", ["star", ["lit", "Q"]], ["lit", "Z"]], ["s", True],
                 ["seq", ["bol"], ["any"]], ["alt", ["lit", "A"], ["lit", "B"]]]


def gen_defs(rng, mode):
    n = rng.randint(1, 3)
    out = []
    for i in range(n):
        # identifiers that begin or end with a blank column are part of positional layouts; a delimited line trims its tokens,
        # so there they are outside the domain (the written identifier token would not be the identifier any more)
        ident = rng.choice(["", "A", "AB", "X1", "ABC", "Z9", "Q"] + ([" CT", " &X", "R "] if mode != "delim" else [])) if rng.random() < 0.9 else ""
        pat = None
        if mode != "delim" and rng.random() < 0.12:
            # an IDENTIFIER that is a regular expression which finds its own source text: Register.write puts the attribute
            # itself into the identifier columns, so the written register is recognised iff the expression matches its source
            pat = rng.choice(SELF_MATCHING)
            ident = relib.render(pat)
        digits = rng.randint(len(ident), len(ident) + 3)
        fs = []
        pos = digits
        for _ in range(rng.randint(1, 4)):
            if mode == "binary":
                k = rng.choice(["int", "float", "lit", "date"])
                if k in ("int", "float"):
                    fd = {"k": k, "size": rng.choice([2, 4, 8]), "start": pos}
                    if k == "float":
                        fd.update({"dd": 2, "fmt": "F", "sep": "."})
                elif k == "lit":
                    fd = {"k": "lit", "size": rng.randint(1, 6), "start": pos}
                else:
                    f = rng.choice(fl.DATE_FORMATS)
                    fd = {"k": "date", "size": fl.date_width(f), "start": pos, "formats": [f]}
            else:
                fd = fl.gen_field(rng, start=pos)
            fs.append(fd)
            pos = fd["start"] + fd["size"]
        if len(fs) > 1 and rng.random() < 0.3:
            rng.shuffle(fs)   # declared in an order different from the columns; the layout (and the record width) is unchanged
        out.append({"ident": ident, "digits": digits, "fields": fs, "delim": rng.choice([";", ",", "|", "\t", "\t"]) if mode == "delim" else None})
        if pat is not None:
            out[-1]["ident_pat"] = pat
    if len(out) > 1 and rng.random() < 0.25:
        for i in range(1, len(out)):
            if rng.random() < 0.6:
                out[i]["parent"] = rng.randrange(i)      # a subclass of an earlier register class with its own identifier and LINE
    return out


IDENT_POOL = ["A", "AB", "X1", "ABC", "Z9", "Q", " CT", " &X", "R "]
# offsets at which buffered readers and writers of the interpreter and of the C library change state: multiples of the
# interpreter's own buffer size, and the usual powers of two
BOUNDARIES = [io.DEFAULT_BUFFER_SIZE, io.DEFAULT_BUFFER_SIZE, io.DEFAULT_BUFFER_SIZE, 2 * io.DEFAULT_BUFFER_SIZE, 2 * io.DEFAULT_BUFFER_SIZE,
              3 * io.DEFAULT_BUFFER_SIZE, 4 * io.DEFAULT_BUFFER_SIZE, 512, 1024, 4096, 4096, 16384, 32768]


def rec_width(rd):
    return rd["digits"] + sum(fd["size"] for fd in rd["fields"])


def expand_value(v):
    """["strx", unit, count] is the literal unit * count (long contents are kept in this short form inside the case)"""
    if v is not None and v[0] == "strx":
        return ["str", v[1] * v[2]]
    return v


def gen_long_stream(rng):
    """a stream of 2-8 records of 1-3 types that is several KiB long: one record type carries a literal field of some KiB,
    and (binary) its width is chosen so that a later record starts within an identifier's width of a buffer-size boundary.
    The data are plainly in the domain by construction (no model run for these cases): integers inside the field's range,
    floats that every width represents exactly, literals without blanks at either end, no missing values."""
    mode = "binary" if rng.random() < 0.75 else "pos"
    n = rng.randint(1, 3)
    idents = rng.sample(IDENT_POOL, n)
    if rng.random() < 0.08:
        idents[rng.randrange(n)] = ""
    defs = []
    for ident in idents:
        digits = rng.randint(len(ident), len(ident) + 3)
        fs, pos = [], digits
        for _ in range(rng.randint(0 if mode == "binary" else 1, 3)):
            if mode == "binary":
                k = rng.choice(["int", "float", "lit"])
                fd = {"k": k, "size": rng.choice([2, 4, 8]) if k != "lit" else rng.randint(1, 6), "start": pos}
                if k == "float":
                    fd.update({"dd": 2, "fmt": "F", "sep": "."})
            else:
                k = rng.choice(["int", "lit"])
                fd = {"k": k, "size": rng.randint(1, 9) if k == "int" else rng.randint(1, 12), "start": pos}
            fs.append(fd)
            pos += fd["size"]
        defs.append({"ident": ident, "digits": digits, "fields": fs, "delim": None})
    nrec = rng.randint(2, 8)
    order = [rng.randrange(n) for _ in range(nrec)]
    t = rng.randint(1, nrec - 1)          # the record whose start is placed
    j = order[t - 1]                      # the type that is made long
    c = order[:t].count(j)
    bound = rng.choice(BOUNDARIES)
    before = sum(rec_width(defs[i]) + (0 if mode == "binary" else 1) for i in order[:t])
    dt = defs[order[t]]["digits"]
    ks = list(range(-1, dt + 2))
    rng.shuffle(ks)
    k = next((k for k in ks if (bound - k - before) % c == 0), (bound - before) % c)
    wide = max(1, (bound - k - before) // c)
    defs[j]["fields"].append({"k": "lit", "size": wide, "start": rec_width(defs[j])})
    for rd in defs:
        if not rd["fields"]:
            rd["fields"].append({"k": "lit", "size": rng.randint(1, 6), "start": rd["digits"]})
        if len(rd["fields"]) > 1 and rng.random() < 0.3:
            rng.shuffle(rd["fields"])
    recs = []
    for i in order:
        vals = []
        for fd in defs[i]["fields"]:
            sz = fd["size"]
            if fd["k"] == "int":
                v = ["int", rng.randint(-2 ** (8 * sz - 1), 2 ** (8 * sz - 1) - 1) if mode == "binary" else rng.randint(0, 10 ** sz - 1)]
            elif fd["k"] == "float":
                v = ["float", fl.f2b(rng.randint(-2048, 2048) / 4 + 0.0)]
            elif sz > 12:
                unit = "".join(rng.choice("abcXYZ019") for _ in range(rng.randint(1, 3)))
                v = ["strx", unit, sz // len(unit) if rng.random() < 0.7 else rng.randint(1, sz // len(unit))]
            else:
                v = ["str", "".join(rng.choice("abcXYZ019.-_/") for _ in range(rng.randint(1, sz)))]
            vals.append(v)
        recs.append([i, vals])
    return {"mode": mode, "defs": defs, "recs": recs, "long": True}


class CHECK(Check):
    pid = "C10"
    entry = "REGSTREAM"
    theorems = ["C10_recognised", "C10_delimited_ident_first", "C10_stream_text", "C10_binary_width", "C10_stream_binary", "C10_data"]
    rule = ("register definitions (identifier of 0-3 characters incl. the empty identifier, identifier width >= its length "
            "incl. zero width, 1-4 contiguous fields of mixed kinds) x storage in {positional text, delimited text, binary} x "
            "streams of 1-8 concatenated registers of mixed types with canonical in-domain data (the model decides; others "
            "are skipped): every register is written with Register.write, its own type's matches() is evaluated on the "
            "output, then all are read back with Register.read and buffer.tell() is observed after every read. "
            "non-trivial = stream of >= 2 records; distinct = hash"
            " Round 12: 12 % of the positional/binary identifiers are regular expressions that find their own source text (A. B+ [AB]+ X1? Q*Z \\S ^. A|B): Register.write puts the IDENTIFIER attribute itself into the identifier columns. Later additions: fields declared out of column order, identifiers beginning/ending with a blank (positional, binary), tab delimiter, class hierarchies, file-level binary read with an 8-byte window.")

    def gen(self, tier, rng):
        n = 3000 if tier == "quick" else 60000
        for _ in range(n):
            mode = rng.choice(["pos", "delim", "binary", "binary"])
            defs = gen_defs(rng, mode)
            recs = []
            for _ in range(rng.randint(1, 8)):
                i = rng.randrange(len(defs))
                vals = []
                for fd in defs[i]["fields"]:
                    if mode == "binary":
                        v = gen_bin_value(rng, fd)
                        if v is not None and v[0] in ("nan", "nat"):
                            v = None
                        if v is None:   # binary storage has no missing marker: zero / blank is the canonical form
                            v = {"int": ["int", 0], "float": ["float", 0], "lit": ["str", ""], "date": None}[fd["k"]]
                        if fd["k"] == "float" and v is not None:
                            import struct
                            from .c09 import ref_float_bytes, FFMT
                            x = struct.unpack(FFMT[fd["size"]], ref_float_bytes(fd["size"], fl.b2f(v[1])))[0]
                            v = ["float", fl.f2b(x)]
                        if fd["k"] == "date" and v is not None:
                            v = canonical_value(rng, fd)
                    else:
                        v = canonical_value(rng, fd)
                    vals.append(v)
                recs.append([i, vals])
            yield {"mode": mode, "defs": defs, "recs": recs}
        for _ in range(120 if tier == "quick" else 1500):
            yield gen_long_stream(rng)

    def comparable(self, case):
        return not case.get("long")

    def classify(self, case):
        return {"long_stream_" + case["mode"]: 1} if case.get("long") else {"stream_" + case["mode"]: 1}

    def shrink(self, case):
        if len(case["recs"]) > 1:
            yield dict(case, recs=case["recs"][:-1])

    def impl(self, case):
        mode = case["mode"]
        long = bool(case.get("long"))
        if long:
            case = dict(case, recs=[[i, [expand_value(v) for v in vals]] for i, vals in case["recs"]])
        sto = "BINARY" if mode == "binary" else "TEXT"
        regs = reglib.mk_register_classes(case["defs"])
        buf = io.BytesIO() if mode == "binary" else io.StringIO()
        chunks, matches = [], []
        try:
            for i, vals in case["recs"]:
                before = buf.tell()
                regs[i](data=[fl.py_value(v) for v in vals]).write(buf, sto)
                c = buf.getvalue()[before:]
                chunks.append((c.decode("latin-1") if long else list(c)) if mode == "binary" else c)   # long records: one str, a byte per character
                matches.append(bool(regs[i].matches(c, sto)))
            buf.seek(0)
            reads = []
            for i, vals in case["recs"]:
                r = regs[i]()
                r.read(buf, sto)
                reads.append([[fl.canon_value(x) for x in r.data], buf.tell()])
            file_elems = None
            if mode == "binary" and (not long or self._clear(case)):
                # the same stream through RegisterFile.read with a peek window of LS bytes
                F = reglib.mk_file_class(regs, True)
                try:
                    with lib.budget(200000 + (20 * len(buf.getvalue()) if long else 0)):
                        f = F.read(buf.getvalue(), self.LS)
                        file_elems = reglib.canon_elems(f.data, regs, cap=len(buf.getvalue()) + 5)[1:]
                except lib.BudgetExceeded:
                    if not long:
                        raise
                    # a long stream whose records are claimed by another type's identifier test (identifier text in data
                    # columns) is legitimately cut into thousands of short records; the oracle decides whether this one is
                    file_elems = "budget"
                except UnicodeDecodeError:
                    # the str identifier test decodes the peeked bytes as UTF-8; numeric payload inside the peek window
                    # may not be valid UTF-8 (DESIGN section 12): such streams cannot be read at file level at all
                    file_elems = None
        except OverflowError:
            return {"raised": "OverflowError"}
        except lib.BudgetExceeded:
            return {"raised": "BudgetExceeded"}
        except Exception as e:
            return {"raised": type(e).__name__ + ": " + str(e)[:80]}
        return {"chunks": chunks, "matches": matches, "reads": reads, "file_elems": file_elems}

    LS = 8

    def model_arg(self, case, variant=0):
        return [variant, case["mode"] == "binary", [reglib.regdef_sx(rd) for rd in case["defs"]],
                [[i, [fl.value_sx(v) for v in vals]] for i, vals in case["recs"]], self.LS]

    def model_obs(self, case, res):
        if res == [[]]:
            return {"fits": False}
        chunks, matches, reads, fits, felems = res
        binary = case["mode"] == "binary"
        ch = [(fl.obytes(c) if binary else fl.ostr(c)) for c in chunks]
        rd = [[[fl.canon_model_value(v) for v in r[1]], r[2]] for r in reads]
        canonical = all(rr[0] == vals or all(v is None for v in vals) for rr, (i, vals) in zip(rd, case["recs"]))
        allnone = any(all(v is None for v in vals) for i, vals in case["recs"])
        return {"chunks": ch, "matches": [bool(m) for m in matches], "reads": rd,
                "file_elems": (None if not binary or felems == [-3] else reglib.model_elems(felems, True)),
                "fits": all(fits) and canonical and not allnone and all(c is not None for c in ch)}

    def in_domain(self, case, mobs):
        if not mobs["fits"]:
            return False
        if case["mode"] == "delim":
            for (i, vals), c in zip(case["recs"], mobs["chunks"]):
                d = case["defs"][i]["delim"]
                toks = c[:-1].split(d)
                if len(toks) != len(vals) + 1 or any(t != t.strip() for t in toks):
                    return False
        return True

    def compare(self, case, iobs, mobs):
        if "raised" in iobs:
            return "implementation raised %s" % iobs["raised"]
        for k in ("chunks", "matches", "reads", "file_elems"):
            if k == "file_elems" and iobs[k] is None:
                continue
            if iobs[k] != mobs[k]:
                return "%s: impl=%r model=%r" % (k, iobs[k], mobs[k])
        return None

    def oracle(self, case, obs):
        if "raised" in obs:
            return "write/read raised: %s" % obs["raised"]
        mode = case["mode"]
        if case.get("long"):
            case = dict(case, recs=[[i, [expand_value(v) for v in vals]] for i, vals in case["recs"]])
        chunks = [(c.encode("latin-1") if isinstance(c, str) else bytes(c)) for c in obs["chunks"]] if mode == "binary" else obs["chunks"]
        pos = 0
        for (i, vals), c, m, (data, tell) in zip(case["recs"], chunks, obs["matches"], obs["reads"]):
            rd = case["defs"][i]
            ident, digits = rd["ident"], rd["digits"]
            if not m:
                return "written register is not recognised by its own type's identifier test"
            if mode == "binary":
                if c[:digits] != ident.ljust(digits).encode():
                    return "identifier is not left-justified in the identifier columns"
                if len(c) != digits + sum(fd["size"] for fd in rd["fields"]):
                    return "binary record is not identifier-width plus field-width bytes"
            else:
                if not c.endswith("\n") or c.count("\n") != 1:
                    return "text register does not occupy exactly one line"
                if mode == "pos" and c[:digits] != ident.ljust(digits):
                    return "identifier is not left-justified in the identifier columns"
                if mode == "delim" and c[:-1].split(rd["delim"])[0] != ident:
                    return "identifier is not the first token"
            pos += len(c)
            if tell != pos:
                return "reading a register did not consume exactly what writing it produced (stream mis-aligned)"
            if data != vals:
                return "register data read back differ from the data written"
        if mode == "binary" and obs.get("file_elems") is not None:
            # file-level reading of the stream: when every record is recognised unambiguously by its own identifier in the
            # peek window, the typed elements are exactly the records, in order (nothing dropped, nothing mis-aligned)
            if self._clear(case):
                fe = obs["file_elems"]
                typed = None if fe == "budget" else [[e[0], e[1]] for e in fe if e[0] >= 0]
                if typed != [[i, vals] for i, vals in case["recs"]] or any(e[0] < 0 for e in fe):
                    # identifiers may still collide with data bytes; only flag when the per-record reads were all fine
                    ambiguous = False
                    stream = b"".join(chunks)
                    pos = 0
                    for (i, vals), c in zip(case["recs"], chunks):
                        # the peek window at this record's start may reach into the following records
                        peek = stream[pos: pos + self.LS].decode("latin-1")
                        pos += len(c)
                        first = next((j for j, rd in enumerate(case["defs"]) if rd["ident"] in peek[: rd["digits"]]), -1)
                        if first != i:
                            ambiguous = True
                    if not ambiguous:
                        return "reading the stream through RegisterFile.read does not return the written records (dropped or mis-aligned)"
        return None

    def _clear(self, case):
        """every type has a plain, non-empty identifier of its own that fits the peek window, and none occurs in another's"""
        idents = [rd["ident"] for rd in case["defs"]]
        return not any("ident_pat" in rd for rd in case["defs"]) and all(idents) and len(set(idents)) == len(idents) and all(len(i) <= self.LS for i in idents) and \
            not any(a != b and a in b.ljust(max(len(a), len(b))) for a in idents for b in idents) and \
            all(rd["digits"] <= self.LS for rd in case["defs"])

    def _data_collision(self, case, obs=None):
        """is some written record, by the property's own first-match rule on the peek window, claimed by another type
        (identifier text occurring in data columns)?  Then the stream is ambiguous and outside the clear case."""
        return False
