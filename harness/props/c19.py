"""C19 — version selection picks the latest declared version not after the request."""
import itertools

from ..framework import Check

KEYS = ["v1", "v10", "v2", "V2", ""]
REQUESTS = ["", "V", "V2", "V3", "v", "v1", "v10", "v15", "v2", "v3", "latest"]
FAMILIES = ["register", "block", "section"]


def family(fam):
    if fam == "register":
        from cfinterface.files.registerfile import RegisterFile
        return RegisterFile, "REGISTERS"
    if fam == "block":
        from cfinterface.files.blockfile import BlockFile
        return BlockFile, "BLOCKS"
    from cfinterface.files.sectionfile import SectionFile
    return SectionFile, "SECTIONS"


# ---- list slots of a class tree: ("a", i) = the own default list of class i, ("t", i, j) = the j-th declared entry of its table
def list_slots(classes):
    out = []
    for i, (_, act, tab) in enumerate(classes):
        if i == 0:
            continue                      # the framework base is never re-declared
        if act is not None:
            out.append(("a", i))
        for j in range(len(tab or [])):
            out.append(("t", i, j))
    return out


def get_slot(classes, s):
    return classes[s[1]][1] if s[0] == "a" else classes[s[1]][2][s[2]][1]


def put_slot(classes, s, v):
    if s[0] == "a":
        classes[s[1]][1] = v
    else:
        classes[s[1]][2][s[2]][1] = v


def _default_is_entry(cl, i, j):
    """class i's default list is the list declared for the j-th key (modulo the size) of the table it resolves to"""
    k = i
    while cl[k][2] is None:
        k = cl[k][0]
    t = cl[k][2]
    if not t:
        return []
    e = t[j % len(t)]
    cl[i][1] = e[1]
    return [(i, e[0])]


def arr_shared_default(cl):
    # parent, child, sibling and grandchild-with-table declared over ONE default list
    for i in (3, 4, 5):
        cl[i][1] = cl[1][1]
    return []


def arr_default_is_entry(cl):
    # LIST = _V1; VERSIONS = {"v1": _V1, ...}: first-declared key for the owner and the child, last-declared for the others
    return _default_is_entry(cl, 1, 0) + _default_is_entry(cl, 3, 0) + _default_is_entry(cl, 4, -1) + _default_is_entry(cl, 5, -1)


def arr_two_keys_one_list(cl):
    # two keys declared over one list, the default being the list of the last-declared key
    for i in (1, 4, 5):
        t = cl[i][2]
        if len(t) > 1:
            t[0][1] = t[1][1]
    return _default_is_entry(cl, 1, -1) + _default_is_entry(cl, 4, 0)


def arr_tables_over_same_lists(cl):
    # the sibling's and the grandchild's tables are declared over the owner's lists; their defaults are entries of the owner
    t1 = cl[1][2]
    for i in (4, 5):
        for j, e in enumerate(cl[i][2]):
            if t1:
                e[1] = t1[(j + i) % len(t1)][1]
    back = []
    if t1:
        cl[4][1] = t1[0][1]
        cl[3][1] = t1[-1][1]
        back = [(4, k) for k, x in cl[4][2] if x == t1[0][1]][:1]
    return back


ARRANGEMENTS = [arr_shared_default, arr_default_is_entry, arr_two_keys_one_list, arr_tables_over_same_lists]


def arrange(cl, arr):
    """re-binds list slots of the class tree in place; returns [(class, key whose list is that class's default)]"""
    return ARRANGEMENTS[arr](cl)


def sharing(classes):
    """which kinds of shared list objects a class tree declares (for the input distribution)"""
    kinds = set()
    acts = {}
    for i, (_, act, tab) in enumerate(classes):
        if i and act is not None:
            acts.setdefault(act, []).append(i)
    if any(len(v) > 1 for v in acts.values()):
        kinds.add("default_shared_between_classes")
    for i, (_, act, tab) in enumerate(classes):
        vals = [v for _, v in (tab or [])]
        if len(set(vals)) < len(vals):
            kinds.add("two_keys_one_list")
        if i and act is not None:
            k = i
            while classes[k][2] is None:
                k = classes[k][0]
            if act in [v for _, v in classes[k][2]]:
                kinds.add("default_is_entry_of_own_table")
            if any(act in [v for _, v in (t or [])] for j, (_, _, t) in enumerate(classes) if j != k):
                kinds.add("default_is_entry_of_other_table")
    seen = {}
    for i, (_, _, tab) in enumerate(classes):
        for _, v in (tab or []):
            seen.setdefault(v, set()).add(i)
    if any(len(x) > 1 for x in seen.values()):
        kinds.add("entry_shared_between_tables")
    return sorted(kinds)


# ---- how many components a declared list has: case["sizes"] = [[value id, n]...], every id not named there has ONE component
# (the model sees value ids only: which components a list holds plays no part in which list is selected)
def size_map(case):
    return {v: n for v, n in case.get("sizes") or []}


def components(v, n):
    """component indices of the list bound to value id v when it is declared with n components"""
    return [v + 1000 * j for j in range(n)]


def rep(v, sizes):
    """what the harness observes for the list of value id v: the id itself for a one-component list, 1 (= the framework's
    own empty list, the lists being compared by content) for an empty one, the component indices otherwise"""
    n = sizes.get(v, 1)
    return v if n == 1 else 1 if n == 0 else components(v, n)


def value_ids(classes):
    out = []
    for i, (_, act, tab) in enumerate(classes):
        if i == 0:
            continue
        for v in ([act] if act is not None else []) + [v for _, v in (tab or [])]:
            if v not in out:
                out.append(v)
    return out


class CHECK(Check):
    pid = "C19"
    entry = "C19"
    theorems = ["C19_select", "C19_max_le_spec", "C19_perm", "C19_isolation", "C19_isolation_parent"]
    rule = ("class trees (framework base + 4 user classes: table owner, child without own list, child with own "
            "list, sibling with its own table) x version tables = every subset of the key alphabet "
            "{v1,v10,v2,V2,''} in every declaration order x request strings below/between/equal/above the keys x "
            "1-4 successive selections on any user class x three file families; a case is non-trivial when at "
            "least one selection changes an active list; distinct = distinct case hash"
            " Later additions: the empty string as a version key; one list object bound under several names (the "
            "default list of a class is the list declared for one of its keys, two keys declared over one list, "
            "parent/child/sibling classes declared over one shared default list, tables of different classes declared "
            "over the same lists), in four fixed arrangements x every small table x every request followed by the "
            "re-selection of the default's key, and as a random re-binding of 1-4 of the list slots before 2-5 "
            "selections biased towards re-selecting on the same class with requests equal to declared keys."
            " Declared lists of 0, 2 or 3 components besides the one-component lists (a format generation that models "
            "no component at all declares the empty list): every table of 1-3 keys x each key in turn (and the class "
            "default) declared over an empty list x every request after an earlier selection of the greatest key, and "
            "in a third of the random sequences / re-bindings 1-3 of the declared lists get 0, 2 or 3 components; the "
            "register family reads a file holding one line per component with every class after the selections.")
    exhaustive = False
    assumptions = ["Python attribute lookup on classes (MRO of single inheritance) is modelled, not verified"]

    # a case: {fam, classes:[[parent|None, active|None, table|None]...], ops:[[cls, v]...]}; class 0 is the framework base
    def gen(self, tier, rng):
        tables = []
        for k in range(0, len(KEYS) + 1):
            for sub in itertools.permutations(KEYS, k):
                tables.append(list(sub))
        vid = itertools.count(100)

        def mk(table_keys, sib_keys):
            t1 = [[k, next(vid)] for k in table_keys]
            t4 = [[k, next(vid)] for k in sib_keys]
            t5 = [[k, next(vid)] for k in (sib_keys if len(sib_keys) == len(table_keys) else list(reversed(KEYS))[: len(table_keys)])]
            return [
                [None, 1, []],            # framework base: REGISTERS=[], VERSIONS={}
                [0, 2, t1],               # owner of the table
                [1, None, None],          # child inheriting everything
                [1, 3, None],             # child with its own active list
                [0, 4, t4],               # sibling with its own table
                [1, 5, t5],               # child of the owner with its OWN table (as many keys as the owner's, other keys)
            ]

        def with_sizes(case):
            # a third of the random cases: 1-3 of the declared lists have no, two or three components
            if rng.random() < 0.34:
                ids = value_ids(case["classes"])
                picked = rng.sample(ids, min(len(ids), rng.randint(1, 3)))
                case["sizes"] = [[v, rng.choice([0, 0, 0, 2, 3])] for v in sorted(picked)]
            return case

        # complete enumeration: every table x every request x every target class, one selection
        for fi, fam in enumerate(FAMILIES):
            for ti, tk in enumerate(tables):
                if tier == "quick" and ((ti + fi) % 3 != 0 and len(tk) > 2 or (len(tk) > 3 and (ti + fi) % 15 != 0)):
                    continue
                for v in REQUESTS:
                    for target in (1, 2, 3):
                        yield {"fam": fam, "classes": mk(tk, ["v1", "v2"]), "ops": [[target, v]]}
        # sequences
        n = 1500 if tier == "quick" else 30000
        for _ in range(n):
            tk = rng.choice(tables)
            sk = rng.choice(tables)
            ops = [[rng.choice([1, 2, 3, 4, 5, 5]), rng.choice(REQUESTS)] for _ in range(rng.randint(2, 4))]
            cl = mk(tk, sk)
            yield with_sizes({"fam": rng.choice(FAMILIES), "classes": cl, "ops": ops})

        # ---- one list object bound under several names ------------------------------------------------------------
        # (value ids are list objects on the implementation side: equal ids = the very same list object, see impl)
        # fixed arrangements, small tables, every request; the second selection asks for the key whose list was the default
        small = [t for t in tables if 1 <= len(t) <= 2]
        for fi, fam in enumerate(FAMILIES):
            for ti, tk in enumerate(small):
                for vi, v in enumerate(REQUESTS):
                    for arr in range(len(ARRANGEMENTS)):
                        for target in (1, 2, 3, 4, 5):
                            if tier == "quick" and (arr != (ti + vi + fi) % len(ARRANGEMENTS) or target != 1 + (ti + 2 * vi + fi) % 5):
                                continue
                            cl = mk(tk, tk[::-1] if len(tk) > 1 else ["v1", "v2"])
                            back = arrange(cl, arr)
                            ops = [[target, v]]
                            for c, k in back:
                                if c == target or (target == 2 and c == 1):
                                    ops.append([target, k])
                            ops.append([1 if target != 1 else 4, v])
                            yield {"fam": fam, "classes": cl, "ops": ops}
        # random re-binding of list slots, then sequences that tend to come back to the same class with declared keys
        n = 1200 if tier == "quick" else 12000
        for _ in range(n):
            cl = mk(rng.choice(tables), rng.choice(tables))
            slots = list_slots(cl)
            for _ in range(rng.randint(1, 4)):
                a, b = rng.choice(slots), rng.choice(slots)
                put_slot(cl, a, get_slot(cl, b))
            ops = []
            for _ in range(rng.randint(2, 5)):
                c = ops[-1][0] if ops and rng.random() < 0.5 else rng.choice([1, 1, 2, 3, 4, 5, 5])
                keys = [k for _, _, t in cl if t for k, _ in t]
                v = rng.choice(keys) if keys and rng.random() < 0.6 else rng.choice(REQUESTS)
                ops.append([c, v])
            yield with_sizes({"fam": rng.choice(FAMILIES), "classes": cl, "ops": ops})

        # ---- declared lists that do not have exactly one component -----------------------------------------------
        # every table of 1-3 keys, each declared list in turn (slot -1: the owner's default) empty / of two components,
        # the greatest key selected first, then every request, on the owner, the inheriting child and the child with a list
        few = [t for t in tables if 1 <= len(t) <= 3]
        n = 0
        for fi, fam in enumerate(FAMILIES):
            for ti, tk in enumerate(few):
                for slot in range(-1, len(tk)):
                    for vi, v in enumerate(REQUESTS):
                        for target in (1, 2, 3):
                            for size in (0, 2):
                                n += 1
                                if tier == "quick" and (n + ti) % 41 != 0:
                                    continue
                                cl = mk(tk, ["v1", "v2"])
                                which = cl[1][1] if slot < 0 else cl[1][2][slot][1]
                                other = [x for _, x in cl[1][2] if x != which]
                                sizes = [[which, size]] + ([[other[(ti + vi) % len(other)], 2 - size]] if other and (ti + vi) % 3 == 0 else [])
                                yield {"fam": fam, "classes": cl, "sizes": sizes, "ops": [[target, max(tk)], [target, v]]}

    def impl(self, case):
        base, attr = family(case["fam"])
        objs = {}
        sizes = size_map(case)
        if case["fam"] != "register":
            for v, n in sizes.items():
                objs[v] = components(v, n)
        if case["fam"] == "register":
            # real component lists: value id v is the list [register class with identifier "V<v>"], so that File.read
            # with the selected list can be observed too
            from .. import reglib
            ids = set([1, 2, 3, 4, 5] + [a for _, a, _ in case["classes"] if a is not None] + [v for _, _, t in case["classes"] if t for _, v in t])
            mkrc = lambda x: reglib.mk_register_class({"ident": "V%d;" % x, "digits": len("V%d;" % x), "fields": [{"k": "lit", "size": 3, "start": 6}]}, x)
            for v in ids:
                objs[v] = [mkrc(x) for x in components(v, sizes.get(v, 1))]
        classes = [base]
        for i, (par, act, tab) in enumerate(case["classes"]):
            if i == 0:
                continue
            ns = {}
            if act is not None:
                ns[attr] = objs.setdefault(act, [act])
            if tab is not None:
                ns["VERSIONS"] = {k: objs.setdefault(v, [v]) for k, v in tab}
            classes.append(type("K%d" % i, (classes[par],), ns))
        base_before = (getattr(base, attr), dict(base.VERSIONS))
        trace = []
        for c, v in case["ops"]:
            classes[c].set_version("".join(list(v)))      # equal to, but never the same object as, a key of the table
            trace.append([self.ident_of(getattr(k, attr)) for k in classes])
        if (getattr(base, attr), dict(base.VERSIONS)) != base_before or getattr(base, attr) != []:
            return {"error": "framework base class modified"}
        out = {"trace": trace}
        if case["fam"] == "register":
            content = "".join("V%d; x\n" % x for x in sorted(set(list(objs) + [x for v in objs for x in components(v, sizes.get(v, 1))])))
            reads = []
            for k in classes[1:]:
                f = k.read(content)
                typed = [getattr(type(e), "_verif_idx", None) for e in f.data if getattr(type(e), "_verif_idx", None) is not None]
                reads.append(typed)
            out["reads"] = reads
        return out

    @staticmethod
    def ident_of(lst):
        if not lst:
            return 1
        one = lambda x: x if isinstance(x, int) else getattr(x, "_verif_idx", -1)
        if len(lst) > 1:
            return [one(x) for x in lst]          # never a declared list: every declared list has one component
        return one(lst[0])

    def model_arg(self, case):
        cls = [[[] if p is None else [p], [] if a is None else [a],
                [] if t is None else [[[k, v] for k, v in t]]] for p, a, t in case["classes"]]
        # the model returns only the final state: one run per prefix
        return [[cls, case["ops"][: i + 1]] for i in range(len(case["ops"]))]

    entry = "C19seq"

    def model_obs(self, case, res):
        sizes = size_map(case)
        ids = [[x[0] if x else None for x in step] for step in res]
        out = {"trace": [[rep(v, sizes) for v in step] for step in ids]}
        if case["fam"] == "register":
            out["reads"] = [components(v, sizes.get(v, 1)) for v in ids[-1][1:]]
        return out

    def oracle(self, case, obs):
        if "trace" not in obs:
            return "exception or framework class modified: %s" % (obs,)
        cl = case["classes"]
        own = [a for _, a, _ in cl]
        sizes = size_map(case)

        def resolve(i, what):
            while True:
                v = own[i] if what == "a" else cl[i][2]
                if v is not None:
                    return v
                i = cl[i][0]

        def descends(i, c):
            while i is not None:
                if i == c:
                    return True
                i = cl[i][0]
            return False

        for (c, v), got in zip(case["ops"], obs["trace"]):
            before = [resolve(i, "a") for i in range(len(cl))]
            tab = dict(resolve(c, "t"))
            le = [k for k in tab if k <= v]
            if le:
                own[c] = tab[max(le)]
            exp_c = rep(resolve(c, "a"), sizes)
            if got[c] != exp_c:
                return "selected class: active list %r, expected %r (table keys %r, request %r)" % (got[c], exp_c, list(tab), v)
            for i in range(len(cl)):
                if not descends(i, c) and got[i] != rep(before[i], sizes):
                    return "selection on class %d changed class %d (parent or sibling)" % (c, i)
        if "reads" in obs:
            # the file holds one line per component, in increasing component index: the lines recognised are those of the
            # components of the active list
            for i, typed in enumerate(obs["reads"]):
                act = resolve(i + 1, "a")
                if typed != components(act, sizes.get(act, 1)):
                    return "File.read does not use the selected component list"
        return None

    def nontrivial(self, case, obs):
        t = obs.get("trace") if isinstance(obs, dict) else None
        if not t:
            return False
        init = [None] * 6
        return any(step != t[0] for step in t) or any(case["classes"][c][2] or case["classes"][1][2] for c, _ in case["ops"])

    def classify(self, case):
        d = {"ops_%d" % len(case["ops"]): 1, "table_size_%d" % len(case["classes"][1][2]): 1, "fam_" + case["fam"]: 1}
        kinds = sharing(case["classes"])
        d["lists_all_separate_objects" if not kinds else "lists_shared_objects"] = 1
        for k in kinds:
            d["shared_" + k] = 1
        ns = sorted(set(n for _, n in case.get("sizes") or []))
        d["lists_all_of_one_component" if not ns else "lists_of_other_sizes"] = 1
        for n in ns:
            d["declares_list_of_%d_components" % n] = 1
        return d

    def signature(self, case, why):
        return why.split(":")[0]

    def shrink(self, case):
        if len(case["ops"]) > 1:
            for i in range(len(case["ops"])):
                c = dict(case)
                c["ops"] = case["ops"][:i] + case["ops"][i + 1:]
                yield c
        # give a slot that shares its list with another slot a list object of its own again
        import copy
        slots = list_slots(case["classes"])
        vals = [get_slot(case["classes"], s) for s in slots]
        used = set(vals) | set(a for _, a, _ in case["classes"] if a is not None)
        fresh = min(x for x in range(6, 8 + len(used)) if x not in used)
        for s, v in zip(slots, vals):
            if vals.count(v) > 1:
                c = dict(case)
                c["classes"] = copy.deepcopy(case["classes"])
                put_slot(c["classes"], s, fresh)
                yield c
        # give a list that has no or several components one component again
        for j in range(len(case.get("sizes") or [])):
            c = dict(case)
            c["sizes"] = case["sizes"][:j] + case["sizes"][j + 1:]
            yield c
        # drop a declared version
        for i, (_, _, tab) in enumerate(case["classes"]):
            for j in range(len(tab or [])):
                c = dict(case)
                c["classes"] = copy.deepcopy(case["classes"])
                del c["classes"][i][2][j]
                yield c

    def neighbours(self, case, rng):
        for v in REQUESTS:
            for t in (1, 2, 3, 4):
                c = dict(case)
                c["ops"] = [[t, v]]
                yield c
