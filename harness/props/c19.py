"""C19 — version selection picks the latest declared version not after the request."""
import itertools

from ..framework import Check

KEYS = ["v1", "v10", "v2", "V2", ""]
REQUESTS = ["", "V", "V2", "V3", "v", "v1", "v10", "v15", "v2", "v3", "latest"]
FAMILIES = ["register", "block", "section"]


def family(fam):
    if fam == "register":
        from cfinterface.files.registerfile import RegisterFile
        return RegisterFile, "REGISTERS"
    if fam == "block":
        from cfinterface.files.blockfile import BlockFile
        return BlockFile, "BLOCKS"
    from cfinterface.files.sectionfile import SectionFile
    return SectionFile, "SECTIONS"


class CHECK(Check):
    pid = "C19"
    entry = "C19"
    theorems = ["C19_select", "C19_max_le_spec", "C19_perm", "C19_isolation", "C19_isolation_parent"]
    rule = ("class trees (framework base + 4 user classes: table owner, child without own list, child with own "
            "list, sibling with its own table) x version tables = every subset of the key alphabet "
            "{v1,v10,v2,V2,''} in every declaration order x request strings below/between/equal/above the keys x "
            "1-4 successive selections on any user class x three file families; a case is non-trivial when at "
            "least one selection changes an active list; distinct = distinct case hash"
            " Later additions: the empty string as a version key.")
    exhaustive = False
    assumptions = ["Python attribute lookup on classes (MRO of single inheritance) is modelled, not verified"]

    # a case: {fam, classes:[[parent|None, active|None, table|None]...], ops:[[cls, v]...]}; class 0 is the framework base
    def gen(self, tier, rng):
        tables = []
        for k in range(0, len(KEYS) + 1):
            for sub in itertools.permutations(KEYS, k):
                tables.append(list(sub))
        vid = itertools.count(100)

        def mk(table_keys, sib_keys):
            t1 = [[k, next(vid)] for k in table_keys]
            t4 = [[k, next(vid)] for k in sib_keys]
            t5 = [[k, next(vid)] for k in (sib_keys if len(sib_keys) == len(table_keys) else list(reversed(KEYS))[: len(table_keys)])]
            return [
                [None, 1, []],            # framework base: REGISTERS=[], VERSIONS={}
                [0, 2, t1],               # owner of the table
                [1, None, None],          # child inheriting everything
                [1, 3, None],             # child with its own active list
                [0, 4, t4],               # sibling with its own table
                [1, 5, t5],               # child of the owner with its OWN table (as many keys as the owner's, other keys)
            ]

        # complete enumeration: every table x every request x every target class, one selection
        for fi, fam in enumerate(FAMILIES):
            for ti, tk in enumerate(tables):
                if tier == "quick" and ((ti + fi) % 3 != 0 and len(tk) > 2 or (len(tk) > 3 and (ti + fi) % 15 != 0)):
                    continue
                for v in REQUESTS:
                    for target in (1, 2, 3):
                        yield {"fam": fam, "classes": mk(tk, ["v1", "v2"]), "ops": [[target, v]]}
        # sequences
        n = 1500 if tier == "quick" else 30000
        for _ in range(n):
            tk = rng.choice(tables)
            sk = rng.choice(tables)
            ops = [[rng.choice([1, 2, 3, 4, 5, 5]), rng.choice(REQUESTS)] for _ in range(rng.randint(2, 4))]
            yield {"fam": rng.choice(FAMILIES), "classes": mk(tk, sk), "ops": ops}

    def impl(self, case):
        base, attr = family(case["fam"])
        objs = {}
        if case["fam"] == "register":
            # real component lists: value id v is the list [register class with identifier "V<v>"], so that File.read
            # with the selected list can be observed too
            from .. import reglib
            ids = set([1, 2, 3, 4, 5] + [v for _, _, t in case["classes"] if t for _, v in t])
            for v in ids:
                rc = reglib.mk_register_class({"ident": "V%d;" % v, "digits": len("V%d;" % v), "fields": [{"k": "lit", "size": 3, "start": 6}]}, v)
                lst = [rc]
                objs[v] = lst
        classes = [base]
        for i, (par, act, tab) in enumerate(case["classes"]):
            if i == 0:
                continue
            ns = {}
            if act is not None:
                ns[attr] = objs.setdefault(act, [act])
            if tab is not None:
                ns["VERSIONS"] = {k: objs.setdefault(v, [v]) for k, v in tab}
            classes.append(type("K%d" % i, (classes[par],), ns))
        base_before = (getattr(base, attr), dict(base.VERSIONS))
        trace = []
        for c, v in case["ops"]:
            classes[c].set_version("".join(list(v)))      # equal to, but never the same object as, a key of the table
            trace.append([self.ident_of(getattr(k, attr)) for k in classes])
        if (getattr(base, attr), dict(base.VERSIONS)) != base_before or getattr(base, attr) != []:
            return {"error": "framework base class modified"}
        out = {"trace": trace}
        if case["fam"] == "register":
            content = "".join("V%d; x\n" % v for v in sorted(objs))
            reads = []
            for k in classes[1:]:
                f = k.read(content)
                typed = [getattr(type(e), "_verif_idx", None) for e in f.data if getattr(type(e), "_verif_idx", None) is not None]
                reads.append(typed)
            out["reads"] = reads
        return out

    @staticmethod
    def ident_of(lst):
        if not lst:
            return 1
        x = lst[0]
        return x if isinstance(x, int) else getattr(x, "_verif_idx", -1)

    def model_arg(self, case):
        cls = [[[] if p is None else [p], [] if a is None else [a],
                [] if t is None else [[[k, v] for k, v in t]]] for p, a, t in case["classes"]]
        # the model returns only the final state: one run per prefix
        return [[cls, case["ops"][: i + 1]] for i in range(len(case["ops"]))]

    entry = "C19seq"

    def model_obs(self, case, res):
        tr = [[x[0] if x else None for x in step] for step in res]
        out = {"trace": tr}
        if case["fam"] == "register":
            out["reads"] = [[v] for v in tr[-1][1:]]
        return out

    def oracle(self, case, obs):
        if "trace" not in obs:
            return "exception or framework class modified: %s" % (obs,)
        cl = case["classes"]
        own = [a for _, a, _ in cl]

        def resolve(i, what):
            while True:
                v = own[i] if what == "a" else cl[i][2]
                if v is not None:
                    return v
                i = cl[i][0]

        def descends(i, c):
            while i is not None:
                if i == c:
                    return True
                i = cl[i][0]
            return False

        for (c, v), got in zip(case["ops"], obs["trace"]):
            before = [resolve(i, "a") for i in range(len(cl))]
            tab = dict(resolve(c, "t"))
            le = [k for k in tab if k <= v]
            if le:
                own[c] = tab[max(le)]
            exp_c = resolve(c, "a")
            if got[c] != exp_c:
                return "selected class: active list %r, expected %r (table keys %r, request %r)" % (got[c], exp_c, list(tab), v)
            for i in range(len(cl)):
                if not descends(i, c) and got[i] != before[i]:
                    return "selection on class %d changed class %d (parent or sibling)" % (c, i)
        if "reads" in obs:
            final = obs["trace"][-1]
            for i, typed in enumerate(obs["reads"]):
                if typed != [final[i + 1]]:
                    return "File.read does not use the selected component list"
        return None

    def nontrivial(self, case, obs):
        t = obs.get("trace") if isinstance(obs, dict) else None
        if not t:
            return False
        init = [None] * 6
        return any(step != t[0] for step in t) or any(case["classes"][c][2] or case["classes"][1][2] for c, _ in case["ops"])

    def classify(self, case):
        return {"ops_%d" % len(case["ops"]): 1, "table_size_%d" % len(case["classes"][1][2]): 1, "fam_" + case["fam"]: 1}

    def signature(self, case, why):
        return why.split(":")[0]

    def shrink(self, case):
        if len(case["ops"]) > 1:
            for i in range(len(case["ops"])):
                c = dict(case)
                c["ops"] = case["ops"][:i] + case["ops"][i + 1:]
                yield c

    def neighbours(self, case, rng):
        for v in REQUESTS:
            for t in (1, 2, 3, 4):
                c = dict(case)
                c["ops"] = [[t, v]]
                yield c
