"""C18 — reading terminates: every step consumes input."""
import io

from ..framework import Check
from .. import blocklib as bl, reglib, fieldlib as fl, lib
from .c10 import gen_defs


class CHECK(Check):
    pid = "C18"
    entry = "REGFILE"
    theorems = ["C18_generic_progress", "C18_text_register", "C18_binary_register", "C18_block", "C18_section"]
    rule = ("contents x component lists x storage x file families, each read under a deterministic call budget "
            "c0 + c1*(len(content)+1) (a counter of Python call events, never wall-clock; a quarter of the cases are read through a file on disk instead of in-memory content): (a) register files, text: garbage, "
            "blank lines, lines matching nothing, every content of <=3 lines over a small pool; (b) register files, binary: "
            "every byte string of length <=3 over {ident byte, NUL, newline, 0xFF-free garbage} plus random strings with "
            "truncated records, for record layouts of 1-3 types and peek windows 1..identifier width; (c) block files, text "
            "and binary, (d) section files. Observed: completion within the budget and the number of elements created. "
            "non-trivial = non-empty content; distinct = hash"
            " Later additions: a catch-all register (empty identifier, zero-width window) in text files, class hierarchies, path reads; "
            "(e) reading histories over SHARED register classes: 1-3 register classes (positional or delimited Line, identifier "
            "window 0-4 incl. the Register base-class defaults: empty identifier, zero-width window) declared both in a text and in "
            "a binary file class; 0-2 earlier contents (records, rows of delimited tokens incl. rows whose tokens are all empty, "
            "blank lines, garbage, truncated binary records) are read through either file class before the measured read of "
            "either storage; every read of the history runs under its own budget and is judged, the measured one is also "
            "compared with the model (a read depends only on the content and the definitions). "
            "(f) the LINE of a shared register class may itself be declared with a storage (Line(..., storage=\"TEXT\"|\"BINARY\"), "
            "as a layout shared by the text and the binary flavour of a format is): in the small scope every list is also run with "
            "its LINEs declared BINARY/TEXT, among the random histories about half of the classes declare one, so that a class is "
            "read through a file class whose STORAGE differs from the storage its LINE declares; the reading is governed by the "
            "file's storage, hence the same model entry and the same bound. "
            "(g) how the reading arguments reach the library: File.read forwards *args and **kwargs to the reading loop and to every "
            "component's read, so the peek window of a register file is given positionally (as before) or by keyword "
            "(RegisterFile.read(content, linesize=n)): the binary small scope is run in both forms, among all other register-file "
            "reads (measured ones and every read of a history, text reads included, where the window is unused) about half pass it "
            "by keyword. The reading is the same function of the content either way: same model entry, same bound.")
    exhaustive = True

    def entry_of(self, case):
        return {"reg": "REGFILE", "block": "BLOCKFILE", "section": "SECTIONFILE"}[case["fam"]]

    def gen(self, tier, rng):
        """(g) the generated cases, plus the way the peek window is handed to RegisterFile.read ("kw": by keyword); the flag is drawn
        from a generator derived from the case, so that the main random stream is the one it was"""
        import random
        for case in self.gen_base(tier, rng):
            if case["fam"] != "reg":
                yield case
                continue
            if case.pop("small_binary_scope", False):
                yield case
                yield dict(case, kw=True)
                continue
            r4 = random.Random("C18 reading arguments %r" % (case,))
            for st in case.get("before", []):
                if r4.random() < 0.5:
                    st["kw"] = True
            if r4.random() < 0.5:
                case["kw"] = True
            yield case

    @staticmethod
    def call_read(F, arg, binary, linesize, kw):
        """RegisterFile.read with the peek window given positionally (binary reads; text reads pass none), or by keyword"""
        if kw:
            return F.read(arg, linesize=linesize)
        return F.read(arg, linesize) if binary else F.read(arg)

    def gen_base(self, tier, rng):
        import itertools, random
        r2 = random.Random(99)
        # (b) binary register files, complete small scope
        for _ in range(6):
            defs = gen_defs(r2, "binary")
            for d in defs:
                if d["ident"] == "":
                    d["ident"] = "Q"
                    d["digits"] = max(1, d["digits"])
            alpha = [defs[0]["ident"][:1] or "A", "\x00", "\n", "z", " "]
            for n in range(0, 4):
                for t in itertools.product(alpha, repeat=n):
                    for ls in (1, max(1, defs[0]["digits"])):
                        yield {"fam": "reg", "binary": True, "defs": defs, "linesize": ls, "content": "".join(t), "small_binary_scope": True}
        nb = 1200 if tier == "quick" else 30000
        for _ in range(nb):
            defs = gen_defs(rng, "binary")
            for d in defs:
                if d["ident"] == "":
                    d["ident"] = rng.choice("AQ")
                    d["digits"] = max(1, d["digits"])
            if rng.random() < 0.2:
                # a binary register whose Line object was declared with a delimiter (ignored by binary storage): it still consumes
                # its record, so the reading terminates
                rng.choice(defs)["delim"] = rng.choice([";", ","])
            width = defs[0]["digits"] + sum(f["size"] for f in defs[0]["fields"])
            parts = []
            for _ in range(rng.randint(0, 4)):
                k = rng.random()
                if k < 0.5:
                    d = rng.choice(defs)
                    w = d["digits"] + sum(f["size"] for f in d["fields"])
                    rec = d["ident"].ljust(d["digits"]) + "".join(chr(rng.randrange(0, 128)) for _ in range(w - d["digits"]))
                    parts.append(rec if rng.random() < 0.8 else rec[: rng.randint(0, len(rec))])
                else:
                    parts.append("".join(rng.choice("\x00\nz A\x7f") for _ in range(rng.randint(1, 5))))
            yield {"fam": "reg", "binary": True, "defs": defs, "linesize": rng.choice([1, defs[0]["digits"] or 1]), "content": "".join(parts)}
        # (a) text register files
        pool = ["", " ", "A", "garbage", "AB 12", "\t"]
        for _ in range(4):
            defs = reglib.gen_regdefs(r2, nmax=3, sci=False)
            for n in range(0, 4):
                for combo in itertools.product(pool, repeat=n):
                    for fin in ("\n", ""):
                        if n == 0 and fin == "":
                            continue
                        yield {"fam": "reg", "binary": False, "defs": defs, "linesize": 1, "content": "\n".join(combo) + (fin if n else "")}
        # (a') a catch-all register (the Register base-class defaults: empty identifier, zero-width window) matches every peek,
        # also the empty one at end of content: the loop must still stop there
        catch = {"ident": "", "digits": 0, "fields": [{"k": "lit", "size": 6, "start": 0}], "delim": None}
        for defs in ([catch], [{"ident": "A", "digits": 2, "fields": [{"k": "int", "size": 3, "start": 2}], "delim": None}, catch]):
            for n in range(0, 4):
                for combo in itertools.product(pool, repeat=n):
                    for fin in ("\n", ""):
                        if n == 0 and fin == "":
                            continue
                        yield {"fam": "reg", "binary": False, "defs": defs, "linesize": 1, "content": "\n".join(combo) + (fin if n else "")}
        # (c) blocks, (d) sections
        from .c12 import LINE_POOL as BL
        from .c13 import gen_secdefs, LINE_POOL as SL
        for _ in range(600 if tier == "quick" else 15000):
            if rng.random() < 0.5:
                binary = rng.random() < 0.4
                if binary:
                    bds = [{"begin": [[False, rng.choice("\x01\x02")]], "end": [[False, rng.choice("\x01\x02\x03")]]} for _ in range(rng.randint(1, 3))]
                    content = "".join(rng.choice("\x01\x02\x03a\n") for _ in range(rng.randint(0, 12)))
                else:
                    from .c12 import CHECK as C12
                    gen_re = rng.random() < 0.35     # regular expressions proper, incl. ones that match the empty string everywhere
                    bds = [{"begin": C12.text_pattern(rng, gen_re), "end": C12.text_pattern(rng, gen_re)} for _ in range(rng.randint(1, 3))]
                    lines = [rng.choice(BL) for _ in range(rng.randint(0, 8))]
                    content = "\n".join(lines) + rng.choice(["\n", ""])
                yield {"fam": "block", "binary": binary, "blocks": bds, "content": content}
            else:
                lines = [rng.choice(SL) for _ in range(rng.randint(0, 8))]
                yield {"fam": "section", "binary": False, "secs": gen_secdefs(rng, rng.random() < 0.35), "content": "\n".join(lines) + rng.choice(["\n", ""])}
        # (e) the same register classes (hence the same class-level Line and Field objects) declared in a text AND in a binary file
        # class, and a history: other contents read through either file class before the measured read (generated after the
        # older families so that their random stream is unchanged).
        # Complete small scope: every history of at most one earlier read over a small pool of contents of both storages
        lit = lambda size, start: {"k": "lit", "size": size, "start": start}
        num = lambda k, size, start: dict({"k": k, "size": size, "start": start}, **({"dd": 2, "fmt": "F", "sep": "."} if k == "float" else {}))
        areg = lambda delim: {"ident": "A", "digits": 2, "fields": [num("int", 4, 2), lit(3, 6)], "delim": delim}
        dflt = lambda digits, delim: {"ident": "", "digits": digits, "fields": [lit(3, digits), num("int", 4, digits + 3)], "delim": delim}
        for defs in ([dflt(0, ",")], [areg(";"), dflt(0, None)], [areg(None), dflt(0, "|")], [dflt(2, ";")], [areg(","), {"ident": "B", "digits": 1, "fields": [num("float", 8, 1)], "delim": ","}]):
            pool = [(False, ""), (False, "garbage\n"), (True, ""), (True, "z")]
            for d in defs:
                sep, nf = d["delim"] or ";", len(d["fields"])
                w = d["digits"] + sum(f["size"] for f in d["fields"])
                rec = (d["ident"].ljust(d["digits"]) + "12345678901234")[:w]
                pool += [(False, rec + "\n" + sep.join([d["ident"]] + ["12"] * nf)), (False, rec + "\n" + sep * nf + "\n"),
                         (True, rec + rec[: w // 2]), (True, sep * nf + rec)]
            # (f) the same scope once more with LINEs that declare a storage of their own (first class BINARY, the others TEXT)
            declared = [dict(d, line_storage="BINARY" if i == 0 else "TEXT") for i, d in enumerate(defs)]
            for ds in (defs, declared):
                for before in [None] + pool:
                    for binary, content in pool:
                        yield {"fam": "reg", "binary": binary, "defs": ds, "linesize": 1, "content": content,
                               "before": [] if before is None else [{"binary": before[0], "linesize": 1, "content": before[1]}]}
        # random: 1-3 generated classes, 0-2 earlier reads
        for _ in range(800 if tier == "quick" else 20000):
            defs = self.shared_defs(rng)
            steps = []
            for _ in range(rng.choice([0, 1, 1, 2]) + 1):
                binary = rng.random() < 0.5
                steps.append({"binary": binary, "linesize": rng.choice([1, defs[0]["digits"] or 1, 8]) if binary else 1,
                              "content": self.step_content(rng, defs, binary)})
            last = steps.pop()
            # (f) declared LINE storages, drawn from a generator derived from the case so that the main stream is left as it was
            r3 = random.Random("C18 declared line storage %r %r" % (defs, last))
            if r3.random() < 0.7:
                for d in defs:
                    st = r3.choice(["", "TEXT", "BINARY", "BINARY"])
                    if st:
                        d["line_storage"] = st
            yield {"fam": "reg", "binary": last["binary"], "defs": defs, "linesize": last["linesize"], "content": last["content"], "before": steps}

    @staticmethod
    def shared_defs(rng):
        """1-3 register definitions whose fields are valid in both storages; any of them may declare a delimiter (used by the
        text storage, ignored by the binary one); half of the lists hold a register that keeps the base-class identifier
        defaults (IDENTIFIER = "", IDENTIFIER_DIGITS = 0: it claims whatever the earlier ones do not)"""
        idents = rng.sample(["A", "AB", "X1", "Q", "Z9", "B"], rng.randint(1, 3))
        if rng.random() < 0.5:
            idents[rng.choice([-1, -1, 0])] = ""
        out = []
        for ident in idents:
            digits = rng.randint(len(ident), len(ident) + 2) if ident or rng.random() < 0.3 else 0
            fs = []
            pos = digits
            for _ in range(rng.randint(1, 3)):
                k = rng.choice(["lit", "lit", "int", "float"])
                if k == "lit":
                    fd = {"k": "lit", "size": rng.randint(1, 6), "start": pos}
                else:
                    fd = {"k": k, "size": rng.choice([2, 4, 8]), "start": pos}
                    if k == "float":
                        fd.update({"dd": 2, "fmt": "F", "sep": "."})
                fs.append(fd)
                pos += fd["size"]
            out.append({"ident": ident, "digits": digits, "fields": fs, "delim": rng.choice([None, None, ";", ",", "|", "\t"])})
        if len(out) > 1 and rng.random() < 0.2:
            out[-1]["parent"] = 0
        return out

    @staticmethod
    def step_content(rng, defs, binary):
        """one content of a history: records of the declared types (whole or truncated), rows of delimited tokens (tokens empty,
        blank, narrower or wider than the fields; rows that hold no value at all), blank lines and garbage"""
        parts = []
        for _ in range(rng.randint(0, 4)):
            d = rng.choice(defs)
            w = sum(f["size"] for f in d["fields"])
            k = rng.random()
            if k < 0.35:
                rec = d["ident"].ljust(d["digits"]) + "".join(rng.choice("ab 0123456789.-\x01z") for _ in range(w))
                parts.append(rec if binary or rng.random() < 0.8 else rec[: rng.randint(0, len(rec))])
            elif k < 0.7:
                sep = d["delim"] or rng.choice(";,|")
                if rng.random() < 0.5:
                    toks = [rng.choice(["", "", " "]) for _ in range(len(d["fields"]) + rng.choice([0, 1, 1, 2]))]
                else:
                    toks = [d["ident"]] + [rng.choice(["", " ", "ab", "12", "-3.5", "abcdefghij"]) for _ in range(rng.randint(0, len(d["fields"]) + 1))]
                parts.append(sep.join(toks))
            else:
                parts.append(rng.choice(["", " ", "A", "garbage", "\t", "\x00", "z\x7f"]) if binary else rng.choice(["", " ", "A", "garbage", "\t"]))
        if binary:
            return "".join(p + rng.choice(["", "", "\n"]) for p in parts)
        return "\n".join(parts) + (rng.choice(["\n", ""]) if parts else "")

    @staticmethod
    def mk_classes(defs):
        """reglib.mk_register_classes, except that a definition with "line_storage" declares its LINE with that storage
        (Line(fields, delimiter=..., storage=...)); the fields, the delimiter and the hierarchy are the same"""
        from cfinterface.components.line import Line
        out = []
        for i, rd in enumerate(defs):
            par = rd.get("parent")
            extra = None
            if rd.get("line_storage"):
                extra = {"LINE": Line([fl.mk_field(fd) for fd in rd["fields"]], delimiter=rd.get("delim"), storage=rd["line_storage"])}
            out.append(reglib.mk_register_class(rd, i, extra=extra, base=out[par] if par is not None and par < i else None))
        return out

    nonterminations = 0
    shrinking = False

    TMP = None

    def read_regfile(self, F, binary, content, linesize, kw=False):
        """one RegisterFile.read under its own call budget -> observation of that read"""
        content = content.encode("latin-1") if binary else content
        budget = 20000 + 1500 * (len(content) + 1)
        try:
            with lib.budget(budget):
                f = self.call_read(F, content, binary, linesize, kw)
                n = 0
                for _ in f.data:
                    n += 1
                    if n > len(content) + 20:
                        break
        except lib.BudgetExceeded:
            CHECK.nonterminations += 1
            return {"terminated": False}
        except UnicodeDecodeError:
            return {"terminated": True, "raised": "UnicodeDecodeError"}
        except Exception as e:
            return {"terminated": True, "raised": type(e).__name__ + ": " + str(e)[:80]}
        return {"terminated": True, "count": n - 1}

    def impl(self, case):
        # once many cases have exhausted their budget the verdict is clear; do not burn the budget thousands of times
        if CHECK.nonterminations >= (200 if CHECK.shrinking else 25):
            return {"terminated": True, "skipped_after_many_nonterminations": True}
        content = case["content"].encode("latin-1") if case["binary"] else case["content"]
        budget = 20000 + 1500 * (len(content) + 1)
        import os, hashlib
        via_path = int(hashlib.sha1(repr(case).encode()).hexdigest(), 16) % 4 == 0 and "\r" not in case["content"] and "\x00" not in case["content"]
        if via_path:
            d = os.path.join(lib.SCRATCH, "tmp_c18")
            os.makedirs(d, exist_ok=True)
            path = os.path.join(d, "in.dat")
            with open(path, "wb") as fh:
                fh.write(content if case["binary"] else content.encode("utf-8"))
            content_arg = path
        else:
            content_arg = content
        before = []
        if case["fam"] == "reg":
            # the register classes are built once per case; a history reads other contents through file classes of either storage
            # that declare these same classes (one file class per storage), each read under its own budget
            regs = self.mk_classes(case["defs"])
            fcls = {}
            for st in case.get("before", []):
                if st["binary"] not in fcls:
                    fcls[st["binary"]] = reglib.mk_file_class(regs, st["binary"])
                before.append(self.read_regfile(fcls[st["binary"]], st["binary"], st["content"], st["linesize"], st.get("kw", False)))
                if not before[-1]["terminated"]:
                    return {"terminated": False, "measured_read_not_run": True, "before": before}
            F = fcls.get(case["binary"]) or reglib.mk_file_class(regs, case["binary"])
        res = self.measured(case, content, content_arg, budget, F if case["fam"] == "reg" else None)
        if "before" in case:
            res["before"] = before
        return res

    def measured(self, case, content, content_arg, budget, F):
        try:
            with lib.budget(budget):
                if case["fam"] == "reg":
                    f = self.call_read(F, content_arg, case["binary"], case["linesize"], case.get("kw", False))
                elif case["fam"] == "block":
                    blocks = bl.mk_block_classes(case["blocks"], case["binary"])
                    f = bl.mk_blockfile_class(blocks, case["binary"]).read(content_arg)
                else:
                    secs = [bl.mk_section_class(sd, i) for i, sd in enumerate(case["secs"])]
                    f = bl.mk_sectionfile_class(secs).read(content_arg)
                n = 0
                for _ in f.data:
                    n += 1
                    if n > len(content) + 20:
                        break
        except lib.BudgetExceeded:
            CHECK.nonterminations += 1
            return {"terminated": False}
        except UnicodeDecodeError:
            return {"terminated": True, "raised": "UnicodeDecodeError"}
        except Exception as e:
            return {"terminated": True, "raised": type(e).__name__ + ": " + str(e)[:80]}
        return {"terminated": True, "count": n - 1}

    def model_arg(self, case, variant=0):
        if case["fam"] == "reg":
            return [variant, case["binary"], case["linesize"], [reglib.regdef_sx(rd) for rd in case["defs"]], 0, case["content"]]
        if case["fam"] == "block":
            return [variant, case["binary"], [[bl.pattern_sx(bd["begin"], case["binary"]), bl.pattern_sx(bd["end"], case["binary"])] for bd in case["blocks"]], case["content"]]
        return [[bl.secdef_sx(sd) for sd in case["secs"]], case["content"]]

    def model_obs(self, case, res):
        if res == [-3]:
            return {"terminated": False}
        return {"terminated": True, "count": len(res[0])}

    def compare(self, case, iobs, mobs):
        if "raised" in iobs or "skipped_after_many_nonterminations" in iobs:
            return None    # an exception is a termination; other properties cover what is raised
        # the model is a function of the content and the definitions: whatever was read before, the measured read must agree with it
        iobs = {k: v for k, v in iobs.items() if k != "before"}
        if iobs != mobs:
            return "impl=%r model=%r" % (iobs, mobs)
        return None

    def oracle(self, case, obs):
        if "skipped_after_many_nonterminations" in obs:
            return None
        # every read of a history is a reading of a finite content: each must terminate within the bound
        nb = len(case.get("before", []))
        for i, st in enumerate(case.get("before", [])):
            if i >= len(obs["before"]):
                return "the history stopped early without a non-terminating read"
            why = self.judge_read(case, st["binary"], st["content"], obs["before"][i])
            if why:
                return why + " [read (%d) of (%d) through the same register classes]" % (i + 1, nb + 1)
        if obs.get("measured_read_not_run"):
            return "the history stopped early without a non-terminating read"
        why = self.judge_read(case, case["binary"], case["content"], obs)
        if why and nb:
            return why + " [read (%d) of (%d) through the same register classes]" % (nb + 1, nb + 1)
        return why

    def judge_read(self, case, binary, c, obs):
        if not obs["terminated"]:
            return "reading did not terminate within the step budget (%s, %s storage)" % (case["fam"], "binary" if binary else "text")
        if "raised" in obs:
            return None
        bound = len(c) if binary else c.count("\n") + (1 if c and not c.endswith("\n") else 0)
        if case["fam"] == "section":
            bound += len(case["secs"])
        if obs["count"] > bound:
            return "more elements (%d) than lines/bytes of the content allow (%d)" % (obs["count"], bound)
        return None

    def nontrivial(self, case, obs):
        return len(case["content"]) > 0

    def classify(self, case):
        d = {"fam_" + case["fam"]: 1, "binary" if case["binary"] else "text": 1, "len_%02d" % min(len(case["content"]), 30): 1}
        if case["fam"] == "reg":
            for st in case.get("before", []) + [case]:
                d["window_by_keyword" if st.get("kw") else "window_positional_or_default"] = 1
                if st.get("kw"):
                    d["window_by_keyword_%s_read" % ("binary" if st["binary"] else "text")] = 1
        if "before" in case:
            d["shared_register_classes"] = 1
            d["history_%d_earlier_reads" % len(case["before"])] = 1
            for st in case["before"]:
                d["earlier_%s_then_%s" % ("binary" if st["binary"] else "text", "binary" if case["binary"] else "text")] = 1
            if any(rd["ident"] == "" for rd in case["defs"]):
                d["shared_with_default_identifier"] = 1
            if any(rd.get("delim") for rd in case["defs"]):
                d["shared_with_delimited_line"] = 1
            decl = [rd["line_storage"] for rd in case["defs"] if rd.get("line_storage")]
            if decl:
                d["line_declares_storage"] = 1
                reads = [st["binary"] for st in case["before"]] + [case["binary"]]
                if any((s == "BINARY") != b for s in decl for b in reads):
                    d["line_storage_differs_from_file_storage"] = 1
                if any((s == "BINARY") != case["binary"] for s in decl):
                    d["line_declares_%s_read_as_%s" % ("binary" if not case["binary"] else "text", "binary" if case["binary"] else "text")] = 1
        return d

    def signature(self, case, why):
        import re
        return re.sub(r"\([0-9]+\)", "(#)", why)

    def shrink(self, case):
        CHECK.shrinking = True
        # the reading arguments handed over the default way
        if case.get("kw"):
            yield {k: v for k, v in case.items() if k != "kw"}
        for i, st in enumerate(case.get("before", [])):
            if st.get("kw"):
                c = dict(case)
                c["before"] = case["before"][:i] + [{k: v for k, v in st.items() if k != "kw"}] + case["before"][i + 1:]
                yield c
        # a history: fewer earlier reads, fewer register classes, no delimiter, shorter earlier contents
        bef = case.get("before", [])
        for i in range(len(bef)):
            c = dict(case)
            c["before"] = bef[:i] + bef[i + 1:]
            yield c
        if "before" in case:
            defs = case["defs"]
            if len(defs) > 1 and not any("parent" in rd for rd in defs):
                for i in range(len(defs)):
                    c = dict(case)
                    c["defs"] = defs[:i] + defs[i + 1:]
                    yield c
            for i, rd in enumerate(defs):
                for key in ("parent", "line_storage"):
                    if key in rd:
                        c = dict(case)
                        c["defs"] = defs[:i] + [{k: v for k, v in rd.items() if k != key}] + defs[i + 1:]
                        yield c
                if len(rd["fields"]) > 1:
                    # drop the last column (the columns before it keep their places)
                    last = max(range(len(rd["fields"])), key=lambda j: rd["fields"][j]["start"])
                    c = dict(case)
                    c["defs"] = defs[:i] + [dict(rd, fields=rd["fields"][:last] + rd["fields"][last + 1:])] + defs[i + 1:]
                    yield c
            for i, st in enumerate(bef):
                t = st["content"]
                cuts = [(a, b) for a in range(len(t)) for b in (len(t), a + 1) if b > a]
                for a, b in cuts[:60]:
                    c = dict(case)
                    c["before"] = bef[:i] + [dict(st, content=t[:a] + t[b:])] + bef[i + 1:]
                    yield c
        s = case["content"]
        for i in range(len(s)):
            c = dict(case)
            c["content"] = s[:i] + s[i + 1:]
            yield c

    def neighbours(self, case, rng):
        return []
