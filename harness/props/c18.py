"""C18 — reading terminates: every step consumes input."""
import io

from ..framework import Check
from .. import blocklib as bl, reglib, fieldlib as fl, lib
from .c10 import gen_defs


class CHECK(Check):
    pid = "C18"
    entry = "REGFILE"
    theorems = ["C18_generic_progress", "C18_text_register", "C18_binary_register", "C18_block", "C18_section"]
    rule = ("contents x component lists x storage x file families, each read under a deterministic call budget "
            "c0 + c1*(len(content)+1) (a counter of Python call events, never wall-clock; a quarter of the cases are read through a file on disk instead of in-memory content): (a) register files, text: garbage, "
            "blank lines, lines matching nothing, every content of <=3 lines over a small pool; (b) register files, binary: "
            "every byte string of length <=3 over {ident byte, NUL, newline, 0xFF-free garbage} plus random strings with "
            "truncated records, for record layouts of 1-3 types and peek windows 1..identifier width; (c) block files, text "
            "and binary, (d) section files. Observed: completion within the budget and the number of elements created. "
            "non-trivial = non-empty content; distinct = hash"
            " Later additions: a catch-all register (empty identifier, zero-width window) in text files, class hierarchies, path reads.")
    exhaustive = True

    def entry_of(self, case):
        return {"reg": "REGFILE", "block": "BLOCKFILE", "section": "SECTIONFILE"}[case["fam"]]

    def gen(self, tier, rng):
        import itertools, random
        r2 = random.Random(99)
        # (b) binary register files, complete small scope
        for _ in range(6):
            defs = gen_defs(r2, "binary")
            for d in defs:
                if d["ident"] == "":
                    d["ident"] = "Q"
                    d["digits"] = max(1, d["digits"])
            alpha = [defs[0]["ident"][:1] or "A", "\x00", "\n", "z", " "]
            for n in range(0, 4):
                for t in itertools.product(alpha, repeat=n):
                    for ls in (1, max(1, defs[0]["digits"])):
                        yield {"fam": "reg", "binary": True, "defs": defs, "linesize": ls, "content": "".join(t)}
        nb = 1200 if tier == "quick" else 30000
        for _ in range(nb):
            defs = gen_defs(rng, "binary")
            for d in defs:
                if d["ident"] == "":
                    d["ident"] = rng.choice("AQ")
                    d["digits"] = max(1, d["digits"])
            if rng.random() < 0.2:
                # a binary register whose Line object was declared with a delimiter (ignored by binary storage): it still consumes
                # its record, so the reading terminates
                rng.choice(defs)["delim"] = rng.choice([";", ","])
            width = defs[0]["digits"] + sum(f["size"] for f in defs[0]["fields"])
            parts = []
            for _ in range(rng.randint(0, 4)):
                k = rng.random()
                if k < 0.5:
                    d = rng.choice(defs)
                    w = d["digits"] + sum(f["size"] for f in d["fields"])
                    rec = d["ident"].ljust(d["digits"]) + "".join(chr(rng.randrange(0, 128)) for _ in range(w - d["digits"]))
                    parts.append(rec if rng.random() < 0.8 else rec[: rng.randint(0, len(rec))])
                else:
                    parts.append("".join(rng.choice("\x00\nz A\x7f") for _ in range(rng.randint(1, 5))))
            yield {"fam": "reg", "binary": True, "defs": defs, "linesize": rng.choice([1, defs[0]["digits"] or 1]), "content": "".join(parts)}
        # (a) text register files
        pool = ["", " ", "A", "garbage", "AB 12", "\t"]
        for _ in range(4):
            defs = reglib.gen_regdefs(r2, nmax=3, sci=False)
            for n in range(0, 4):
                for combo in itertools.product(pool, repeat=n):
                    for fin in ("\n", ""):
                        if n == 0 and fin == "":
                            continue
                        yield {"fam": "reg", "binary": False, "defs": defs, "linesize": 1, "content": "\n".join(combo) + (fin if n else "")}
        # (a') a catch-all register (the Register base-class defaults: empty identifier, zero-width window) matches every peek,
        # also the empty one at end of content: the loop must still stop there
        catch = {"ident": "", "digits": 0, "fields": [{"k": "lit", "size": 6, "start": 0}], "delim": None}
        for defs in ([catch], [{"ident": "A", "digits": 2, "fields": [{"k": "int", "size": 3, "start": 2}], "delim": None}, catch]):
            for n in range(0, 4):
                for combo in itertools.product(pool, repeat=n):
                    for fin in ("\n", ""):
                        if n == 0 and fin == "":
                            continue
                        yield {"fam": "reg", "binary": False, "defs": defs, "linesize": 1, "content": "\n".join(combo) + (fin if n else "")}
        # (c) blocks, (d) sections
        from .c12 import LINE_POOL as BL
        from .c13 import gen_secdefs, LINE_POOL as SL
        for _ in range(600 if tier == "quick" else 15000):
            if rng.random() < 0.5:
                binary = rng.random() < 0.4
                if binary:
                    bds = [{"begin": [[False, rng.choice("\x01\x02")]], "end": [[False, rng.choice("\x01\x02\x03")]]} for _ in range(rng.randint(1, 3))]
                    content = "".join(rng.choice("\x01\x02\x03a\n") for _ in range(rng.randint(0, 12)))
                else:
                    from .c12 import CHECK as C12
                    gen_re = rng.random() < 0.35     # regular expressions proper, incl. ones that match the empty string everywhere
                    bds = [{"begin": C12.text_pattern(rng, gen_re), "end": C12.text_pattern(rng, gen_re)} for _ in range(rng.randint(1, 3))]
                    lines = [rng.choice(BL) for _ in range(rng.randint(0, 8))]
                    content = "\n".join(lines) + rng.choice(["\n", ""])
                yield {"fam": "block", "binary": binary, "blocks": bds, "content": content}
            else:
                lines = [rng.choice(SL) for _ in range(rng.randint(0, 8))]
                yield {"fam": "section", "binary": False, "secs": gen_secdefs(rng, rng.random() < 0.35), "content": "\n".join(lines) + rng.choice(["\n", ""])}

    nonterminations = 0

    TMP = None

    def impl(self, case):
        # once many cases have exhausted their budget the verdict is clear; do not burn the budget thousands of times
        if CHECK.nonterminations >= 25:
            return {"terminated": True, "skipped_after_many_nonterminations": True}
        content = case["content"].encode("latin-1") if case["binary"] else case["content"]
        budget = 20000 + 1500 * (len(content) + 1)
        import os, hashlib
        via_path = int(hashlib.sha1(repr(case).encode()).hexdigest(), 16) % 4 == 0 and "\r" not in case["content"] and "\x00" not in case["content"]
        if via_path:
            d = os.path.join(lib.SCRATCH, "tmp_c18")
            os.makedirs(d, exist_ok=True)
            path = os.path.join(d, "in.dat")
            with open(path, "wb") as fh:
                fh.write(content if case["binary"] else content.encode("utf-8"))
            content_arg = path
        else:
            content_arg = content
        try:
            with lib.budget(budget):
                if case["fam"] == "reg":
                    regs = reglib.mk_register_classes(case["defs"])
                    F = reglib.mk_file_class(regs, case["binary"])
                    f = F.read(content_arg, case["linesize"]) if case["binary"] else F.read(content_arg)
                elif case["fam"] == "block":
                    blocks = bl.mk_block_classes(case["blocks"], case["binary"])
                    f = bl.mk_blockfile_class(blocks, case["binary"]).read(content_arg)
                else:
                    secs = [bl.mk_section_class(sd, i) for i, sd in enumerate(case["secs"])]
                    f = bl.mk_sectionfile_class(secs).read(content_arg)
                n = 0
                for _ in f.data:
                    n += 1
                    if n > len(content) + 20:
                        break
        except lib.BudgetExceeded:
            CHECK.nonterminations += 1
            return {"terminated": False}
        except UnicodeDecodeError:
            return {"terminated": True, "raised": "UnicodeDecodeError"}
        except Exception as e:
            return {"terminated": True, "raised": type(e).__name__ + ": " + str(e)[:80]}
        return {"terminated": True, "count": n - 1}

    def model_arg(self, case, variant=0):
        if case["fam"] == "reg":
            return [variant, case["binary"], case["linesize"], [reglib.regdef_sx(rd) for rd in case["defs"]], 0, case["content"]]
        if case["fam"] == "block":
            return [variant, case["binary"], [[bl.pattern_sx(bd["begin"], case["binary"]), bl.pattern_sx(bd["end"], case["binary"])] for bd in case["blocks"]], case["content"]]
        return [[bl.secdef_sx(sd) for sd in case["secs"]], case["content"]]

    def model_obs(self, case, res):
        if res == [-3]:
            return {"terminated": False}
        return {"terminated": True, "count": len(res[0])}

    def compare(self, case, iobs, mobs):
        if "raised" in iobs or "skipped_after_many_nonterminations" in iobs:
            return None    # an exception is a termination; other properties cover what is raised
        if iobs != mobs:
            return "impl=%r model=%r" % (iobs, mobs)
        return None

    def oracle(self, case, obs):
        if not obs["terminated"]:
            return "reading did not terminate within the step budget (%s, %s storage)" % (case["fam"], "binary" if case["binary"] else "text")
        if "raised" in obs or "skipped_after_many_nonterminations" in obs:
            return None
        c = case["content"]
        bound = len(c) if case["binary"] else c.count("\n") + (1 if c and not c.endswith("\n") else 0)
        if case["fam"] == "section":
            bound += len(case["secs"])
        if obs["count"] > bound:
            return "more elements (%d) than lines/bytes of the content allow (%d)" % (obs["count"], bound)
        return None

    def nontrivial(self, case, obs):
        return len(case["content"]) > 0

    def classify(self, case):
        return {"fam_" + case["fam"]: 1, "binary" if case["binary"] else "text": 1, "len_%02d" % min(len(case["content"]), 30): 1}

    def signature(self, case, why):
        import re
        return re.sub(r"\([0-9]+\)", "(#)", why)

    def shrink(self, case):
        s = case["content"]
        for i in range(len(s)):
            c = dict(case)
            c["content"] = s[:i] + s[i + 1:]
            yield c

    def neighbours(self, case, rng):
        return []
