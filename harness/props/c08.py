"""C08 — container queries and bulk removal select exactly the matching members."""
import itertools

from ..framework import Check
from .. import families, lib
from .c07 import ref_apply, valid_ops, observe, apply_op

# type indices: 0..3 = K0..K3 (K1 subclass of K0), 4 = family base class, 5 = Default* class
NT = 6
KEYS = ["p0", "p1", "p2"]


def isinst_row(cls):
    return [families.SUB[cls][t] for t in range(4)] + [1, 0]


def types_of(fam):
    F = families.get(fam)
    return families.elem_classes(fam) + [F["Base"], F["Default"]]


class CHECK(Check):
    pid = "C08"
    entry = "C08"
    theorems = ["C08_of_type", "C08_get", "C08_remove_keeps", "C08_remove_drops", "C08_remove_refines"]
    rule = ("containers (three families) whose members are instances of a 4-class hierarchy (K1 subclass of K0, K2, K3) "
            "with data drawn from two values so that value-equal duplicates (also of the first element) occur; "
            "(a) every container of <=3 (quick) / <=4 (thorough) members over 3 classes x 2 values x every requested "
            "type (4 classes, the family base, the default class) x filter dictionaries {} / matching / non-matching / None-valued before and after other keys / "
            "None-valued over 0-2 attributes x {of_type, get_*_of_type, remove_*_of_type}; (b) random containers of "
            "1-10 members with queries interleaved with structural operations. non-trivial = the query selects at "
            "least one but not all members, or bulk removal hits a match value-equal to the first; distinct = case hash"
            " Later additions: half of the cases use equal-but-distinct Python objects for member attributes and filter values (big ints, floats, run-time strings, int vs float); the NaN singleton as attribute and filter."
            " Live traversals (judged by the oracle only, outside the model's input language): an of_type(T) traversal is "
            "opened, and structural operations (prepend/append/add_before/add_after of fresh elements, remove of any member, the "
            "element last handed out and its neighbours included) run between its steps; (c) every single structural operation at "
            "every point of a traversal of every container of 2-4 members x 3 class patterns x 3 requested types; (d) random "
            "containers of 3-11 members with 2-12 pulls/operations per traversal, half of the operations aimed at the neighbourhood of the element "
            "last handed out. Judged by what both a lazy and an eager (snapshot) evaluation guarantee: members of the type during "
            "the whole traversal are handed out exactly once in container order, nothing is handed out that was not a member of "
            "the type at some moment of the traversal, the traversal terminates, the container afterwards is the reference list. "
            "Elements removed during a traversal are not re-inserted during the same traversal.")

    def gen(self, tier, rng):
        maxn = 3 if tier == "quick" else 4
        kinds = [(c, d) for c in (0, 1, 2) for d in (1, 2)]
        filters = [[], [[0, 1]], [[0, 2]], [[0, None]], [[0, 1], [1, 7]], [[0, 1], [1, None]], [[1, 9]],
                   [[0, None], [1, 9]], [[1, None], [0, 2]], [[2, None], [0, 1], [1, 7]]]
        fi = 0
        for n in range(1, maxn + 1):
            for combo in itertools.product(kinds, repeat=n):
                fi += 1
                fam = families.FAMILIES[fi % 3]
                elems = [[c, [d, 7, None]] for c, d in combo]
                build = [[1, i, 0] for i in range(1, n)]
                for t in range(NT):
                    for kw in filters:
                        for q in (5, 6, 7):
                            if q == 5 and kw:
                                continue
                            if q == 7 and n == 1 and isinst_row(elems[0][0])[t] and self.meets(elems[0], kw):
                                continue   # would remove the sole element (excluded call)
                            yield {"fam": fam, "elems": elems, "ops": build + [[q, t, kw]], "kind": "exh"}
        nrand = 1500 if tier == "quick" else 40000
        for _ in range(nrand):
            n = rng.randint(2, 11)
            # abstract value 6 is the NaN singleton (math.nan): members holding it and filters asking for it use the SAME object,
            # and it still equals nothing (nan != nan) -- an identity shortcut would wrongly match it
            elems = [[rng.choice([0, 0, 1, 1, 2, 3]), [rng.choice([1, 2]), rng.choice([7, 7, None, 6]), None]] for _ in range(n)]
            l = [0]
            ops = []
            pool = list(range(n))
            for _ in range(rng.randint(3, 14)):
                r = rng.random()
                if r < 0.55 and len(l) < n:
                    cand = [o for o in valid_ops(l, pool) if o[0] != 4]
                    op = rng.choice(cand)
                    l = ref_apply(l, op)
                elif r < 0.62 and len(l) > 1:
                    op = [4, rng.choice(l), 0]
                    l = ref_apply(l, op)
                else:
                    kw = rng.choice([[], [[0, rng.choice([1, 2, None])]], [[0, rng.choice([1, 2])], [1, rng.choice([7, None, 8, 6])]],
                                     [[0, rng.choice([None, 1])], [1, rng.choice([7, 8, 6])]], [[2, None], [1, rng.choice([7, 8, None])], [0, rng.choice([1, 2])]]])
                    op = [rng.choice([5, 6, 7, 7]), rng.randrange(NT), kw]
                    if op[0] == 5:
                        op[2] = []
                    if op[0] == 7:
                        # the reference outcome (property allows keeping the first element or not): follow the
                        # repaired-code specification for the remaining history
                        m = [x for x in l if isinst_row(elems[x][0])[op[1]] and self.meets(elems[x], op[2])]
                        if len(m) == 1:
                            if len(l) == 1:
                                continue
                            l = [x for x in l if x != m[0]]
                        elif len(m) > 1:
                            l = [x for x in l if x not in m or x == l[0]]
                ops.append(op)
            yield {"fam": rng.choice(families.FAMILIES), "elems": elems, "ops": ops, "kind": "random"}
        yield from self.gen_live(tier, rng)

    # ---- live traversals: structural operations between the steps of an open of_type(T) traversal
    def gen_live(self, tier, rng):
        # (c) one structural operation at every point of a traversal of a small container
        pats = [[0, 0, 0, 0, 0], [0, 2, 1, 2, 0], [1, 0, 2, 0, 1]]          # classes of members 0..n-1 and of the fresh element n
        fi = 0
        for n in range(2, 5):
            l = list(range(n))
            build = [[1, i, 0] for i in range(1, n)]
            for op in valid_ops(l, list(range(n + 1))):
                for p in range(n + 1):
                    for pat in pats:
                        for t in (0, 2, 4):
                            fi += 1
                            elems = [[pat[i], [1 + i % 2, 7, None]] for i in range(n + 1)]
                            yield {"fam": families.FAMILIES[fi % 3], "elems": elems, "kind": "live1",
                                   "ops": build + [[8, t, ["next"] * p + [op]]]}
        # (d) random traversals
        nrand = 500 if tier == "quick" else 20000
        for _ in range(nrand):
            n = rng.randint(3, 11)
            elems = [[rng.choice([0, 0, 1, 1, 2, 3]), [rng.choice([1, 2]), rng.choice([7, 7, None]), None]] for _ in range(n)]
            l = [0]
            ops = []
            pool = list(range(n))
            for _ in range(rng.randint(1, n - 1)):
                cand = [o for o in valid_ops(l, pool) if o[0] != 4]
                if len(l) >= n - 1 or not cand:
                    break
                op = rng.choice(cand)
                l = ref_apply(l, op)
                ops.append(op)
            if len(l) > 2 and rng.random() < 0.3:
                op = [4, rng.choice(l), 0]
                l = ref_apply(l, op)
                ops.append(op)
            for _ in range(rng.choice([1, 1, 2])):
                t = rng.choice([0, 0, 1, 2, 4, 4, rng.randrange(NT)])
                script, l = self.gen_script(rng, elems, l, pool, t)
                ops.append([8, t, script])
                if rng.random() < 0.4:
                    ops.append([rng.choice([5, 6]), rng.randrange(NT), []])
            yield {"fam": rng.choice(families.FAMILIES), "elems": elems, "ops": ops, "kind": "live"}

    @staticmethod
    def gen_script(rng, elems, l, pool, t):
        """a traversal script: "next" = one step of the traversal, [k, a, b] = a structural operation. The position the
        traversal has reached is followed (as a chain walk would) ONLY to aim half of the operations at its neighbourhood; the
        oracle does not use it."""
        script = []
        gone = set()          # removed during this traversal: not inserted again while it is open
        cur = None            # element last handed out
        after = {}            # successor of an element at the moment it was removed
        started = False
        for _ in range(rng.randint(2, 12)):
            if rng.random() < 0.5:
                script.append("next")
                if not started:
                    started, rest = True, list(l)
                else:
                    x = cur
                    while x is not None and x not in l:
                        x = after.get(x)
                    rest = [] if x is None else (l[l.index(x) + 1:] if x == cur else l[l.index(x):])
                nxt = [x for x in rest if isinst_row(elems[x][0])[t]]
                cur = nxt[0] if nxt else None
                continue
            cand = [o for o in valid_ops(l, [x for x in pool if x not in gone])]
            if not cand:
                continue
            if cur in l and rng.random() < 0.6:
                i = l.index(cur)
                near = set(l[max(0, i - 1): i + 2])
                aimed = [o for o in cand if (o[0] == 4 and o[1] in near) or (o[0] in (2, 3) and o[1] in near)]
                cand = aimed or cand
            rem = [o for o in cand if o[0] == 4]
            op = rng.choice(rem) if rem and rng.random() < 0.5 else rng.choice(cand)
            if op[0] == 4:
                gone.add(op[1])
                i = l.index(op[1])
                after[op[1]] = l[i + 1] if i + 1 < len(l) else None
            l = ref_apply(l, op)
            script.append(op)
        return script, l

    @staticmethod
    def legal(l, op, gone=()):
        """ValueError unless the structural operation is a legal call on the reference list l (only the shrinker produces others)"""
        k, a, b = op
        new = a if k <= 1 else (b if k <= 3 else None)
        if new is not None and (new in l or new in gone):
            raise ValueError("inserts a member, or an element removed during the open traversal")
        if k in (2, 3, 4) and a not in l:
            raise ValueError("names a non-member")
        if k == 4 and len(l) < 2:
            raise ValueError("removes the sole element")

    def comparable(self, case):
        # a traversal overlapping structural operations is outside the model's input language (its entry evaluates each query
        # on one state of the container): such cases are judged by the oracle only
        return not any(op[0] == 8 for op in case["ops"])

    @staticmethod
    def meets(elem, kw):
        for k, v in kw:
            if v is not None and (elem[1][k] != v or v == 6):      # 6 = NaN: equal to nothing, itself included
                return False
        return True

    @staticmethod
    def rich(v, fresh):
        """the Python object standing for abstract value v. Members and filters get EQUAL BUT DISTINCT objects (ints outside the
        small-int cache, floats, strings built at run time, an int filter against a float attribute): matching is by value"""
        if v is None:
            return None
        base = {1: 1001, 2: 1002, 7: 120.5, 8: (1001, 120.5, 1002), 9: "Nine"}.get(v, v)
        if isinstance(base, tuple):
            return tuple(list(base)) if fresh else base
        if not fresh:
            return base
        if isinstance(base, str):
            return "".join(list(base))
        if isinstance(base, float):
            return float(repr(base))
        return float(base) if v == 2 else int(str(base))

    def impl(self, case):
        F = families.get(case["fam"])
        T = types_of(case["fam"])
        import hashlib, json
        rich = int(hashlib.sha1(json.dumps(case, sort_keys=True).encode()).hexdigest(), 16) % 2 == 1
        import math
        mv = (lambda v: math.nan if v == 6 else self.rich(v, False)) if rich else (lambda v: math.nan if v == 6 else v)
        fv = (lambda v: math.nan if v == 6 else self.rich(v, True)) if rich else (lambda v: math.nan if v == 6 else v)
        elems = [T[c](data=[mv(x) for x in d]) for c, d in case["elems"]]
        ids = {id(e): i for i, e in enumerate(elems)}
        cap = len(elems) + 3
        c = F["Data"](elems[0])
        out = []
        for op in case["ops"]:
            try:
              with lib.budget(20000):
                if op[0] <= 4:
                    apply_op(c, elems, op)
                    out.append(observe(c, ids, cap))
                elif op[0] == 5:
                    out.append([ids.get(id(e), -9) for e in c.of_type(T[op[1]])])
                elif op[0] == 8:
                    g = c.of_type(T[op[1]])                 # the traversal is opened here ...
                    end = object()
                    steps, done = [], False
                    for it in op[2]:
                        if it == "next":
                            if done:
                                steps.append(-1)
                                continue
                            e = next(g, end)                # ... advanced one step at a time ...
                            done = e is end
                            steps.append(-1 if done else ids.get(id(e), -9))
                        else:
                            apply_op(c, elems, it)          # ... with structural operations in between ...
                            steps.append(None)
                    most = len(elems) + len(op[2]) + 3
                    rest = [] if done else [ids.get(id(e), -9) for e in itertools.islice(g, most)]   # ... and exhausted
                    out.append({"steps": steps, "rest": rest, "terminated": len(rest) < most, "state": observe(c, ids, cap)})
                elif op[0] == 6:
                    kw = {KEYS[k]: fv(v) for k, v in op[2]}
                    r = getattr(c, F["get"])(T[op[1]], **kw)
                    after = [ids.get(id(e), -9) for e in itertools.islice(iter(c), cap)]
                    if r is None:
                        out.append({"shape": [0], "after": after})
                    elif isinstance(r, list):
                        out.append({"shape": [2, [ids.get(id(e), -9) for e in r]], "after": after})
                    else:
                        out.append({"shape": [1, ids.get(id(r), -9)], "after": after})
                else:
                    kw = {KEYS[k]: fv(v) for k, v in op[2]}
                    getattr(c, F["remove"])(T[op[1]], **kw)
                    out.append(observe(c, ids, cap))
            except AttributeError:
                out.append("AttributeError")
                break
            except lib.BudgetExceeded:
                out.append("BudgetExceeded")
                break
        return out

    def model_arg(self, case, variant=0):
        elems = case["elems"]
        # value classes for the defective variants: same class and same data
        codes = {}
        vc = [codes.setdefault((c, tuple(d)), len(codes)) for c, d in elems]
        isi = [isinst_row(c) for c, d in elems]
        # NaN (6) is modelled as a value nobody else has: a different code per member, and one more for filters
        att = [[[] if v is None else [1000 + i if v == 6 else v] for v in d] for i, (c, d) in enumerate(elems)]
        ops = []
        for op in case["ops"]:
            if op[0] <= 4:
                ops.append(op)
            else:
                ops.append([op[0], op[1], [[k, [] if v is None else [999 if v == 6 else v]] for k, v in op[2]]])
        return [variant, vc, len(elems) + 3, isi, att, ops]

    def model_obs(self, case, res):
        out = []
        cap = len(case["elems"]) + 3
        cur = None
        for op, r in zip(case["ops"], res):
            if r == -2:
                out.append("AttributeError")
                break
            if op[0] <= 4 or op[0] == 7:
                fwd, back, root, head, links = r
                n = len(fwd)
                cur = fwd
                out.append({"fwd": fwd, "back": back, "first": root, "last": head, "links": links,
                            "flags": [[l[0] == -1, l[1] == -1] for l in links], "len": n if n < cap else -1,
                            "nested": n * n if n < cap else -1})
            elif op[0] == 5:
                out.append(r)
            else:
                out.append({"shape": r, "after": cur if cur is not None else [0]})
        return out

    def oracle(self, case, obs):
        try:
            return self._oracle(case, obs)
        except ValueError:
            return None   # not a legal history (only produced by the shrinker)

    def _oracle(self, case, obs):
        l = [0]
        elems = case["elems"]
        if not isinstance(obs, list):
            return "exception: %s" % (obs,)
        for i, op in enumerate(case["ops"]):
            if i >= len(obs) or obs[i] in ("AttributeError", "BudgetExceeded"):
                return "operation %d raised or did not terminate" % op[0]
            o = obs[i]
            if op[0] <= 4:
                if case["kind"].startswith("live"):
                    self.legal(l, op)
                l = ref_apply(l, op)
                if o["fwd"] != l or o["first"] != l[0] or o["last"] != l[-1] or o["back"] != l[::-1]:
                    return "structural operation broke the container (C07)"
                continue
            if op[0] == 8:
                why, l = self.judge_live(elems, l, op, o)
                if why:
                    return why
                continue
            t, kw = op[1], op[2]
            oft = [x for x in l if isinst_row(elems[x][0])[t]]
            m = [x for x in oft if self.meets(elems[x], kw)]
            if op[0] == 5:
                if o != oft:
                    return "of_type: not exactly the instances in container order"
            elif op[0] == 6:
                exp = [0] if not m else ([1, m[0]] if len(m) == 1 else [2, m])
                if o["shape"] != exp:
                    return "get_*_of_type: wrong selection or shape"
                if o["after"] != l:
                    return "get_*_of_type modified the container"
            else:
                after = o["fwd"]
                if o["len"] != len(after) or o["back"] != after[::-1] or (after and (o["first"] != after[0] or o["last"] != after[-1])):
                    return "bulk removal left a malformed container"
                left = [x for x in after if x in m and x != l[0]]
                if left:
                    return "bulk removal left a matching member that is not the first element"
                if [x for x in after if x not in m] != [x for x in l if x not in m]:
                    return "bulk removal dropped or reordered non-matching members"
                if any(x not in l for x in after) or len(set(after)) != len(after):
                    return "bulk removal produced foreign or duplicate members"
                if not after:
                    return "bulk removal emptied the container"
                l = after
        return None

    def judge_live(self, elems, l, op, o):
        """a traversal of of_type(T) that overlaps structural operations. The property does not say whether the traversal follows
        the live container or a snapshot taken when it is opened (or first advanced), so only what EVERY such reading
        guarantees is demanded. The window runs from the opening of the traversal to the step that reports its end."""
        t, script = op[1], op[2]
        if not isinstance(o, dict) or "steps" not in o or len(o["steps"]) != len(script):
            return "the traversal raised or did not terminate", l
        window = [list(l)]
        handed = []
        ended = False
        gone = set()
        for it, s in zip(script, o["steps"]):
            if it == "next":
                if ended:
                    continue
                if s == -1:
                    ended = True
                else:
                    handed.append(s)
            else:
                self.legal(l, it, gone)
                if it[0] == 4:
                    gone.add(it[1])
                l = ref_apply(l, it)
                if not ended:
                    window.append(list(l))
        if not ended:
            if not o["terminated"]:
                return "of_type: the traversal does not terminate", l
            handed = handed + o["rest"]
        ist = lambda x: 0 <= x < len(elems) and isinst_row(elems[x][0])[t]
        always = [x for x in window[0] if ist(x) and all(x in w for w in window)]
        ever = set(x for w in window for x in w if ist(x))
        if any(h not in ever for h in handed):
            return "of_type (operations during the traversal): handed out something that was not a member of the requested type at any moment of the traversal", l
        if any(handed.count(x) != 1 for x in always):
            return "of_type (operations during the traversal): a member of the requested type throughout the traversal was not handed out exactly once", l
        if [h for h in handed if h in always] != always:
            return "of_type (operations during the traversal): not in container order", l
        st = o["state"]
        if st["fwd"] != l or st["first"] != l[0] or st["last"] != l[-1] or st["back"] != l[::-1] or st["len"] != len(l):
            return "structural operation during a traversal broke the container (C07)", l
        return None, l

    def nontrivial(self, case, obs):
        l = [0]
        elems = case["elems"]
        nt = False
        for op in case["ops"]:
            if op[0] <= 4:
                l = ref_apply(l, op)
                continue
            if op[0] == 8:
                # an operation after the first step, and a member of the type that stays from the opening to the end
                sc = op[2]
                stay = [x for x in l if isinst_row(elems[x][0])[op[1]]]
                for j, it in enumerate(sc):
                    if it != "next":
                        l = ref_apply(l, it)
                        stay = [x for x in stay if x in l]
                        if "next" in sc[:j]:
                            nt = nt or bool(stay)
                continue
            m = [x for x in l if isinst_row(elems[x][0])[op[1]] and self.meets(elems[x], op[2])]
            if 0 < len(m) < len(l):
                nt = True
            if op[0] == 7:
                if len(m) == 1:
                    l = [x for x in l if x != m[0]]
                elif len(m) > 1:
                    l = [x for x in l if x not in m or x == l[0]]
        return nt

    def classify(self, case):
        d = {"kind_" + case["kind"]: 1, "fam_" + case["fam"]: 1, "members_%02d" % len(case["elems"]): 1}
        for op in case["ops"]:
            d["op_%d" % op[0]] = d.get("op_%d" % op[0], 0) + 1
            if op[0] == 8:
                for it in op[2]:
                    k = "live_step" if it == "next" else ("live_remove" if it[0] == 4 else "live_insert")
                    d[k] = d.get(k, 0) + 1
        return d

    def signature(self, case, why):
        return why

    def shrink(self, case):
        ops = case["ops"]
        if case["kind"].startswith("live"):
            # (illegal histories that arise are recognised by the oracle and not judged)
            for i in range(len(ops)):
                if any(o[0] == 8 for o in ops[:i] + ops[i + 1:]):
                    c = dict(case)
                    c["ops"] = ops[:i] + ops[i + 1:]
                    yield c
            for i, op in enumerate(ops):
                if op[0] == 8:
                    for j in range(len(op[2])):
                        c = dict(case)
                        c["ops"] = ops[:i] + [[8, op[1], op[2][:j] + op[2][j + 1:]]] + ops[i + 1:]
                        yield c
            return
        for i in range(len(ops) - 1):
            if ops[i][0] >= 5:
                c = dict(case)
                c["ops"] = ops[:i] + ops[i + 1:]
                yield c

    def neighbours(self, case, rng):
        for fam in families.FAMILIES:
            c = dict(case)
            c["fam"] = fam
            yield c
