"""C03 — reading a field is total, local to its span, and follows the declared format."""
import datetime
import itertools

from ..framework import Check
from .. import fieldlib as fl, dates

ALPHABET = "019+-.,eE_naif \t\n\x00٣"

FIELD_CONFIGS = [
    {"k": "int"}, {"k": "lit"},
    {"k": "float", "dd": 2, "fmt": "F", "sep": "."}, {"k": "float", "dd": 2, "fmt": "F", "sep": ","},
    {"k": "date", "formats": ["%m%d"]}, {"k": "date", "formats": ["%Y", "%d.%m"], "aslist": True},
]


def ref_interp(fd, span):
    """the property's reference interpretation of a str span, using Python's own primitives"""
    k = fd["k"]
    try:
        if k == "int":
            return fl.canon_value(int(span))
        if k == "lit":
            return fl.canon_value(span.strip())
        if k == "float":
            return fl.canon_value(float(span.replace(fd["sep"], ".")))
        for f in fd["formats"]:
            try:
                return fl.canon_value(datetime.datetime.strptime(span.strip(), f))
            except ValueError:
                pass
        return None
    except ValueError:
        return None


def ref_interp_bytes(fd, span):
    import struct
    k = fd["k"]
    n = fd["size"] if fd["size"] in (2, 4, 8) else 4
    try:
        if k == "int":
            if len(span) < n:
                return None
            return ["int", int.from_bytes(span[:n], "little", signed=True)]
        if k == "float":
            if len(span) < n:
                return None
            return fl.canon_value(struct.unpack("<" + {2: "e", 4: "f", 8: "d"}[n], span[:n])[0])
        s = span.decode("utf-8")
        if k == "lit":
            return ["str", s.strip()]
        for f in fd["formats"]:
            try:
                return fl.canon_value(datetime.datetime.strptime(s.strip(), f))
            except ValueError:
                pass
        return None
    except ValueError:
        return None


def eff(case):
    """the field definition with the span the field object HAS when it is read: a case may move the span after construction
    through the public starting_position / ending_position setters ("respan": [start or None, end or None]); the property
    speaks of the field's span [starting_position, ending_position), whatever size the field was declared with"""
    fd = case["fd"]
    rs = case.get("respan")
    if not rs:
        return fd
    s = fd["start"] if rs[0] is None else rs[0]
    e = fd["start"] + fd["size"] if rs[1] is None else rs[1]
    return dict(fd, start=s, size=e - s)


class CHECK(Check):
    pid = "C03"
    entry = "LINE"
    theorems = ["C03_reference", "C03_reference_bytes", "C03_local", "C03_local_bytes", "C03_short", "C03_outside_irrelevant",
                "C03_no_carry_over"]
    rule = ("(a) every string over the 19-symbol adversarial alphabet (digits, signs, '.', ',', e/E, '_', n/a/i/f, blank, tab, "
            "newline, NUL, ARABIC-INDIC THREE) up to length 3 (quick) / 4 (thorough) as the span of integer, literal, float "
            "(both separators) and date fields placed at start 0 and 2 with two different surroundings; (b) random strings "
            "up to length 24 from numeric/date grammars with perturbations; (c) bytes lines: valid spans surrounded by non-ASCII / invalid UTF-8 / multi-byte bytes; all 2-byte strings for 2-byte "
            "numeric fields, random 0-9 byte strings, truncations of valid payloads, invalid UTF-8 from the Table 3-7 "
            "negative classes; (d) sequences of 2-4 reads through one field object, valid and invalid interleaved (slot "
            "carry-over). Each case is read through a one-field Line (positional) so the field's slot is observed too. "
            "non-trivial = span is non-empty and not all blanks; distinct = case hash"
            " Later additions: ambiguous date-format lists x 2-4 reads through one field; numeric binary widths 1/3/5/6; valid spans with hostile byte surroundings;"
            " (e) fields whose span was moved after construction through the public starting_position / ending_position setters "
            "(narrowed, widened, shifted, start only / end only / both; so ending_position != starting_position + declared size), "
            "int/literal/float/date on str lines and literal/date on bytes lines, 1-3 reads, the characters just outside the new span "
            "being value-changing ones (digits, exponents, date tails);"
            " (f) several field objects over one span in one process: 1-3 other fields (the same kind with the other decimal "
            "separator / other digits / notation / format order, or another kind) read every line just before the measured field "
            "does, 1-4 lines, repeated lines included; only the measured field is judged, each configuration takes both roles.")

    def gen(self, tier, rng):
        maxlen = 3 if tier == "quick" else 4
        ci = 0
        for n in range(0, maxlen + 1):
            for t in itertools.product(ALPHABET, repeat=n):
                s = "".join(t)
                for cfg in FIELD_CONFIGS:
                    ci += 1
                    if tier == "quick" and n == 3 and ci % 2:
                        continue
                    start = 0 if ci % 3 else 2
                    fd = dict(cfg, size=max(n, 1) if ci % 5 else n + 1, start=start)
                    pre = "9" * start if ci % 2 else "-1"[:start]
                    post = rng.choice(["", "7", " 1", "e5", "\n"])
                    yield {"fd": fd, "lines": [pre + s + post], "bytes": False}
        # format lists whose formats parse the SAME span differently: the first declared format that parses decides, whatever
        # the field object read before (2-4 reads through one field; spans only a later format parses, then ambiguous ones)
        amb = [["%d/%m/%Y", "%m/%d/%Y"], ["%Y-%m-%d", "%Y-%d-%m", "%d-%m-%Y"], ["%m%d", "%d%m"], ["%H:%M", "%M:%H"], ["%m/%Y", "%Y/%m", "%d/%m"]]
        for _ in range(400 if tier == "quick" else 8000):
            fmts = rng.choice(amb)
            if rng.random() < 0.3:
                fmts = list(reversed(fmts))
            width = max(fl.date_width(f) for f in fmts)
            fd = {"k": "date", "size": width + rng.choice([0, 0, 2]), "start": rng.randint(0, 3), "formats": fmts, "aslist": True}
            lines = []
            for _ in range(rng.randint(2, 4)):
                d = datetime.datetime(rng.choice([1999, 2020, 2021]), rng.randint(1, 12), rng.choice([1, 2, 3, 5, 12, 13, 25, 28]),
                                      rng.choice([1, 5, 11, 12, 13, 23]), rng.choice([1, 5, 12, 13, 30, 59]))
                body = d.strftime(rng.choice(fmts)) if rng.random() < 0.9 else rng.choice(["", "xx", "99/99/9999"])
                lines.append("#" * fd["start"] + body.ljust(fd["size"]) + rng.choice(["", "tail"]))
            if rng.random() < 0.3:
                yield {"fd": fd, "lines": [[ord(c) for c in l] for l in lines], "bytes": True}
            else:
                yield {"fd": fd, "lines": lines, "bytes": False}
        nr = 4000 if tier == "quick" else 100000
        for _ in range(nr):
            fd = fl.gen_field(rng, start=rng.randint(0, 4))
            lines = []
            for _ in range(rng.choice([1, 1, 2, 3, 4])):
                lines.append(self.gen_line(rng, fd))
            yield {"fd": fd, "lines": lines, "bytes": False}
        # bytes
        if True:
            step = 1 if tier == "thorough" else 7
            for k in ("int", "float"):
                fd = {"k": k, "size": 2, "start": 1}
                if k == "float":
                    fd.update({"dd": 2, "fmt": "F", "sep": "."})
                for i in range(0, 65536, step):
                    yield {"fd": fd, "lines": [[0x41] + list(i.to_bytes(2, "little")) + [0x42]], "bytes": True}
            # text spans in bytes lines padded with "wide" whitespace: FS..US, NEL, NBSP, EM SPACE, IDEOGRAPHIC SPACE -- str.strip
            # (after decoding) removes them, bytes.strip does not
            pads = [[0x1C], [0x1F], [0xC2, 0x85], [0xC2, 0xA0], [0xE2, 0x80, 0x83], [0xE3, 0x80, 0x80], [0x0B], [0x20]]
            for padl in pads:
                for padr in pads[:5]:
                    for body, kd in (("0131", "date"), ("2020", "date"), ("ab", "lit")):
                        seq = padl + [ord(c) for c in body] + padr
                        fd = {"k": kd, "size": len(seq), "start": 1}
                        if kd == "date":
                            fd["formats"] = ["%m%d"] if body == "0131" else ["%Y"]
                        yield {"fd": fd, "lines": [[0x41] + seq + [0x42]], "bytes": True}
            # a span that BEGINS with a UTF-8 byte-order mark: U+FEFF is a character of the text like any other
            for body in ("\ufeffabc", "\ufeff", "\ufeff 12", "\ufeff\ufeffx"):
                seq = list(body.encode())
                yield {"fd": {"k": "lit", "size": len(seq), "start": 1}, "lines": [[0x41] + seq + [0x42]], "bytes": True}
                yield {"fd": {"k": "lit", "size": len(seq) + 2, "start": 0}, "lines": [seq + [0x20, 0x20, 0x42]], "bytes": True}
            bad_utf8 = [[0xC0, 0x80], [0xC1, 0xBF], [0xE0, 0x80, 0x80], [0xE0, 0x9F, 0xBF], [0xED, 0xA0, 0x80], [0xF0, 0x80, 0x80, 0x80],
                        [0xF4, 0x90, 0x80, 0x80], [0xF5, 0x80, 0x80, 0x80], [0x80], [0xBF], [0xC2], [0xE2, 0x82], [0xF0, 0x9F, 0x98],
                        [0xC2, 0x41], [0xE2, 0x28, 0xA1], [0xFF], [0xFE]]
            good_utf8 = [list("é".encode()), list("€".encode()), list("😀".encode()), list(" ٣ ".encode()), list(" x ".encode()),
                         list("\ufeffab".encode()), list("\ufeff".encode()), list("a\ufeffb".encode())]
            for seq in bad_utf8 + good_utf8:
                for k in ("lit", "date"):
                    fd = {"k": k, "size": len(seq) + 2, "start": 1}
                    if k == "date":
                        fd["formats"] = ["%m%d"]
                    yield {"fd": fd, "lines": [[0x20] + [0x31] + seq + [0x32, 0x33]], "bytes": True}
            # valid span, hostile surroundings (metamorphic: the surroundings must not matter, for bytes too)
            surround = [[], [0xE9], [0xFF, 0xFE], list("é".encode()), list("€".encode()), [0x80], [0xC3], [0x00], [0x20, 0xF0]]
            for _ in range(1200 if tier == "quick" else 20000):
                k = rng.choice(["lit", "date", "date", "int", "float"])
                pre = rng.choice(surround)
                post = rng.choice(surround) + rng.choice(surround)
                if k == "date":
                    fmt = rng.choice(["%Y%m%d", "%d/%m/%Y", "%H:%M"])
                    d = datetime.datetime(rng.randint(1000, 9999), rng.randint(1, 12), rng.randint(1, 28), rng.randint(0, 23), rng.randint(0, 59))
                    body = list(d.strftime(fmt).encode())
                    fd = {"k": "date", "size": len(body), "start": len(pre), "formats": [fmt]}
                elif k == "lit":
                    body = list(rng.choice(["abc", " x ", "Zz9"]).encode())
                    fd = {"k": "lit", "size": len(body), "start": len(pre)}
                else:
                    n = rng.choice([2, 4, 8])
                    body = [rng.getrandbits(8) for _ in range(n)]
                    fd = {"k": k, "size": n, "start": len(pre)}
                    if k == "float":
                        fd.update({"dd": 2, "fmt": "F", "sep": "."})
                yield {"fd": fd, "lines": [pre + body + post, [0x41] * len(pre) + body], "bytes": True}
            nb = 3000 if tier == "quick" else 60000
            for _ in range(nb):
                k = rng.choice(["int", "float", "lit", "date"])
                size = rng.choice([2, 4, 8, 2, 4, 8, 1, 3, 5, 6]) if k in ("int", "float") else rng.randint(1, 8)
                fd = {"k": k, "size": size, "start": rng.randint(0, 3)}
                if k == "float":
                    fd.update({"dd": 2, "fmt": "F", "sep": "."})
                if k == "date":
                    fd["formats"] = [rng.choice(["%m%d", "%Y", "%H:%M"])]
                lines = []
                for _ in range(rng.choice([1, 1, 2, 3])):
                    ln = rng.choice([fd["start"] + size, fd["start"] + size + 2, rng.randint(0, fd["start"] + size)])
                    if k in ("lit", "date") and rng.random() < 0.6:
                        body = [rng.choice([0x20, 0x30, 0x31, 0x32, 0x3A, 0x09]) for _ in range(ln)]
                    else:
                        body = [rng.getrandbits(8) for _ in range(ln)]
                    lines.append(body)
                yield {"fd": fd, "lines": lines, "bytes": True}
        # (e) the span of a constructed field moved through the public setters: the read follows [starting_position,
        # ending_position) as they ARE at the time of the read, not the declared size
        for _ in range(1500 if tier == "quick" else 30000):
            fd = fl.gen_field(rng, start=rng.randint(0, 4))
            s0, e0 = fd["start"], fd["start"] + fd["size"]
            mode = rng.choice(["narrow", "narrow", "widen", "start", "both", "shift"])
            if mode == "narrow":
                rs = [None, rng.randint(s0 + 1, e0 - 1) if e0 - s0 > 1 else e0 + 1]
            elif mode == "widen":
                rs = [None, e0 + rng.randint(1, 4)]
            elif mode == "start":
                rs = [rng.choice([x for x in range(0, e0) if x != s0] or [s0 + 1]), None] if e0 - s0 > 1 or s0 else [None, e0 + 2]
            elif mode == "both":
                a = rng.randint(0, e0 + 2)
                rs = [a, a + rng.randint(1, fd["size"] + 2)]
            else:
                d = rng.choice([-1, 1, 2, 3]) if s0 else rng.choice([1, 2, 3])
                rs = [s0 + d, e0 + d]
            case = {"fd": fd, "lines": [], "bytes": False, "respan": rs}
            efd = eff(case)
            for _ in range(rng.choice([1, 1, 2, 3])):
                # a line built for the declared span or for the moved one, then continued with characters that would change
                # the value if they were (wrongly) taken in
                l = self.gen_line(rng, rng.choice([fd, efd, efd]))
                if rng.random() < 0.6:
                    l = l.ljust(efd["start"] + efd["size"]) if rng.random() < 0.5 else l
                    l += rng.choice(["7", "12", "e5", "5 ", ".5", " 12:30", "x"])
                case["lines"].append(l)
            if fd["k"] in ("lit", "date") and rng.random() < 0.25 and all(ord(c) < 128 for l in case["lines"] for c in l):
                case["lines"] = [[ord(c) for c in l] for l in case["lines"]]
                case["bytes"] = True
            yield case
        # (f) several field OBJECTS over the same span in one process (the columns of a format read by differently
        # configured fields): 1-3 other fields -- the same kind with another decimal separator / digits / notation / format
        # order, or another kind -- read every line just before the measured field does; what THEY made of the span is
        # not the measured field's business
        for _ in range(1500 if tier == "quick" else 30000):
            fd = fl.gen_field(rng, kinds=("float", "float", "date", "int", "lit"), start=rng.randint(0, 4))
            co = [self.gen_other(rng, fd) for _ in range(rng.choice([1, 1, 2, 3]))]
            lines = []
            for _ in range(rng.choice([1, 2, 2, 3, 4])):
                if lines and rng.random() < 0.3:
                    lines.append(rng.choice(lines))      # the same characters again
                else:
                    lines.append(self.gen_line(rng, rng.choice([fd] + co)))
            yield {"fd": fd, "lines": lines, "bytes": False, "co": co}

    @staticmethod
    def gen_other(rng, fd):
        """another field definition over the same span as fd"""
        k = fd["k"]
        r = rng.random()
        if k == "float" and r < 0.7:
            o = dict(fd)
            c = rng.choice(["sep", "sep", "dd", "fmt"])
            if c == "sep":
                o["sep"] = "," if fd["sep"] == "." else "."
            elif c == "dd":
                o["dd"] = rng.randint(0, 8)
            else:
                o["fmt"] = rng.choice([x for x in "FfEe" if x != fd["fmt"]])
            return o
        if k == "date" and r < 0.7:
            fm = list(reversed(fd["formats"])) if len(fd["formats"]) > 1 and rng.random() < 0.6 else rng.sample(fl.DATE_FORMATS, rng.choice([1, 2]))
            return dict(fd, formats=fm, aslist=True)
        if k in ("int", "lit") and r < 0.7:
            return {"k": "float", "size": fd["size"], "start": fd["start"], "dd": rng.randint(0, 4), "fmt": rng.choice("FFE"), "sep": rng.choice(".,")}
        o = fl.gen_field(rng, start=fd["start"])
        o["size"] = fd["size"]
        return o

    @staticmethod
    def gen_line(rng, fd):
        k = fd["k"]
        n = fd["size"]
        r = rng.random()
        if r < 0.15:
            body = "".join(rng.choice(ALPHABET + "23456789:/") for _ in range(rng.randint(0, n + 2)))
        elif k == "date" and r < 0.8:
            d = datetime.datetime(rng.randint(1, 9999), rng.randint(1, 12), rng.randint(1, 28), rng.randint(0, 23), rng.randint(0, 59), rng.randint(0, 59))
            try:
                body = d.strftime(rng.choice(fd["formats"]))
            except ValueError:
                body = ""
            if rng.random() < 0.5 and body:
                i = rng.randrange(len(body))
                body = body[:i] + rng.choice("0123456789 /:-٣") + body[i + 1:]
        elif k in ("int", "float") and r < 0.85:
            body = rng.choice(["", " ", "  "]) + rng.choice(["", "-", "+"]) + "".join(rng.choice("0123456789") for _ in range(rng.randint(0, 6)))
            if k == "float" or rng.random() < 0.2:
                body += rng.choice(["", ".", ",", fd.get("sep", ".")]) + "".join(rng.choice("0123456789") for _ in range(rng.randint(0, 4)))
                body += rng.choice(["", "", "e5", "E-3", "e", "e+1", "d5", "D-3", "D+03", "d"])
            body += rng.choice(["", " ", "\n"])
        else:
            body = "".join(rng.choice("abc xyz 01\t") for _ in range(rng.randint(0, n)))
        body = body[: n + rng.choice([0, 0, 0, 2])]
        if rng.random() < 0.25:   # short line
            return ("#" * fd["start"] + body)[: rng.randint(0, fd["start"] + len(body))]
        return "#" * fd["start"] + body.ljust(n) + rng.choice(["", "tail", "9"])

    def extra(self, tier, seed):
        """the reference interpretation is the model's int()/float()/strip()/strptime/UTF-8/numpy codecs: compare
        those primitives with the real CPython/numpy ones directly"""
        from .. import prims
        n, kinds, bad = prims.run(tier, seed, lite=(tier == "quick"))
        return {"what": "primitive-level correspondence (model of CPython/numpy builtins vs the real ones)", "evaluations": n,
                "by_kind": kinds, "problems": ["%s %r expected %r model %r" % b for b in bad[:5]]}

    def impl(self, case):
        from cfinterface.components.line import Line
        f = fl.mk_field(case["fd"])
        line = Line([f], storage="BINARY" if case["bytes"] else "TEXT")
        rs = case.get("respan")
        if rs:
            if rs[0] is not None:
                f.starting_position = rs[0]
            if rs[1] is not None:
                f.ending_position = rs[1]
        others = [fl.mk_field(o) for o in case.get("co", ())]
        out = []
        for l in case["lines"]:
            arg = bytes(l) if case["bytes"] else l
            try:
                for g in others:
                    g.read(arg)
                direct = f.read(arg)
                r = line.read(arg)
            except BaseException as e:
                out.append({"raised": type(e).__name__})
                continue
            out.append({"direct": fl.canon_value(direct), "via_line": [fl.canon_value(x) for x in r], "slot": fl.canon_value(f.value)})
        return out

    def model_arg(self, case):
        # a read's result depends only on the line and the span the field has when it is read: the model field is the one
        # declared with that span
        ctor = [[[fl.field_sx(eff(case)), []]], [], [], case["bytes"]]
        ops = []
        for l in case["lines"]:
            ops.append([4, l])
        return [0, ctor, ops]

    def model_obs(self, case, res):
        out = []
        for r in res:
            v = fl.canon_model_value(r[0])
            out.append({"direct": v, "via_line": [v], "slot": v})
        return out

    def oracle(self, case, obs):
        fd = eff(case)
        s, e = fd["start"], fd["start"] + fd["size"]
        for l, o in zip(case["lines"], obs):
            if "raised" in o:
                return "Field.read raised %s" % o["raised"]
            if case["bytes"]:
                exp = ref_interp_bytes(fd, bytes(l[s:e]))
            else:
                exp = ref_interp(fd, l[s:e])
            if o["direct"] != exp:
                if o["direct"] is not None and exp is None and len(case["lines"]) > 1:
                    return "a failed parse left a previous value behind"
                return "value differs from the reference interpretation of the span"
            if o["via_line"] != [exp] or o["slot"] != exp:
                return "Line.read / field slot disagree with Field.read"
        return None

    def nontrivial(self, case, obs):
        fd = eff(case)
        sp = case["lines"][0][fd["start"]: fd["start"] + fd["size"]]
        if case["bytes"]:
            return len(sp) > 0 and any(b != 32 for b in sp)
        return sp.strip() != ""

    def classify(self, case):
        d = {"kind_" + case["fd"]["k"]: 1, "bytes" if case["bytes"] else "str": 1, "reads_%d" % len(case["lines"]): 1}
        fd = eff(case)
        if any(len(l) < fd["start"] + fd["size"] for l in case["lines"]):
            d["short_line"] = 1
        rs = case.get("respan")
        if rs:
            d["span_moved_by_setters"] = 1
            d["span_moved_" + ("start_only" if rs[1] is None else "end_only" if rs[0] is None else "both")] = 1
            d["span_%s_than_declared" % ("narrower" if fd["size"] < case["fd"]["size"] else "wider" if fd["size"] > case["fd"]["size"] else "same_width")] = 1
        co = case.get("co")
        if co:
            d["other_fields_read_the_span_first"] = 1
            d["other_fields_%d" % len(co)] = 1
            for o in co:
                if o["k"] != case["fd"]["k"]:
                    d["other_field_of_another_kind"] = 1
                elif o["k"] == "float" and o["sep"] != case["fd"]["sep"]:
                    d["other_float_field_with_the_other_separator"] = 1
                elif o["k"] == "date":
                    d["other_date_field_with_other_formats"] = 1
                else:
                    d["other_field_same_kind_other_digits_or_notation"] = 1
        return d

    def signature(self, case, why):
        return why

    def shrink(self, case):
        if len(case["lines"]) > 1:
            for i in range(len(case["lines"])):
                c = dict(case)
                c["lines"] = case["lines"][:i] + case["lines"][i + 1:]
                yield c
        # the other fields of a case ("co") are never shrunk away: state they left behind in this process would keep a
        # candidate without them failing, and the replay must reproduce in a fresh process

    def neighbours(self, case, rng):
        fd = eff(case)
        for l in case["lines"]:
            for pre in ("", "9" * fd["start"], "-" * fd["start"]):
                if not case["bytes"]:
                    c = dict(case)
                    c["lines"] = [pre[: fd["start"]].ljust(fd["start"]) + l[fd["start"]:]]
                    yield c
