"""C02 — fixed-width layout discipline: a write touches only its own columns."""
import datetime

from ..framework import Check
from .. import fieldlib as fl
from .. import dates


def small_values(fd):
    """3-6 fitting values per kind covering every rendered width <= size"""
    n = fd["size"]
    k = fd["k"]
    out = [None]
    if k == "lit":
        out += [["str", "x" * w] for w in range(0, n + 1)] + [["str", "a b"[:n]]]
    elif k == "int":
        out += [["int", 10 ** w - 1] for w in range(0, n + 1) if w >= 1] + [["int", 0]] + [["int", -(10 ** (w - 1))] for w in range(1, n) if w >= 1]
    elif k == "float":
        out += [["float", fl.f2b(x)] for x in (0.0, 1.5, -2.25, 9.996, 12345.678, 0.05, -0.04, 99999.5)] + [["nan"]]
    else:
        out += [["date", [2024, 2, 29, 13, 5, 9, 0]], ["date", [1000, 12, 31, 0, 0, 0, 0]], ["nat"]]
        if any("%Y" in f for f in fd["formats"]):
            # years below 1000: strftime renders them without padding, so a %Y date has renderings of width 1..4 too
            out += [["date", [999, 5, 2, 0, 0, 0, 0]], ["date", [33, 11, 30, 23, 59, 59, 0]]]
    return out


# ---- renderings whose width varies from value to value, and writes repeated through one object
# Date formats with textual directives (month / weekday names): the rendering's width depends on the value. They are outside
# the model's format language (dates.tokens refuses them), so such cases are judged by the oracle alone.
TEXTUAL_FORMATS = ["%d %B %Y", "%A %d/%m/%Y", "%b-%d-%Y %H:%M", "%B", "%a %d %b", "%Y %B %d", "%A"]
BIN_SAFE_FLOATS = (0.0, 1.5, -2.25, 0.5, 100.0)   # exactly representable in every binary width


def is_textual(fd):
    """a date field whose format the model's format language does not cover (fail closed: whatever dates.tokens refuses)"""
    if fd["k"] != "date":
        return False
    try:
        for f in fd["formats"]:
            dates.tokens(f)
    except dates.Unsupported:
        return True
    return False


def textual_field(rng, start):
    fmt = rng.choice(TEXTUAL_FORMATS)
    ws = [len(datetime.datetime(2024, m, d).strftime(fmt)) for m in range(1, 13) for d in range(1, 8)]
    return {"k": "date", "size": rng.randint(min(ws), max(ws) + 3), "start": start, "formats": [fmt], "aslist": rng.random() < 0.3}


def ref_fits(fd, v, mode):
    """Does the value certainly fit the field? A reference decision from the property text alone (the rendering is not longer
    than the field), used where the model is not asked: for the earlier writes of a history and for fields outside the
    model's format language. Conservative: False when in doubt."""
    if v is None or v[0] in ("nan", "nat"):
        return True
    k, n = fd["k"], fd["size"]
    if k == "lit":
        return v[0] == "str" and len(v[1]) <= n and (mode == "str" or all(ord(c) < 128 for c in v[1]))
    if k == "int":
        if v[0] != "int":
            return False
        if mode == "str":
            return len(str(v[1])) <= n
        return n in (2, 4, 8) and -2 ** (8 * n - 1) <= v[1] < 2 ** (8 * n - 1)
    if k == "float":
        if v[0] != "float":
            return False
        x = fl.b2f(v[1])
        if mode == "bytes":
            return n in (2, 4, 8) and x in BIN_SAFE_FLOATS
        if x != x or abs(x) == float("inf"):
            return False
        if fd["fmt"] in "Ee":
            return len("%.*E" % (fd["dd"], x)) + 1 <= n      # one column of margin for a carry into the exponent
        return len("%.*f" % (fd["dd"], x)) <= n               # already fits with all its decimals
    if v[0] != "date":
        return False
    text = datetime.datetime(*v[1]).strftime(fd["formats"][0])
    return len(text) <= n and all(ord(c) < 128 for c in text)


def width_value(rng, fd, mode):
    """a value for the field, biased towards renderings of different widths (narrow and wide ones alike)"""
    k, n = fd["k"], fd["size"]
    if rng.random() < 0.1:
        return rng.choice([None, ["nan"], ["nat"]])
    if k == "lit":
        if rng.random() < 0.5:
            return ["str", "x" * rng.randint(0, n)]
        return fl.gen_value(rng, fd, 0)
    if k == "int":
        w = rng.randint(1, max(1, min(n, 18)))
        return ["int", rng.choice([10 ** w - 1, 10 ** (w - 1), 0, -(10 ** max(w - 2, 0)), rng.randint(-(10 ** (w - 1)) + 1, 10 ** w - 1)])]
    if k == "float":
        if mode == "bytes":
            return ["float", fl.f2b(rng.choice(BIN_SAFE_FLOATS))]
        return fl.gen_value(rng, fd, 0)
    d = datetime.datetime(rng.choice([5, 33, 999, 1000, 1999, 2024, 9999, rng.randint(1, 9999)]), rng.randint(1, 12), rng.randint(1, 28),
                          rng.randint(0, 23), rng.randint(0, 59), rng.randint(0, 59), rng.choice([0, 0, 5, 123456]))
    return ["date", dates.dt_tuple(d)]


def zero_width_value(rng, fd):
    """the values that fit a field of width 0: a missing value of any spelling, and the empty literal"""
    return rng.choice([None, None, ["nan"], ["nat"]] + ([["str", ""], ["str", ""]] if fd["k"] == "lit" else []))


def zero_width_field(rng, start, kinds=("lit", "int", "float", "date")):
    """a field of width 0 (it owns no column; what it contributes is its span end: a zero-width field past the last
    column declares the full width of a card image)"""
    k = rng.choice(kinds)
    fd = {"k": k, "size": 0, "start": start}
    if k == "float":
        fd.update({"dd": rng.randint(0, 2), "fmt": rng.choice("FfE"), "sep": rng.choice(".,")})
    elif k == "date":
        fd.update({"formats": [rng.choice(["%m/%d", "%H%M", "%Y", "%Y/%m/%d"])], "aslist": rng.random() < 0.3})
    return fd


def fit_value(rng, fd, mode):
    """a value that certainly fits (ref_fits); a missing value when none is found"""
    if fd["size"] == 0:
        return zero_width_value(rng, fd)
    for _ in range(8):
        v = width_value(rng, fd, mode)
        if ref_fits(fd, v, mode):
            return v
    return None


def gen_target(rng, end):
    ln = rng.randint(0, end + 3)
    return rng.choice(["#" * ln, ("ab\tc 0123456789xyz~" * (1 + ln // 18))[:ln], ("x\n \t\n\n\r \n" * (1 + ln // 9))[:ln]])


class CHECK(Check):
    pid = "C02"
    entry = "FIELD"
    theorems = ["C02_field_frame", "C02_field_frame_bytes", "C02_width", "C02_justify_text", "C02_missing_blank",
                "C02_line_shape", "C02_line_shape_bytes", "C02_defaults"]
    rule = ("(a) complete enumeration of field kind x size<=S x start<=5 x target line length 0..start+size+3 x two "
            "target contents ('#'*n and a mixed pattern) x fitting values of every rendered width, str and bytes "
            "(S=5 quick, 8 thorough; float fields with dd in 0..2, F/E, both separators); (b) random multi-field "
            "layouts in any field order with gaps, text and binary; (c) default-constructed fields compared with the "
            "documented defaults. Values that do not fit (decided by the model's fits) are counted and skipped. "
            "non-trivial = the target line is non-empty and differs from blanks, or the layout has >= 2 fields; "
            "distinct = case hash"
            " Later additions: targets ending in line breaks/blanks/tabs; 30% of the multi-field layouts overlap; "
            "renderings whose width varies from value to value: dates with years below 1000 (inside the model) and date formats "
            "with month / weekday names (outside the model's format language: judged by the oracle alone, fitting decided by "
            "the reference); (a') one Field object written 2-4 times (values of other widths, other targets, str and bytes) and "
            "one Line written for 1-3 earlier records before the measured one: every write is judged by the oracle, the model "
            "gives every record of a Line and the measured write of a Field. (b') 35% of the Line cases are one Line object "
            "whose layout changes between writes: constructed with one layout (half of them tiled from column 0 in declaration "
            "order), then given 1-3 other layouts through the public fields setter (new Field objects; or a rearrangement of the "
            "objects it has - some dropped, some new, another order) or by moving its Field objects through their "
            "starting_position / ending_position setters, with 0-2 records written through each earlier layout; every record is "
            "judged by the oracle against the layout the Line has at that moment, the model follows with SetFields. "
            "Fields of width 0 (every kind, str and bytes; missing values and the empty literal are what fits): in the enumeration "
            "(a) over every start and target length (shorter than, equal to and beyond the span end), in 8% of the write histories "
            "(a') at columns 0..12, and 1-2 of them in 20% of the multi-field layouts (b, b') anywhere in the declaration order - "
            "past the furthest end of the other fields (declaring the full width of the record), at it, or inside the layout.")
    exhaustive = True

    def entry_of(self, case):
        return "LINE" if case["t"] in ("line", "default") else "FIELD"

    def gen(self, tier, rng):
        S = 5 if tier == "quick" else 8
        for kind in ("lit", "int", "float", "date"):
            for size in range(0, S + 1):
                for start in range(0, 6 if tier == "thorough" else 4):
                    fds = []
                    if kind == "float":
                        for dd in (0, 1, 2):
                            for fmt, sep in (("F", "."), ("f", ","), ("E", ".")):
                                if fmt == "E" and 0 < size < 6 + dd:
                                    continue
                                fds.append({"k": "float", "size": size, "start": start, "dd": dd, "fmt": fmt, "sep": sep})
                    elif kind == "date":
                        for fmt in ("%m/%d", "%H%M", "%Y"):
                            if fl.date_width(fmt) <= size or size == 0:     # (width 0: missing values only)
                                fds.append({"k": "date", "size": size, "start": start, "formats": [fmt]})
                    else:
                        fds.append({"k": kind, "size": size, "start": start})
                    for fd in fds:
                        for ln in range(0, start + size + 4):
                            # third content: targets ending in line breaks / blanks / tabs (a short target may still carry its
                            # terminator; padding must not touch it)
                            for content in (("#" * ln), ("ab\tc 0123456789xyz~"[:ln] if ln <= 18 else "z" * ln), ("x\n \t\n\n\r \n" * 4)[:ln]):
                                for v in small_values(fd):
                                    if size == 0 and not (v is None or v[0] in ("nan", "nat") or v == ["str", ""]):
                                        continue        # nothing else fits a field of width 0
                                    for mode in ("str", "bytes"):
                                        if mode == "bytes" and (fd["k"] in ("int", "float") and size not in (2, 4, 8)):
                                            continue
                                        if mode == "bytes" and kind in ("int", "float") and tier == "quick" and ln % 2:
                                            continue
                                        yield {"t": "field", "fd": fd, "v": v, "target": content, "mode": mode}
        # (a') one Field object written several times (the fields of a Line / a register class are shared by every record
        # written through them): 1-3 earlier writes of fitting values whose renderings have other widths, on other targets,
        # str and bytes, then the measured write. Every write is judged; the model gives the measured one.
        for _ in range(2500 if tier == "quick" else 40000):
            start = rng.randint(0, 5)
            r = rng.random()
            if r < 0.08:
                fd = zero_width_field(rng, rng.randint(0, 12))
            elif r < 0.3:
                fd = textual_field(rng, start)
            elif r < 0.65:
                fd = fl.gen_field(rng, start=start)
            else:
                k = rng.choice(["lit", "int", "float", "date"])
                size = rng.randint(1, 8)
                if k == "float":
                    dd = rng.randint(0, 2)
                    fmt, sep = rng.choice([("F", "."), ("f", ","), ("E", ".")])
                    if fmt == "E" and size < 6 + dd:
                        fmt = "F"
                    fd = {"k": "float", "size": size, "start": start, "dd": dd, "fmt": fmt, "sep": sep}
                elif k == "date":
                    fmt = rng.choice(["%m/%d", "%H%M", "%Y", "%Y%m", "%d/%Y"])
                    fd = {"k": "date", "size": max(size, fl.date_width(fmt) - rng.choice([0, 0, 1])), "start": start, "formats": [fmt]}
                else:
                    fd = {"k": k, "size": size, "start": start}
            steps = []
            for _ in range(rng.randint(2, 4)):
                mode = "bytes" if rng.random() < 0.35 and (fd["k"] in ("lit", "date") or fd["size"] in (2, 4, 8)) else "str"
                steps.append([fit_value(rng, fd, mode), gen_target(rng, fd["start"] + fd["size"]), mode])
            v, target, mode = steps.pop()
            yield {"t": "field", "fd": fd, "v": v, "target": target, "mode": mode, "history": steps}
        n = 1500 if tier == "quick" else 30000
        for _ in range(n):
            binary = rng.random() < 0.35
            textual = rng.random() < 0.12
            fs = self.gen_fields(rng, binary, textual)
            if rng.random() < 0.35:
                # (b') one Line object whose layout changes between writes (1-3 earlier layouts, 0-2 records written through
                # each): the fields setter with new Field objects, the fields setter with a rearrangement of the objects it
                # already has (some dropped, some new, another order), or the same Field objects moved to other columns through
                # their position setters. Every written record is judged against the layout the Line has at that moment.
                yield self.gen_relayout(rng, fs, binary, textual)
                continue
            case = {"t": "line", "fields": fs, "values": self.gen_row(rng, fs, binary, textual), "binary": binary}
            if textual or rng.random() < 0.4:
                # the same Line written for 1-3 earlier records (other values, renderings of other widths) before the measured one
                case["history"] = [self.gen_row(rng, fs, binary, textual or rng.random() < 0.5) for _ in range(rng.randint(1, 3))]
            yield case
        yield {"t": "default"}

    @staticmethod
    def gen_fields(rng, binary, textual):
        """a multi-field layout in any field order, with gaps; 30% of the layouts with two overlapping fields"""
        if textual:
            # layouts with date fields in a textual format (outside the model's format language: judged by the oracle alone);
            # the other fields are of the kinds whose fitting values the reference decides with certainty
            fs = []
            pos = rng.randint(0, 3)
            cnt = rng.randint(1, 5)
            for i in range(cnt):
                if rng.random() < 0.4 or (i == cnt - 1 and not any(is_textual(fd) for fd in fs)):
                    fd = textual_field(rng, pos)
                elif binary and rng.random() < 0.4:
                    fd = {"k": "int", "size": rng.choice([2, 4, 8]), "start": pos}
                else:
                    fd = fl.gen_field(rng, ("lit", "date") if binary else ("lit", "int", "date"), pos)
                fs.append(fd)
                pos = fd["start"] + fd["size"] + rng.choice([0, 0, 1, 3])
            rng.shuffle(fs)
        elif binary:
            fs = []
            pos = rng.randint(0, 2)
            for _ in range(rng.randint(1, 5)):
                k = rng.choice(["lit", "int", "float", "date"])
                if k in ("int", "float"):
                    fd = {"k": k, "size": rng.choice([2, 4, 8]), "start": pos}
                    if k == "float":
                        fd.update({"dd": 2, "fmt": "F", "sep": "."})
                else:
                    fd = fl.gen_field(rng, (k,), pos)
                fs.append(fd)
                pos = fd["start"] + fd["size"] + rng.choice([0, 0, 2])
            rng.shuffle(fs)
        else:
            fs = fl.gen_layout(rng)
        if len(fs) > 1 and rng.random() < 0.3:
            # overlapping fields (partial overlap, nesting, same start): a later field overwrites its own span only, the
            # line is as long as the furthest end, every other field stays on its columns
            i = rng.randrange(len(fs))
            j = rng.choice([k for k in range(len(fs)) if k != i])
            fs[i] = dict(fs[i], start=max(0, fs[j]["start"] + rng.choice([0, 0, 1, -1, fs[j]["size"] - 1])))
        if rng.random() < 0.2:
            # 1-2 fields of width 0 declared anywhere in the order: past the furthest end (declaring the full width of the
            # record), at the furthest end, inside the layout. They own no column; the line is as long as the furthest span end.
            end = max(fd["start"] + fd["size"] for fd in fs)
            for _ in range(rng.randint(1, 2)):
                at = rng.choice([end + rng.randint(1, 12), end + rng.randint(1, 12), end, rng.randint(0, end)])
                fs.insert(rng.randint(0, len(fs)), zero_width_field(rng, at, ("lit", "date") if binary else ("lit", "int", "float", "date")))
        return fs

    @staticmethod
    def tiled(fs):
        """the same fields declared in column order from column 0 without gaps (the commonest shape of a real layout)"""
        out = []
        pos = 0
        for fd in fs:
            out.append(dict(fd, start=pos))
            pos += fd["size"]
        return out

    @classmethod
    def gen_relayout(cls, rng, first, binary, textual):
        """a Line constructed with one layout and given 1-3 other layouts afterwards, records written through each of them.
        A layout is entered by ("set", src): line.fields = [...], where src[i] names the object of the previous layout that
        stays (unchanged) as field i, None for a new Field object; or by ("move", identity): the Field objects stay and are
        moved to other columns through their starting_position / ending_position setters."""
        if rng.random() < 0.5:
            first = cls.tiled(first)
        layouts = [(first, None, None)]
        for _ in range(rng.randint(1, 3)):
            prev = layouts[-1][0]
            r = rng.random()
            if r < 0.4:
                fs = cls.gen_fields(rng, binary, textual)
                if rng.random() < 0.25:
                    fs = cls.tiled(fs)
                layouts.append((fs, "set", [None] * len(fs)))
            elif r < 0.75:
                # a rearrangement of the objects the Line has: some dropped, 0-2 new ones (mostly past the furthest end that is
                # left), often in another order
                src = [j for j in range(len(prev)) if rng.random() < 0.7]
                fs = [prev[j] for j in src]
                extra = cls.gen_fields(rng, binary, textual)[:rng.randint(0 if fs else 1, 2)]
                off = 0 if rng.random() < 0.2 else max([fd["start"] + fd["size"] for fd in fs] or [0]) + rng.choice([0, 0, 1, 3])
                low = min([fd["start"] for fd in extra] or [0])
                for fd in extra:
                    fs.append(dict(fd, start=fd["start"] - low + off))
                    src.append(None)
                if rng.random() < 0.6:
                    order = list(range(len(fs)))
                    rng.shuffle(order)
                    fs, src = [fs[i] for i in order], [src[i] for i in order]
                layouts.append((fs, "set", src))
            else:
                starts = [fd["start"] for fd in prev]
                if rng.random() < 0.3:
                    # one field moved past the furthest end
                    j = rng.randrange(len(prev))
                    starts[j] = max(fd["start"] + fd["size"] for fd in prev) + rng.choice([0, 1, 3])
                else:
                    # every field placed anew, in any column order
                    order = list(range(len(prev)))
                    rng.shuffle(order)
                    pos = rng.choice([0, 0, 1, 2, 3])
                    for j in order:
                        starts[j] = pos
                        pos += prev[j]["size"] + rng.choice([0, 0, 1, 3])
                layouts.append(([dict(fd, start=st) for fd, st in zip(prev, starts)], "move", list(range(len(prev)))))
        before = []
        for fs, via, src in layouts[:-1]:
            st = {"fields": fs, "rows": [cls.gen_row(rng, fs, binary, True) for _ in range(rng.randint(0, 2))]}
            if via:
                st.update({"via": via, "src": src})
            before.append(st)
        fs, via, src = layouts[-1]
        case = {"t": "line", "before": before, "fields": fs, "via": via, "src": src,
                "values": cls.gen_row(rng, fs, binary, textual or rng.random() < 0.5), "binary": binary}
        if rng.random() < 0.4:
            case["history"] = [cls.gen_row(rng, fs, binary, True)]
        return case

    @staticmethod
    def line_stages(case):
        """the layouts a Line object goes through, in order: (fields, how the layout is entered, src, records written)"""
        out = [(st["fields"], st.get("via"), st.get("src"), st["rows"]) for st in case.get("before", [])]
        out.append((case["fields"], case.get("via"), case.get("src"), case.get("history", []) + [case["values"]]))
        return out

    @classmethod
    def line_writes(cls, case):
        """every record written through the Line object, in order, with the layout the Line has at that moment"""
        return [(fs, row) for fs, _, _, rows in cls.line_stages(case) for row in rows]

    @staticmethod
    def gen_row(rng, fs, binary, certain):
        """one value per field; certain: every value certainly fits (ref_fits), else the model decides"""
        vals = []
        for fd in fs:
            if certain or fd["size"] == 0:
                vals.append(fit_value(rng, fd, "bytes" if binary else "str"))
                continue
            v = fl.gen_value(rng, fd)
            if binary and v and v[0] == "str":
                v = ["str", "".join(c for c in v[1] if ord(c) < 128)]
            if binary and fd["k"] == "int" and v and v[0] == "int":
                w = 8 * fd["size"]
                v = ["int", max(-2 ** (w - 1), min(2 ** (w - 1) - 1, v[1]))]
            vals.append(v)
        return vals

    def comparable(self, case):
        if case["t"] == "field":
            return not is_textual(case["fd"])
        if case["t"] == "line":
            return not any(is_textual(fd) for fs, _, _, _ in self.line_stages(case) for fd in fs)
        return True

    # ---- implementation
    @staticmethod
    def case_hash(case):
        import hashlib, json
        return int(hashlib.sha1(json.dumps(case, sort_keys=True).encode()).hexdigest(), 16)

    @staticmethod
    def write_field(f, target, mode):
        if mode == "str":
            return f.write(target)
        try:
            return list(f.write(target.encode("latin-1")))
        except OverflowError:
            return None

    def impl(self, case):
        if case["t"] == "field":
            hh = self.case_hash(case)
            typed = lambda v, i: fl.py_value_typed(v, (hh >> (3 * i + 1)) if hh & 1 else 0)
            hist = case.get("history")
            if not hist:
                f = fl.mk_field(case["fd"], typed(case["v"], 0))
                return {"out": self.write_field(f, case["target"], case["mode"])}
            # the same Field object throughout: the first value through the constructor, the later ones through the setter
            outs = []
            f = None
            for i, (v, target, mode) in enumerate(hist + [[case["v"], case["target"], case["mode"]]]):
                if f is None:
                    f = fl.mk_field(case["fd"], typed(v, i))
                else:
                    f.value = typed(v, i)
                outs.append(self.write_field(f, target, mode))
            return {"out": outs[-1], "hist": outs[:-1]}
        if case["t"] == "line":
            from cfinterface.components.line import Line
            hh = self.case_hash(case)
            outs = []
            line = None
            r = 0
            for fds, via, src, rows in self.line_stages(case):
                if line is None:
                    fields = [fl.mk_field(fd) for fd in fds]
                    line = Line(fields, storage="BINARY" if case["binary"] else "TEXT")
                elif via == "move":
                    # the Field objects the Line has, moved to other columns through their public position setters
                    for f, fd in zip(fields, fds):
                        f.starting_position = fd["start"]
                        f.ending_position = fd["start"] + fd["size"]
                else:
                    # the public fields setter: objects the Line already has (src) and new ones
                    fields = [fl.mk_field(fd) if j is None else fields[j] for fd, j in zip(fds, src)]
                    line.fields = fields
                for row in rows:
                    try:
                        out = line.write([fl.py_value_typed(v, (hh >> (3 * (i + r) + 1)) if hh & 1 else 0) for i, v in enumerate(row)])
                    except OverflowError:
                        out = None
                    outs.append(list(out) if isinstance(out, bytes) else out)
                    r += 1
            obs = {"out": outs[-1]}
            if "history" in case or "before" in case:
                obs["hist"] = outs[:-1]
            return obs
        from cfinterface.components.literalfield import LiteralField
        from cfinterface.components.integerfield import IntegerField
        from cfinterface.components.floatfield import FloatField
        from cfinterface.components.datetimefield import DatetimeField
        d = datetime.datetime(2021, 3, 4)
        obs = {}
        for name, cls, val in (("lit", LiteralField, "ab"), ("int", IntegerField, 12), ("float", FloatField, 1.5), ("date", DatetimeField, d)):
            f = cls()
            f.value = val
            obs[name] = [f.size, f.starting_position, f.ending_position, f.write("")]
        return obs

    DEFAULT_FDS = {"lit": {"k": "lit", "size": 80, "start": 0}, "int": {"k": "int", "size": 8, "start": 0},
                   "float": {"k": "float", "size": 8, "start": 0, "dd": 4, "fmt": "F", "sep": "."},
                   "date": {"k": "date", "size": 16, "start": 0, "formats": ["%Y/%m/%d"]}}
    DEFAULT_VALS = {"lit": ["str", "ab"], "int": ["int", 12], "float": ["float", fl.f2b(1.5)], "date": ["date", [2021, 3, 4, 0, 0, 0, 0]]}

    def model_arg(self, case):
        if case["t"] == "field":
            tgt = case["target"]
            return [6 if case["mode"] == "str" else 7, fl.field_sx(case["fd"]), fl.value_sx(case["v"]), tgt]
        if case["t"] == "line":
            stages = self.line_stages(case)
            st = [[fl.field_sx(fd), []] for fd in stages[0][0]]
            ops = []
            for k, (fds, _, _, rows) in enumerate(stages):
                if k:
                    # a later layout of the same Line (SetFields; a moved field is the field at its new columns)
                    ops.append([0, [[fl.field_sx(fd), []] for fd in fds]])
                for row in rows:
                    vals = [fl.value_sx(v) for v in row]
                    ops += [[8, vals], [5, vals]]       # per written record: does every value fit, and the written line
            return [0, [st, [], [], case["binary"]], ops]
        ops = []
        st = []
        names = ["lit", "int", "float", "date"]
        # one single-field line per default field: emulate by four writes through SetFields
        for n in names:
            ops.append([0, [[fl.field_sx(self.DEFAULT_FDS[n]), []]]])
            ops.append([5, [fl.value_sx(self.DEFAULT_VALS[n])]])
        return [0, [[], [], [], False], ops]

    def model_obs(self, case, res):
        if case["t"] == "field":
            out, fits = res
            if case["mode"] == "str":
                return {"out": fl.ostr(out), "fits": bool(fits)}
            return {"out": fl.obytes(out), "fits": bool(fits)}
        if case["t"] == "line":
            dec = fl.obytes if case["binary"] else fl.ostr
            res = list(res)
            fits, outs = [], []
            for k, (_, _, _, rows) in enumerate(self.line_stages(case)):
                if k:
                    res.pop(0)                      # the setter's (empty) result
                for _ in rows:
                    fits.append(res.pop(0))
                    outs.append(dec(res.pop(0)))
            obs = {"out": outs[-1], "fits": all(all(f) for f in fits)}
            if "history" in case or "before" in case:
                obs["hist"] = outs[:-1]
            return obs
        obs = {}
        for i, n in enumerate(["lit", "int", "float", "date"]):
            fd = self.DEFAULT_FDS[n]
            text = fl.ostr(res[2 * i + 1])
            obs[n] = [fd["size"], fd["start"], fd["start"] + fd["size"], text[:-1] if text else None]
        return obs

    def in_domain(self, case, mobs):
        return case["t"] == "default" or mobs["fits"]

    def compare(self, case, iobs, mobs):
        if case["t"] == "default":
            return None if iobs == mobs else "defaults differ: impl=%s model=%s" % (iobs, mobs)
        if iobs.get("out") == mobs["out"] and (case["t"] != "line" or iobs.get("hist") == mobs.get("hist")):
            return None         # (a field's earlier writes are judged by the oracle; the model is asked for the measured one)
        return "impl=%r model=%r" % ([iobs.get("hist"), iobs.get("out")], [mobs.get("hist"), mobs["out"]])

    # ---- direct oracle (from the property text)
    def oracle(self, case, obs):
        if case["t"] == "default":
            exp = {"lit": [80, 0, 80, "ab".ljust(80)], "int": [8, 0, 8, "      12"], "float": [8, 0, 8, "  1.5000"],
                   "date": [16, 0, 16, "2021/03/04".ljust(16)]}
            return None if obs == exp else "default-constructed field geometry/rendering differs from the documented defaults"
        # every write through the object is judged, the earlier ones (history) like the measured one
        if case["t"] == "field":
            steps = case.get("history", []) + [[case["v"], case["target"], case["mode"]]]
            outs = list(obs.get("hist", [])) + [obs.get("out")]
            judge1 = lambda step, out: self.field_frame(case["fd"], step[0], step[1], step[2], out)
        else:
            steps = self.line_writes(case)      # (the layout the Line has at that moment, the record)
            outs = list(obs.get("hist", [])) + [obs.get("out")]
            judge1 = lambda step, out: self.line_shape(step[0], step[1], case["binary"], out)
        if len(outs) != len(steps):
            return "the observation has %d writes, the case %d" % (len(outs), len(steps))
        for k, (step, out) in enumerate(zip(steps, outs)):
            w = ("write raised on a fitting value: %s" % (obs,)) if out is None else judge1(step, out)
            if w:
                return w if len(steps) == 1 else w + " (write #%d of %d through the same object)" % (k + 1, len(steps))
        return None

    def field_frame(self, fd, v, target, mode, out):
        """one Field.write(target): only the field's own span changes, a shorter target is first padded with blanks"""
        s, e = fd["start"], fd["start"] + fd["size"]
        tgt = target if mode == "str" else list(target.encode("latin-1"))
        blank = " " if mode == "str" else 32
        padded = list(tgt) + [blank] * max(0, e - len(tgt))
        out_l = list(out)
        if len(out_l) != max(len(tgt), e):
            return "length of the written line is %d, expected max(len(line), span end) = %d" % (len(out_l), max(len(tgt), e))
        if out_l[:s] != padded[:s] or out_l[e:] != padded[e:]:
            return "positions outside the span changed"
        if mode == "str":
            return self.justify("".join(out_l[s:e]), fd, v)
        return None

    def line_shape(self, fs, values, binary, out):
        """one Line.write(values): as long as the furthest field end (+ one newline in text storage), blank gaps, every field
        that owns its whole span rendered on its own columns"""
        end = max(fd["start"] + fd["size"] for fd in fs)
        if binary:
            if len(out) != end:
                return "binary line length %d != furthest field end %d" % (len(out), end)
            body = out
            blank = 32
        else:
            if not out.endswith("\n") or out.count("\n") != 1:
                return "text line does not end with exactly one newline"
            body = out[:-1]
            if len(body) != end:
                return "text line length %d != furthest field end %d" % (len(body), end)
            blank = " "
        covered = set()
        owner = {}
        for i, fd in enumerate(fs):
            for col in range(fd["start"], fd["start"] + fd["size"]):
                owner[col] = i      # fields are written in declaration order: the last one covering a column owns it
        for i, (fd, v) in enumerate(zip(fs, values)):
            covered.update(range(fd["start"], fd["start"] + fd["size"]))
            if any(owner[col] != i for col in range(fd["start"], fd["start"] + fd["size"])):
                continue            # partly overwritten by a later, overlapping field: its visible part is compared with the model
            if not binary:
                w = self.justify(body[fd["start"]: fd["start"] + fd["size"]], fd, v)
                if w:
                    return w
        for i in range(end):
            if i not in covered and body[i] != blank:
                return "gap column %d is not blank" % i
        return None

    @staticmethod
    def justify(text, fd, v):
        if len(text) != fd["size"]:
            return "rendering is not exactly as wide as the field"
        if v is None or v[0] in ("nan", "nat"):
            return None if text.strip(" ") == "" else "missing value is not rendered as blanks"
        if fd["k"] in ("int", "float"):
            body = text.lstrip(" ")
            if " " in body or body == "":
                return "number is not right-justified"
            if fd["k"] == "int" and body != str(v[1]):
                return "integer rendering differs from str(value)"
        else:
            ref = v[1] if fd["k"] == "lit" else datetime.datetime(*v[1]).strftime(fd["formats"][0])
            if text != ref.ljust(fd["size"]):
                return "literal/date is not left-justified"
        return None

    def nontrivial(self, case, obs):
        if case["t"] == "field":
            return case["target"].strip() != ""
        if case["t"] == "line":
            return len(case["fields"]) >= 2
        return True

    def classify(self, case):
        if case["t"] == "field":
            d = {"field_" + case["fd"]["k"]: 1, "mode_" + case["mode"]: 1, "target_len_%02d" % len(case["target"]): 1,
                 "missing" if case["v"] is None or case["v"][0] in ("nan", "nat") else "present": 1}
            if "history" in case:
                d["field_earlier_writes_%d" % len(case["history"])] = 1
                ws = self.widths(case["fd"], [st[0] for st in case["history"]] + [case["v"]])
                d["field_history_renderings_of_%s" % ("different_widths" if len(ws) > 1 else "one_width")] = 1
            if is_textual(case["fd"]):
                d["field_textual_date_format_oracle_only"] = 1
            if case["fd"]["size"] == 0:
                e = case["fd"]["start"]
                d["field_zero_width_%s" % ("target_shorter_than_span_end" if len(case["target"]) < e else "target_reaches_span_end")] = 1
            if case["v"] and case["v"][0] == "date" and case["v"][1][0] < 1000:
                d["date_year_below_1000"] = 1
            return d
        if case["t"] == "line":
            d = {"line_binary" if case["binary"] else "line_text": 1, "line_fields_%d" % len(case["fields"]): 1}
            if "history" in case:
                d["line_earlier_records_%d" % len(case["history"])] = 1
            if not self.comparable(case):
                d["line_textual_date_format_oracle_only"] = 1
            if any(fd["size"] == 0 for fd in case["fields"]):
                end = max(fd["start"] + fd["size"] for fd in case["fields"])
                wide = max([fd["start"] + fd["size"] for fd in case["fields"] if fd["size"]] or [0])
                d["line_zero_width_field_%s" % ("is_the_furthest_end" if wide < end else "inside_the_layout")] = 1
            if "before" in case:
                stages = self.line_stages(case)
                d["line_relayout_earlier_layouts_%d" % (len(stages) - 1)] = 1
                d["line_relayout_records_through_earlier_layouts_%d" % sum(len(st[3]) for st in stages[:-1])] = 1
                for fds, via, src, _ in stages[1:]:
                    how = "fields_moved_by_position_setters" if via == "move" else "fields_setter_new_objects" if all(j is None for j in src) \
                        else "fields_setter_rearranged_objects"
                    d["line_relayout_by_" + how] = 1
                tiles = [fds == self.tiled(fds) for fds, _, _, _ in stages]
                d["line_relayout_constructed_%s" % ("tiled_from_column_0" if tiles[0] else "with_gaps_or_out_of_order")] = 1
                d["line_relayout_measured_layout_%s" % ("tiled_from_column_0" if tiles[-1] else "with_gaps_or_out_of_order")] = 1
            return d
        return {"defaults": 1}

    @staticmethod
    def widths(fd, values):
        """the set of rendered widths among the non-missing values, where the reference knows the rendering"""
        ws = set()
        for v in values:
            if v is None or v[0] in ("nan", "nat"):
                continue
            if fd["k"] == "date":
                ws.add(len(datetime.datetime(*v[1]).strftime(fd["formats"][0])))
            elif fd["k"] in ("lit", "int"):
                ws.add(len(str(v[1])))
            else:
                ws.add(len("%.*f" % (fd["dd"], fl.b2f(v[1]))))
        return ws

    def signature(self, case, why):
        import re
        return re.sub(r"\d+", "N", why.split(" (write #")[0].split(" %")[0])[:60]      # the kind of failure, not its numbers

    def shrink(self, case):
        for i in range(len(case.get("history", []))):
            c = dict(case)
            c["history"] = case["history"][:i] + case["history"][i + 1:]
            yield c
        if case.get("history"):
            # the last earlier write as the measured one (it certainly fits: ref_fits)
            last = case["history"][-1]
            if case["t"] == "field":
                yield dict(case, history=case["history"][:-1], v=last[0], target=last[1], mode=last[2])
            else:
                yield dict(case, history=case["history"][:-1], values=last)
        if case["t"] == "field" and case.get("history"):
            # the same writes on empty targets, the field at column 0
            for i, st in enumerate(case["history"]):
                if st[1] != "":
                    c = dict(case)
                    c["history"] = case["history"][:i] + [[st[0], "", st[2]]] + case["history"][i + 1:]
                    yield c
            if case["target"] != "":
                yield dict(case, target="")
            if case["fd"]["start"] > 0:
                yield dict(case, fd=dict(case["fd"], start=0))
        if case["t"] == "line" and case.get("before"):
            yield from self.shrink_relayout(case)
        if case["t"] == "line" and len(case["fields"]) > 1 and not (case.get("before") and case.get("via") == "move"):
            for i in range(len(case["fields"])):
                c = dict(case)
                c["fields"] = case["fields"][:i] + case["fields"][i + 1:]
                c["values"] = case["values"][:i] + case["values"][i + 1:]
                if "history" in case:
                    c["history"] = [row[:i] + row[i + 1:] for row in case["history"]]
                if case.get("before"):
                    c["src"] = case["src"][:i] + case["src"][i + 1:]
                yield c

    @staticmethod
    def shrink_relayout(case):
        """fewer layouts, fewer records through the earlier layouts, new objects instead of kept / moved ones, fewer fields in the
        earlier layouts, the measured layout as a plain case"""
        before = case["before"]
        plain = {k: v for k, v in case.items() if k not in ("before", "via", "src")}
        yield plain

        def entered(st, via, src):
            st = {k: v for k, v in st.items() if k not in ("via", "src")}
            if via:
                st.update({"via": via, "src": src})
            return st

        def with_stages(stages):
            # stages: every layout with its entry, the last one being the measured layout
            c = dict(plain, before=[entered(st, st.get("via") if k else None, st.get("src")) for k, st in enumerate(stages[:-1])])
            c.update({"via": stages[-1]["via"], "src": stages[-1]["src"]})
            return c

        if before[-1]["rows"]:
            # the last earlier layout as the measured one (its records certainly fit: ref_fits)
            last = before[-1]
            c = dict(plain, fields=last["fields"], values=last["rows"][-1], history=last["rows"][:-1])
            if len(before) > 1:
                c.update({"before": before[:-1], "via": last["via"], "src": last["src"]})
            yield c
        stages = [dict(st) for st in before] + [{"fields": case["fields"], "via": case["via"], "src": case["src"]}]
        fresh = lambda st: dict(st, via="set", src=[None] * len(st["fields"]))
        for k in range(len(before)):
            if len(before) > 1:
                # without the k-th earlier layout; the layout after it is then entered with new objects
                rest = stages[:k] + [fresh(stages[k + 1])] + stages[k + 2:]
                yield with_stages(rest)
            for i in range(len(before[k]["rows"])):
                yield with_stages(stages[:k] + [dict(stages[k], rows=before[k]["rows"][:i] + before[k]["rows"][i + 1:])] + stages[k + 1:])
        for k in range(1, len(stages)):
            st = stages[k]
            if st["via"] == "move" or any(j is not None for j in st["src"]):
                yield with_stages(stages[:k] + [fresh(st)] + stages[k + 1:])
        for k in range(len(before)):
            nxt = stages[k + 1]
            if len(before[k]["fields"]) > 1 and stages[k].get("via") != "move" and all(j is None for j in nxt["src"]) and nxt["via"] == "set":
                for i in range(len(before[k]["fields"])):
                    st = dict(stages[k], fields=before[k]["fields"][:i] + before[k]["fields"][i + 1:],
                              rows=[row[:i] + row[i + 1:] for row in before[k]["rows"]])
                    if st.get("src") is not None:
                        st["src"] = st["src"][:i] + st["src"][i + 1:]
                    yield with_stages(stages[:k] + [st] + stages[k + 1:])

    def neighbours(self, case, rng):
        if case["t"] == "field":
            for ln in range(0, case["fd"]["start"] + case["fd"]["size"] + 3):
                c = dict(case)
                c["target"] = "#" * ln
                yield c
