"""C02 — fixed-width layout discipline: a write touches only its own columns."""
import datetime

from ..framework import Check
from .. import fieldlib as fl


def small_values(fd):
    """3-6 fitting values per kind covering every rendered width <= size"""
    n = fd["size"]
    k = fd["k"]
    out = [None]
    if k == "lit":
        out += [["str", "x" * w] for w in range(0, n + 1)] + [["str", "a b"[:n]]]
    elif k == "int":
        out += [["int", 10 ** w - 1] for w in range(0, n + 1) if w >= 1] + [["int", 0]] + [["int", -(10 ** (w - 1))] for w in range(1, n) if w >= 1]
    elif k == "float":
        out += [["float", fl.f2b(x)] for x in (0.0, 1.5, -2.25, 9.996, 12345.678, 0.05, -0.04, 99999.5)] + [["nan"]]
    else:
        out += [["date", [2024, 2, 29, 13, 5, 9, 0]], ["date", [1000, 12, 31, 0, 0, 0, 0]], ["nat"]]
    return out


class CHECK(Check):
    pid = "C02"
    entry = "FIELD"
    theorems = ["C02_field_frame", "C02_field_frame_bytes", "C02_width", "C02_justify_text", "C02_missing_blank",
                "C02_line_shape", "C02_line_shape_bytes", "C02_defaults"]
    rule = ("(a) complete enumeration of field kind x size<=S x start<=5 x target line length 0..start+size+3 x two "
            "target contents ('#'*n and a mixed pattern) x fitting values of every rendered width, str and bytes "
            "(S=5 quick, 8 thorough; float fields with dd in 0..2, F/E, both separators); (b) random multi-field "
            "layouts in any field order with gaps, text and binary; (c) default-constructed fields compared with the "
            "documented defaults. Values that do not fit (decided by the model's fits) are counted and skipped. "
            "non-trivial = the target line is non-empty and differs from blanks, or the layout has >= 2 fields; "
            "distinct = case hash"
            " Later additions: targets ending in line breaks/blanks/tabs; 30% of the multi-field layouts overlap.")
    exhaustive = True

    def entry_of(self, case):
        return "LINE" if case["t"] in ("line", "default") else "FIELD"

    def gen(self, tier, rng):
        S = 5 if tier == "quick" else 8
        for kind in ("lit", "int", "float", "date"):
            for size in range(1, S + 1):
                for start in range(0, 6 if tier == "thorough" else 4):
                    fds = []
                    if kind == "float":
                        for dd in (0, 1, 2):
                            for fmt, sep in (("F", "."), ("f", ","), ("E", ".")):
                                if fmt == "E" and size < 6 + dd:
                                    continue
                                fds.append({"k": "float", "size": size, "start": start, "dd": dd, "fmt": fmt, "sep": sep})
                    elif kind == "date":
                        for fmt in ("%m/%d", "%H%M", "%Y"):
                            if fl.date_width(fmt) <= size:
                                fds.append({"k": "date", "size": size, "start": start, "formats": [fmt]})
                    else:
                        fds.append({"k": kind, "size": size, "start": start})
                    for fd in fds:
                        for ln in range(0, start + size + 4):
                            # third content: targets ending in line breaks / blanks / tabs (a short target may still carry its
                            # terminator; padding must not touch it)
                            for content in (("#" * ln), ("ab\tc 0123456789xyz~"[:ln] if ln <= 18 else "z" * ln), ("x\n \t\n\n\r \n" * 4)[:ln]):
                                for v in small_values(fd):
                                    for mode in ("str", "bytes"):
                                        if mode == "bytes" and (fd["k"] in ("int", "float") and size not in (2, 4, 8)):
                                            continue
                                        if mode == "bytes" and kind in ("int", "float") and tier == "quick" and ln % 2:
                                            continue
                                        yield {"t": "field", "fd": fd, "v": v, "target": content, "mode": mode}
        n = 1500 if tier == "quick" else 30000
        for _ in range(n):
            binary = rng.random() < 0.35
            if binary:
                fs = []
                pos = rng.randint(0, 2)
                for _ in range(rng.randint(1, 5)):
                    k = rng.choice(["lit", "int", "float", "date"])
                    if k in ("int", "float"):
                        fd = {"k": k, "size": rng.choice([2, 4, 8]), "start": pos}
                        if k == "float":
                            fd.update({"dd": 2, "fmt": "F", "sep": "."})
                    else:
                        fd = fl.gen_field(rng, (k,), pos)
                    fs.append(fd)
                    pos = fd["start"] + fd["size"] + rng.choice([0, 0, 2])
                rng.shuffle(fs)
            else:
                fs = fl.gen_layout(rng)
            if len(fs) > 1 and rng.random() < 0.3:
                # overlapping fields (partial overlap, nesting, same start): a later field overwrites its own span only, the
                # line is as long as the furthest end, every other field stays on its columns
                i = rng.randrange(len(fs))
                j = rng.choice([k for k in range(len(fs)) if k != i])
                fs[i] = dict(fs[i], start=max(0, fs[j]["start"] + rng.choice([0, 0, 1, -1, fs[j]["size"] - 1])))
            vals = []
            for fd in fs:
                v = fl.gen_value(rng, fd)
                if binary and v and v[0] == "str":
                    v = ["str", "".join(c for c in v[1] if ord(c) < 128)]
                if binary and fd["k"] == "int" and v and v[0] == "int":
                    w = 8 * fd["size"]
                    v = ["int", max(-2 ** (w - 1), min(2 ** (w - 1) - 1, v[1]))]
                vals.append(v)
            yield {"t": "line", "fields": fs, "values": vals, "binary": binary}
        yield {"t": "default"}

    # ---- implementation
    def impl(self, case):
        if case["t"] == "field":
            import hashlib, json
            hh = int(hashlib.sha1(json.dumps(case, sort_keys=True).encode()).hexdigest(), 16)
            f = fl.mk_field(case["fd"], fl.py_value_typed(case["v"], (hh >> 1) if hh & 1 else 0))
            if case["mode"] == "str":
                return {"out": f.write(case["target"])}
            try:
                return {"out": list(f.write(case["target"].encode("latin-1")))}
            except OverflowError:
                return {"out": None}
        if case["t"] == "line":
            from cfinterface.components.line import Line
            fields = [fl.mk_field(fd) for fd in case["fields"]]
            line = Line(fields, storage="BINARY" if case["binary"] else "TEXT")
            try:
                import hashlib, json
                hh = int(hashlib.sha1(json.dumps(case, sort_keys=True).encode()).hexdigest(), 16)
                out = line.write([fl.py_value_typed(v, (hh >> (3 * i + 1)) if hh & 1 else 0) for i, v in enumerate(case["values"])])
            except OverflowError:
                return {"out": None}
            return {"out": list(out) if isinstance(out, bytes) else out}
        from cfinterface.components.literalfield import LiteralField
        from cfinterface.components.integerfield import IntegerField
        from cfinterface.components.floatfield import FloatField
        from cfinterface.components.datetimefield import DatetimeField
        d = datetime.datetime(2021, 3, 4)
        obs = {}
        for name, cls, val in (("lit", LiteralField, "ab"), ("int", IntegerField, 12), ("float", FloatField, 1.5), ("date", DatetimeField, d)):
            f = cls()
            f.value = val
            obs[name] = [f.size, f.starting_position, f.ending_position, f.write("")]
        return obs

    DEFAULT_FDS = {"lit": {"k": "lit", "size": 80, "start": 0}, "int": {"k": "int", "size": 8, "start": 0},
                   "float": {"k": "float", "size": 8, "start": 0, "dd": 4, "fmt": "F", "sep": "."},
                   "date": {"k": "date", "size": 16, "start": 0, "formats": ["%Y/%m/%d"]}}
    DEFAULT_VALS = {"lit": ["str", "ab"], "int": ["int", 12], "float": ["float", fl.f2b(1.5)], "date": ["date", [2021, 3, 4, 0, 0, 0, 0]]}

    def model_arg(self, case):
        if case["t"] == "field":
            tgt = case["target"]
            return [6 if case["mode"] == "str" else 7, fl.field_sx(case["fd"]), fl.value_sx(case["v"]), tgt]
        if case["t"] == "line":
            st = [[fl.field_sx(fd), []] for fd in case["fields"]]
            vals = [fl.value_sx(v) for v in case["values"]]
            return [0, [st, [], [], case["binary"]], [[8, vals], [5, vals]]]
        ops = []
        st = []
        names = ["lit", "int", "float", "date"]
        # one single-field line per default field: emulate by four writes through SetFields
        for n in names:
            ops.append([0, [[fl.field_sx(self.DEFAULT_FDS[n]), []]]])
            ops.append([5, [fl.value_sx(self.DEFAULT_VALS[n])]])
        return [0, [[], [], [], False], ops]

    def model_obs(self, case, res):
        if case["t"] == "field":
            out, fits = res
            if case["mode"] == "str":
                return {"out": fl.ostr(out), "fits": bool(fits)}
            return {"out": fl.obytes(out), "fits": bool(fits)}
        if case["t"] == "line":
            fits, out = res
            return {"out": (fl.obytes(out) if case["binary"] else fl.ostr(out)), "fits": all(fits)}
        obs = {}
        for i, n in enumerate(["lit", "int", "float", "date"]):
            fd = self.DEFAULT_FDS[n]
            text = fl.ostr(res[2 * i + 1])
            obs[n] = [fd["size"], fd["start"], fd["start"] + fd["size"], text[:-1] if text else None]
        return obs

    def in_domain(self, case, mobs):
        return case["t"] == "default" or mobs["fits"]

    def compare(self, case, iobs, mobs):
        if case["t"] == "default":
            return None if iobs == mobs else "defaults differ: impl=%s model=%s" % (iobs, mobs)
        if iobs.get("out") == mobs["out"]:
            return None
        return "impl=%r model=%r" % (iobs.get("out"), mobs["out"])

    # ---- direct oracle (from the property text)
    def oracle(self, case, obs):
        if case["t"] == "default":
            exp = {"lit": [80, 0, 80, "ab".ljust(80)], "int": [8, 0, 8, "      12"], "float": [8, 0, 8, "  1.5000"],
                   "date": [16, 0, 16, "2021/03/04".ljust(16)]}
            return None if obs == exp else "default-constructed field geometry/rendering differs from the documented defaults"
        if "out" not in obs or obs["out"] is None:
            return "write raised on a fitting value: %s" % (obs,)
        out = obs["out"]
        if case["t"] == "field":
            fd = case["fd"]
            s, e = fd["start"], fd["start"] + fd["size"]
            tgt = case["target"] if case["mode"] == "str" else list(case["target"].encode("latin-1"))
            blank = " " if case["mode"] == "str" else 32
            padded = list(tgt) + [blank] * max(0, e - len(tgt))
            out_l = list(out)
            if len(out_l) != max(len(tgt), e):
                return "length of the written line is %d, expected max(len(line), span end) = %d" % (len(out_l), max(len(tgt), e))
            if out_l[:s] != padded[:s] or out_l[e:] != padded[e:]:
                return "positions outside the span changed"
            if case["mode"] == "str":
                return self.justify("".join(out_l[s:e]), fd, case["v"])
            return None
        # line
        fs = case["fields"]
        end = max(fd["start"] + fd["size"] for fd in fs)
        if case["binary"]:
            if len(out) != end:
                return "binary line length %d != furthest field end %d" % (len(out), end)
            body = out
            blank = 32
        else:
            if not out.endswith("\n") or out.count("\n") != 1:
                return "text line does not end with exactly one newline"
            body = out[:-1]
            if len(body) != end:
                return "text line length %d != furthest field end %d" % (len(body), end)
            blank = " "
        covered = set()
        owner = {}
        for i, fd in enumerate(fs):
            for col in range(fd["start"], fd["start"] + fd["size"]):
                owner[col] = i      # fields are written in declaration order: the last one covering a column owns it
        for i, (fd, v) in enumerate(zip(fs, case["values"])):
            covered.update(range(fd["start"], fd["start"] + fd["size"]))
            if any(owner[col] != i for col in range(fd["start"], fd["start"] + fd["size"])):
                continue            # partly overwritten by a later, overlapping field: its visible part is compared with the model
            if not case["binary"]:
                w = self.justify(body[fd["start"]: fd["start"] + fd["size"]], fd, v)
                if w:
                    return w
        for i in range(end):
            if i not in covered and body[i] != blank:
                return "gap column %d is not blank" % i
        return None

    @staticmethod
    def justify(text, fd, v):
        if len(text) != fd["size"]:
            return "rendering is not exactly as wide as the field"
        if v is None or v[0] in ("nan", "nat"):
            return None if text.strip(" ") == "" else "missing value is not rendered as blanks"
        if fd["k"] in ("int", "float"):
            body = text.lstrip(" ")
            if " " in body or body == "":
                return "number is not right-justified"
            if fd["k"] == "int" and body != str(v[1]):
                return "integer rendering differs from str(value)"
        else:
            ref = v[1] if fd["k"] == "lit" else datetime.datetime(*v[1]).strftime(fd["formats"][0])
            if text != ref.ljust(fd["size"]):
                return "literal/date is not left-justified"
        return None

    def nontrivial(self, case, obs):
        if case["t"] == "field":
            return case["target"].strip() != ""
        if case["t"] == "line":
            return len(case["fields"]) >= 2
        return True

    def classify(self, case):
        if case["t"] == "field":
            return {"field_" + case["fd"]["k"]: 1, "mode_" + case["mode"]: 1, "target_len_%02d" % len(case["target"]): 1,
                    "missing" if case["v"] is None or case["v"][0] in ("nan", "nat") else "present": 1}
        if case["t"] == "line":
            return {"line_binary" if case["binary"] else "line_text": 1, "line_fields_%d" % len(case["fields"]): 1}
        return {"defaults": 1}

    def signature(self, case, why):
        return why.split(" %")[0][:60]

    def shrink(self, case):
        if case["t"] == "line" and len(case["fields"]) > 1:
            for i in range(len(case["fields"])):
                c = dict(case)
                c["fields"] = case["fields"][:i] + case["fields"][i + 1:]
                c["values"] = case["values"][:i] + case["values"][i + 1:]
                yield c

    def neighbours(self, case, rng):
        if case["t"] == "field":
            for ln in range(0, case["fd"]["start"] + case["fd"]["size"] + 3):
                c = dict(case)
                c["target"] = "#" * ln
                yield c
