"""C20 — tabular view mirrors the registers of a type without aliasing them."""
import datetime

from ..framework import Check
from .. import fieldlib as fl, reglib, lib

FRAMEWORK = ["data", "empty", "is_first", "is_last", "next", "previous", "custom_properties"]
NAME_POOL = ["alpha", "beta", "Zeta", "a1", "value", "codigo", "_hidden", "x", "nome", "Data"]


def as_cell_value(x):
    """the strings "LIST:a,b" stand for list-valued property values (the model sees an opaque text, the register holds a list)"""
    if isinstance(x, str) and x.startswith("LIST:"):
        return [int(t) for t in x[5:].split(",") if t]
    return x


def canon_cell(x):
    import pandas as pd
    import numpy as np
    if isinstance(x, (list, tuple)):
        return ["str", "LIST:" + ",".join(str(t) for t in x)]
    try:
        if x is None or x is pd.NaT or (isinstance(x, float) and x != x) or pd.isnull(x):
            return None
    except (TypeError, ValueError):
        pass
    if isinstance(x, (bool, np.bool_)):
        return ["num", float(x)]
    if isinstance(x, (int, float, np.integer, np.floating)):
        return ["num", float(x)]
    if isinstance(x, str):
        return ["str", x]
    if isinstance(x, (datetime.datetime, pd.Timestamp)):
        x = pd.Timestamp(x).to_pydatetime()
        return ["date", fl.dates.dt_tuple(x)]
    return ["other", repr(x)[:60]]


def canon_val(v):
    if v is None or v[0] in ("nan", "nat"):
        return None
    if v[0] == "int":
        return ["num", float(v[1])]
    if v[0] == "float":
        return ["num", fl.b2f(v[1])]
    if v[0] == "str":
        return ["str", v[1]]
    return ["date", v[1]]


class CHECK(Check):
    pid = "C20"
    entry = "C20"
    theorems = ["C20_columns", "C20_rows", "C20_shape", "C20_empty"]
    rule = ("register types with 0-5 user-defined properties (names sorting before/after each other and around the framework's "
            "own property names) over mixed field kinds x files of 0-10 registers of the type interleaved with registers of "
            "another type, of a SUBCLASS type adding 0-2 properties, and free-text lines; 1-3 successive views of parent / child / other type on the same file; missing values (None/NaN/NaT) in any position; observed: column names, shape, "
            "every cell after null canonicalisation, custom_properties, and the registers' data after editing the frame in "
            "place. non-trivial = at least 2 registers of the type and 1 property; distinct = hash"
            " Later additions: dates outside the datetime64[ns] window, list-valued property values, a subclass type adding properties, two files, a subclass overriding a getter and sharing a file with its parent type.")
    not_exhibited = ["pandas dtype inference and null representation (cells are compared after null canonicalisation)"]

    def gen(self, tier, rng):
        n = 1500 if tier == "quick" else 20000
        for _ in range(n):
            nprops = rng.choice([0, 1, 1, 2, 3, 4, 5])
            names = rng.sample(NAME_POOL, nprops)
            kinds = [rng.choice(["int", "float", "lit", "date"]) for _ in range(nprops)]
            other_names = rng.sample(NAME_POOL, rng.randint(0, 2))
            extra = [n for n in rng.sample(NAME_POOL, rng.randint(0, 2)) if n not in names]
            ekinds = [rng.choice(["int", "lit"]) for _ in extra]
            # the subclass may OVERRIDE the getter of the parent's first property (and then adds none of its own, so that parent and
            # child registers can share a file): a cell is that register's own property value
            override = bool(names) and rng.random() < 0.3
            if override:
                extra, ekinds = [], []

            def gen_elems(family_type0):
                elems = []
                for _ in range(rng.randint(0, 10)):
                    k = rng.random()
                    family_type = rng.choice([0, 2]) if override else family_type0
                    if k < 0.6:
                        vals = []
                        for kd in kinds + (ekinds if family_type == 2 else []):
                            r = rng.random()
                            if r < 0.2:
                                vals.append(rng.choice([None, ["nan"] if kd == "float" else None, ["nat"] if kd == "date" else None]))
                            elif kd == "int":
                                vals.append(["int", rng.randint(-50, 50)])
                            elif kd == "float":
                                vals.append(["float", fl.f2b(rng.choice([0.0, 1.5, -2.25, 1e10, 3.0]))])
                            elif kd == "lit":
                                vals.append(["str", rng.choice(["", "ab", "x y", "NaN", "ab", "x y", "LIST:1,2", "LIST:7", "LIST:"])])
                            else:
                                # years outside the datetime64[ns] window (1677-09-21 .. 2262-04-11) included: sentinel dates such as 9999-12-31 are common
                                vals.append(["date", [rng.choice([1, 1000, 1650, 1677, 1678, 2262, 2263, 2300, 9999] + [rng.randint(1990, 2030)] * 9), rng.randint(1, 12), rng.randint(1, 28), rng.choice([0, 0, 13]), 0, 0, rng.choice([0, 0, 999999])]])
                        elems.append([family_type, vals])
                    elif k < 0.8:
                        elems.append([1, [["int", rng.randint(0, 9)] for _ in other_names]])
                    else:
                        elems.append([-1, "free text\n"])
                return elems
            files = [gen_elems(0), gen_elems(2)]
            # a view = (file, requested type); file 0 holds parent-type registers, file 1 child-type registers
            reqs = rng.choice([[[0, 0]], [[0, 0], [1, 2]], [[1, 2], [0, 0]], [[0, 0], [1, 2], [0, 0]], [[0, 1], [0, 0]], [[1, 2]],
                               [[1, 0]], [[0, 0], [1, 0], [1, 1]], [[0, 2]]])
            case = {"names": names, "kinds": kinds, "other_names": other_names, "extra": extra, "files": files, "reqs": reqs}
            if override:
                case["override"] = True
            yield case

    def impl(self, case):
        from cfinterface.components.register import Register
        from cfinterface.components.defaultregister import DefaultRegister
        from cfinterface.data.registerdata import RegisterData
        from cfinterface.files.registerfile import RegisterFile

        import hashlib, json
        hh = int(hashlib.sha1(json.dumps(case, sort_keys=True).encode()).hexdigest(), 16)

        def mkcls(name, ident, names):
            ns = {"IDENTIFIER": ident, "IDENTIFIER_DIGITS": 2, "__slots__": []}
            props = {n: property(lambda self, i=i: self.data[i]) for i, n in enumerate(names)}
            how = hh % 3
            if how == 0 or not names:
                ns.update(props)
                return type(name, (Register,), ns)
            # the properties come from a mixin, listed after (how == 1) or before (how == 2) the framework class
            mixin = type(name + "Mixin", (object,), dict(props, __slots__=[]))
            return type(name, (Register, mixin) if how == 1 else (mixin, Register), ns)

        def mkchild(name, base, names, offset):
            ns = {"__slots__": []}
            for i, n in enumerate(names):
                ns[n] = property(lambda self, i=i: self.data[offset + i])
            return type(name, (base,), ns)

        T0 = mkcls("T0", "T0", case["names"])
        T1 = mkcls("T1", "T1", case["other_names"])
        T2 = mkchild("T2", T0, case["extra"], len(case["names"]))
        if case.get("override"):
            nn = len(case["names"])
            T2 = type("T2o", (T0,), {"__slots__": [], case["names"][0]: property((lambda self: self.data[nn - 1]) if nn > 1 else (lambda self: 77))})
        types = [T0, T1, T2]
        regs = []
        fobjs = []
        for elems in case["files"]:
            data = RegisterData(DefaultRegister(data=""))
            for i, d in elems:
                if i < 0:
                    data.append(DefaultRegister(data=d))
                else:
                    r = types[i](data=[as_cell_value(fl.py_value(v)) for v in d])
                    regs.append(r)
                    data.append(r)
            fobjs.append(RegisterFile(data))
        views = []
        try:
            before = [[fl.canon_value(x) for x in r.data] for r in regs]
            for fi, rq in case["reqs"]:
                df = fobjs[fi]._as_df(types[rq])
                cols = [str(c) for c in df.columns]
                cells = [[canon_cell(df.iloc[i, j]) for j in range(df.shape[1])] for i in range(df.shape[0])]
                views.append({"cols": cols, "shape": list(df.shape), "cells": cells})
                # edit the frame in place
                if df.shape[0] and df.shape[1]:
                    df.iloc[0, 0] = None
                    df[df.columns[-1]] = 12345
                    df.drop(df.index, inplace=True)
            cp = [T0().custom_properties, T2().custom_properties]
            after = [[fl.canon_value(x) for x in r.data] for r in regs]
        except Exception as e:
            return {"raised": type(e).__name__ + ": " + str(e)[:100]}
        return {"views": views, "custom": cp, "aliased": before != after}

    def names_of(self, case, i):
        return [case["names"], case["other_names"], case["names"] + case["extra"]][i]

    def props_of(self, case, i, d):
        """the property values of a register of type i holding data d, in names_of order"""
        d = list(d)
        if i == 2 and case.get("override"):
            d[0] = d[len(case["names"]) - 1] if len(case["names"]) > 1 else ["int", 77]
        return d

    def model_arg(self, case):
        types = [self.names_of(case, i) + FRAMEWORK for i in range(3)]
        sub = [[1, 0, 0], [0, 1, 0], [1, 0, 1]]
        views = []
        for fi, rq in case["reqs"]:
            regs = []
            for i, d in case["files"][fi]:
                if i >= 0:
                    regs.append([i, [[n, fl.value_sx(v)] for n, v in zip(self.names_of(case, i), self.props_of(case, i, d))]])
            views.append([rq, regs])
        return [types, sub, views]

    def model_obs(self, case, res):
        views = []
        for r in res:
            cols = [lib.to_str(c) for c in r[0]]
            cells = [[canon_val(self._back(c)) for c in row] for row in r[1]]
            views.append({"cols": cols, "shape": [len(cells), len(cols)], "cells": cells})
        return {"views": views, "custom": [sorted(case["names"]), sorted(case["names"] + case["extra"])], "aliased": False}

    @staticmethod
    def _back(sx):
        v = fl.canon_model_value(sx)
        if v is None:
            return None
        if v[0] == "float" and v[1] == fl.NANBITS:
            return ["nan"]
        return v

    def oracle(self, case, obs):
        if "raised" in obs:
            return "_as_df raised: %s" % obs["raised"]
        if obs["custom"] != [sorted(case["names"]), sorted(case["names"] + case["extra"])]:
            return "custom_properties is not the sorted list of user-defined properties"
        isa = {0: (0, 2), 1: (1,), 2: (2,)}
        for (fi, rq), v in zip(case["reqs"], obs["views"]):
            members = [(i, d) for i, d in case["files"][fi] if i in isa[rq]]
            # a file holds registers of one exact type per family, so "the type's properties" is unambiguous
            names = self.names_of(case, members[0][0]) if members else []
            if not members or not names:
                if v["shape"][0] != 0 or v["shape"][1] != 0:
                    return "view is not empty although there is no register of the type or no property"
                continue
            cols = sorted(names)
            if v["cols"] != cols:
                return "columns are not the user-defined properties of the type"
            if v["shape"] != [len(members), len(cols)]:
                return "view does not have one row per register of the type"
            for (i, r), row in zip(members, v["cells"]):
                nm = self.names_of(case, i)
                r = self.props_of(case, i, r)
                exp = [canon_val(r[nm.index(c)]) for c in cols]
                if row != exp:
                    return "cell differs from the register's property value"
        if obs["aliased"]:
            return "editing the frame changed the registers"
        return None

    def nontrivial(self, case, obs):
        return len(case["names"]) >= 1 and sum(1 for i, _ in case["files"][0] + case["files"][1] if i in (0, 2)) >= 2

    def classify(self, case):
        return {"props_%d" % len(case["names"]): 1, "regs_%02d" % sum(1 for i, _ in case["files"][0] + case["files"][1] if i in (0, 2)): 1,
                "views_%d" % len(case["reqs"]): 1, "child_props_%d" % len(case["extra"]): 1,
                "child_overrides_getter" if case.get("override") else "child_keeps_getters": 1}

    def signature(self, case, why):
        return why.split(":")[0]

    def shrink(self, case):
        for fi in (0, 1):
            for i in range(len(case["files"][fi])):
                c = dict(case)
                c["files"] = [list(x) for x in case["files"]]
                del c["files"][fi][i]
                yield c

    def neighbours(self, case, rng):
        return []
