"""C20 — tabular view mirrors the registers of a type without aliasing them."""
import datetime

from ..framework import Check
from .. import fieldlib as fl, reglib, lib

FRAMEWORK = ["data", "empty", "is_first", "is_last", "next", "previous", "custom_properties"]
NAME_POOL = ["alpha", "beta", "Zeta", "a1", "value", "codigo", "_hidden", "x", "nome", "Data"]


def canon_cell(x):
    import pandas as pd
    import numpy as np
    try:
        if x is None or x is pd.NaT or (isinstance(x, float) and x != x) or pd.isnull(x):
            return None
    except (TypeError, ValueError):
        pass
    if isinstance(x, (bool, np.bool_)):
        return ["num", float(x)]
    if isinstance(x, (int, float, np.integer, np.floating)):
        return ["num", float(x)]
    if isinstance(x, str):
        return ["str", x]
    if isinstance(x, (datetime.datetime, pd.Timestamp)):
        x = pd.Timestamp(x).to_pydatetime()
        return ["date", fl.dates.dt_tuple(x)]
    return ["other", repr(x)[:60]]


def canon_val(v):
    if v is None or v[0] in ("nan", "nat"):
        return None
    if v[0] == "int":
        return ["num", float(v[1])]
    if v[0] == "float":
        return ["num", fl.b2f(v[1])]
    if v[0] == "str":
        return ["str", v[1]]
    return ["date", v[1]]


class CHECK(Check):
    pid = "C20"
    entry = "C20"
    theorems = ["C20_columns", "C20_rows", "C20_shape", "C20_empty"]
    rule = ("register types with 0-5 user-defined properties (names sorting before/after each other and around the framework's "
            "own property names) over mixed field kinds x files of 0-10 registers of the type interleaved with registers of "
            "another type and free-text lines, missing values (None/NaN/NaT) in any position; observed: column names, shape, "
            "every cell after null canonicalisation, custom_properties, and the registers' data after editing the frame in "
            "place. non-trivial = at least 2 registers of the type and 1 property; distinct = hash")
    not_exhibited = ["pandas dtype inference and null representation (cells are compared after null canonicalisation)"]

    def gen(self, tier, rng):
        n = 1500 if tier == "quick" else 20000
        for _ in range(n):
            nprops = rng.choice([0, 1, 1, 2, 3, 4, 5])
            names = rng.sample(NAME_POOL, nprops)
            kinds = [rng.choice(["int", "float", "lit", "date"]) for _ in range(nprops)]
            other_names = rng.sample(NAME_POOL, rng.randint(0, 2))
            elems = []
            for _ in range(rng.randint(0, 12)):
                k = rng.random()
                if k < 0.6:
                    vals = []
                    for kd in kinds:
                        r = rng.random()
                        if r < 0.2:
                            vals.append(rng.choice([None, ["nan"] if kd == "float" else None, ["nat"] if kd == "date" else None]))
                        elif kd == "int":
                            vals.append(["int", rng.randint(-50, 50)])
                        elif kd == "float":
                            vals.append(["float", fl.f2b(rng.choice([0.0, 1.5, -2.25, 1e10, 3.0]))])
                        elif kd == "lit":
                            vals.append(["str", rng.choice(["", "ab", "x y", "NaN"])])
                        else:
                            vals.append(["date", [rng.randint(1990, 2030), rng.randint(1, 12), rng.randint(1, 28), 0, 0, 0, 0]])
                    elems.append([0, vals])
                elif k < 0.8:
                    elems.append([1, [["int", rng.randint(0, 9)] for _ in other_names]])
                else:
                    elems.append([-1, "free text\n"])
            yield {"names": names, "kinds": kinds, "other_names": other_names, "elems": elems, "req": rng.choice([0, 0, 0, 1])}

    def impl(self, case):
        from cfinterface.components.register import Register
        from cfinterface.components.defaultregister import DefaultRegister
        from cfinterface.data.registerdata import RegisterData
        from cfinterface.files.registerfile import RegisterFile

        def mkcls(name, ident, names):
            ns = {"IDENTIFIER": ident, "IDENTIFIER_DIGITS": 2, "__slots__": []}
            for i, n in enumerate(names):
                ns[n] = property(lambda self, i=i: self.data[i])
            return type(name, (Register,), ns)

        T0 = mkcls("T0", "T0", case["names"])
        T1 = mkcls("T1", "T1", case["other_names"])
        types = [T0, T1]
        data = RegisterData(DefaultRegister(data=""))
        regs = []
        for i, d in case["elems"]:
            if i < 0:
                data.append(DefaultRegister(data=d))
            else:
                r = types[i](data=[fl.py_value(v) for v in d])
                regs.append(r)
                data.append(r)
        f = RegisterFile(data)
        try:
            df = f._as_df(types[case["req"]])
            cols = [str(c) for c in df.columns]
            cells = [[canon_cell(df.iloc[i, j]) for j in range(df.shape[1])] for i in range(df.shape[0])]
            shape = list(df.shape)
            cp = T0().custom_properties
            before = [[fl.canon_value(x) for x in r.data] for r in regs]
            # edit the frame in place
            if df.shape[0] and df.shape[1]:
                df.iloc[0, 0] = None
                df[df.columns[-1]] = 12345
                df.drop(df.index, inplace=True)
            after = [[fl.canon_value(x) for x in r.data] for r in regs]
        except Exception as e:
            return {"raised": type(e).__name__ + ": " + str(e)[:100]}
        return {"cols": cols, "shape": shape, "cells": cells, "custom": cp, "aliased": before != after}

    def model_arg(self, case):
        types = [case["names"] + FRAMEWORK, case["other_names"] + FRAMEWORK]
        regs = []
        for i, d in case["elems"]:
            if i < 0:
                continue
            names = case["names"] if i == 0 else case["other_names"]
            regs.append([i, [[n, fl.value_sx(v)] for n, v in zip(names, d)]])
        return [case["req"], types, regs]

    def model_obs(self, case, res):
        cols = [lib.to_str(c) for c in res[0]]
        cells = [[canon_val(self._back(c)) for c in row] for row in res[1]]
        return {"cols": cols, "shape": [len(cells), len(cols)], "cells": cells, "custom": sorted(case["names"]), "aliased": False}

    @staticmethod
    def _back(sx):
        v = fl.canon_model_value(sx)
        if v is None:
            return None
        if v[0] == "float" and v[1] == fl.NANBITS:
            return ["nan"]
        return v

    def oracle(self, case, obs):
        if "raised" in obs:
            return "_as_df raised: %s" % obs["raised"]
        names = case["names"] if case["req"] == 0 else case["other_names"]
        rows = [d for i, d in case["elems"] if i == case["req"]]
        if obs["custom"] != sorted(case["names"]):
            return "custom_properties is not the sorted list of user-defined properties"
        if not rows or not names:
            if obs["shape"][0] != 0 or obs["shape"][1] != 0:
                return "view is not empty although there is no register of the type or no property"
        else:
            cols = sorted(names)
            if obs["cols"] != cols:
                return "columns are not the user-defined properties of the type"
            if obs["shape"] != [len(rows), len(cols)]:
                return "view does not have one row per register of the type"
            for r, row in zip(rows, obs["cells"]):
                exp = [canon_val(r[names.index(c)]) for c in cols]
                if row != exp:
                    return "cell differs from the register's property value"
        if obs["aliased"]:
            return "editing the frame changed the registers"
        return None

    def nontrivial(self, case, obs):
        return len(case["names"]) >= 1 and sum(1 for i, _ in case["elems"] if i == 0) >= 2 and case["req"] == 0

    def classify(self, case):
        return {"props_%d" % len(case["names"]): 1, "regs_%02d" % sum(1 for i, _ in case["elems"] if i == case["req"]): 1,
                "req_%d" % case["req"]: 1}

    def signature(self, case, why):
        return why.split(":")[0]

    def shrink(self, case):
        for i in range(len(case["elems"])):
            c = dict(case)
            c["elems"] = case["elems"][:i] + case["elems"][i + 1:]
            yield c

    def neighbours(self, case, rng):
        return []
