"""C09 — binary fields round-trip exactly and keep the record width."""
import datetime
import math
import struct

from ..framework import Check
from .. import fieldlib as fl, dates

IFMT = {2: "<h", 4: "<i", 8: "<q"}
FFMT = {2: "<e", 4: "<f", 8: "<d"}


def ref_float_bytes(n, x):
    try:
        return struct.pack(FFMT[n], x)
    except OverflowError:
        return struct.pack(FFMT[n], math.copysign(math.inf, x))


def gen_bin_layout(rng):
    fs = []
    pos = rng.choice([0, 0, 1, 3])
    for _ in range(rng.randint(1, 6)):
        k = rng.choice(["int", "int", "float", "float", "lit", "date"])
        if k in ("int", "float"):
            fd = {"k": k, "size": rng.choice([2, 4, 8]), "start": pos}
            if k == "float":
                fd.update({"dd": 2, "fmt": "F", "sep": "."})
        elif k == "lit":
            fd = {"k": "lit", "size": rng.randint(1, 10), "start": pos}
        else:
            f = rng.choice(fl.DATE_FORMATS)
            fd = {"k": "date", "size": fl.date_width(f) + rng.randint(0, 2), "start": pos, "formats": [f]}
            if rng.random() < 0.2:
                fm = rng.choice([["%d/%m/%Y", "%m/%d/%Y"], ["%m/%d/%Y", "%d/%m/%Y"], ["%Y%m%d", "%Y%d%m"]])
                fd = {"k": "date", "size": fl.date_width(fm[0]) + rng.randint(0, 2), "start": pos, "formats": fm, "aslist": True}
        fs.append(fd)
        pos = fd["start"] + fd["size"] + rng.choice([0, 0, 0, 1, 4])
    rng.shuffle(fs)
    return fs


def gen_bin_value(rng, fd):
    k, n = fd["k"], fd["size"]
    r = rng.random()
    if r < 0.1:
        return rng.choice([None, ["nan"], ["nat"]])
    if k == "int":
        w = 8 * n
        return ["int", rng.choice([0, 1, -1, 2 ** (w - 1) - 1, -2 ** (w - 1), 2 ** (w - 1) - 2, -2 ** (w - 1) + 1, 255, 256, -256,
                                   rng.randint(-2 ** (w - 1), 2 ** (w - 1) - 1)])]
    if k == "float":
        c = rng.random()
        if c < 0.2 and n in (2, 4):
            # midpoint of two adjacent values of the field's width, nudged: exposes double rounding via a wider type
            w = {2: 16, 4: 32}[n]
            pat = rng.getrandbits(w) & ~(1 << (w - 1))
            a = struct.unpack(FFMT[n], pat.to_bytes(n, "little"))[0]
            b2 = struct.unpack(FFMT[n], (pat + 1).to_bytes(n, "little"))[0]
            if a == a and b2 == b2 and not math.isinf(a) and not math.isinf(b2):
                m = (a + b2) / 2
                x = rng.choice([m, math.nextafter(m, math.inf), math.nextafter(m, -math.inf), m * (1 + 2.0 ** -30), m * (1 - 2.0 ** -30),
                                m * (1 + 2.0 ** -40)])
                return ["float", fl.f2b(x * rng.choice([1, -1]))]
        if c < 0.5:
            b = rng.getrandbits(64)
            if (b >> 52) & 0x7FF == 0x7FF:
                b &= ~(1 << 62)
            return ["float", b]
        if c < 0.7:
            x = struct.unpack(FFMT[n], bytes(rng.getrandbits(8) for _ in range(n)))[0]
            if x != x or math.isinf(x):
                x = 1.5
            return ["float", fl.f2b(rng.choice([x, math.nextafter(x, 0), math.nextafter(x, math.inf)]))]
        return ["float", fl.f2b(rng.choice([0.0, -0.0, 105.4, 65504.0, 65520.0, 65519.99, 1e-8, 5.96e-8, 2.98e-8, 3.4028234663852886e38,
                                             3.4028235677973366e38, 1e39, -1e39, 1e-46, 7e-46, 0.1, 1 / 3, 2049.0, 2051.0, 4.9e-324]))]
    if k == "lit":
        s = "".join(rng.choice("abcXYZ019 .-_/") for _ in range(rng.randint(0, n))).strip()
        return ["str", s]
    return fl.gen_value(rng, fd, missing=0)


class CHECK(Check):
    pid = "C09"
    entry = "LINE"
    theorems = ["C09_int_roundtrip", "C09_int_patterns", "C09_int_field", "C09_int_edges", "C09_float_width", "C09_float_bits_roundtrip", "C09_missing", "C09_line_width",
                "C09_narrowing_is_round_nearest_even", "C09_narrowing_nearest", "C09_widening_exact", "C09_bits_of_value",
                "C09_float_reads_back_rounded", "C09_float_overflow", "C09_float64_exact", "C09_float_exact_if_representable"]
    property_files = ["C09", "C09real"]
    rule = ("(a) ALL 65 536 two-byte patterns read through an int16 field and written back (complete); (b) binary layouts "
            "of 1-6 fields (2/4/8-byte integers and floats, ASCII literals, dates; offsets, gaps, any order) x values: "
            "int boundaries +-1 of every width and random values, random finite float64 bit patterns, values that are "
            "exact in the narrower width and their neighbours, subnormals, overflow to inf, literals of every length, "
            "dates, None/NaN/NaT; each case writes, reads back and writes again; (c) single fields written into "
            "arbitrary pre-existing buffers of every length. non-trivial = not all values missing; distinct = hash"
            " Later additions: values handed over as numpy scalars / bool / pd.NA; value lists shorter than the layout; nudged midpoints between adjacent narrow floats.")
    exhaustive = True

    @staticmethod
    def case_hash(case):
        import hashlib, json
        return int(hashlib.sha1(json.dumps(case, sort_keys=True).encode()).hexdigest(), 16)

    def comparable(self, case):
        return not case.get("oracle_only")

    def entry_of(self, case):
        return "FIELD" if case["t"] == "buf" else "LINE"

    def gen(self, tier, rng):
        fd16 = {"k": "int", "size": 2, "start": 0}
        for i in range(65536):
            yield {"t": "pat", "fields": [fd16], "bytes": list(i.to_bytes(2, "little"))}
        for n in (2, 4, 8):
            fdf = {"k": "float", "size": n, "start": 0, "dd": 2, "fmt": "F", "sep": "."}
            rngN = 2000 if tier == "quick" else 60000
            if n == 2:
                for i in range(0, 65536, 1 if tier == "thorough" else 9):
                    yield {"t": "pat", "fields": [fdf], "bytes": list(i.to_bytes(2, "little"))}
            else:
                for _ in range(rngN):
                    yield {"t": "pat", "fields": [fdf], "bytes": [rng.getrandbits(8) for _ in range(n)]}
        n = 4000 if tier == "quick" else 120000
        for _ in range(n):
            fs = gen_bin_layout(rng)
            if rng.random() < 0.04:
                # date formats with textual directives (month / weekday names: variable width) are outside the model's format
                # language; such lines are judged by the reference oracle only
                f = rng.choice(["%d %B %Y", "%A %d/%m/%Y", "%b-%d-%Y %H:%M"])
                fd = {"k": "date", "size": 24, "start": 4, "formats": [f], "textual": True}
                d = [rng.choice([1999, 2024]), rng.randint(1, 12), rng.randint(1, 28), rng.choice([0, 13]) if "%H" in f else 0, rng.choice([0, 59]) if "%M" in f else 0, 0, 0]
                yield {"t": "line", "fields": [{"k": "int", "size": 4, "start": 0}, fd], "values": [["int", rng.randint(-9, 9)], ["date", d]], "oracle_only": True}
                continue
            case = {"t": "line", "fields": fs, "values": [gen_bin_value(rng, fd) for fd in fs]}
            if len(fs) > 1 and rng.random() < 0.2:
                # fewer values than fields: the remaining fields are written as missing values, the record keeps its width
                k = rng.randint(0, len(fs) - 1)
                case["values"] = case["values"][:k] + [None] * (len(fs) - k)
                case["nvals"] = k
            yield case
        for _ in range(1500 if tier == "quick" else 30000):
            fd = gen_bin_layout(rng)[0]
            ln = rng.randint(0, fd["start"] + fd["size"] + 3)
            yield {"t": "buf", "fd": fd, "v": gen_bin_value(rng, fd), "target": [rng.getrandbits(8) for _ in range(ln)]}

    def impl(self, case):
        import warnings
        warnings.simplefilter("ignore")
        from cfinterface.components.line import Line
        if case["t"] == "buf":
            f = fl.mk_field(case["fd"], fl.py_value_typed(case["v"], self.case_hash(case)))
            return {"out": list(f.write(bytes(case["target"])))}
        line = Line([fl.mk_field(fd) for fd in case["fields"]], storage="BINARY")
        if case["t"] == "pat":
            r = line.read(bytes(case["bytes"]))
            w = line.write(r)
            return {"read": [fl.canon_value(x) for x in r], "w2": list(w)}
        try:
            h = self.case_hash(case)
            w = line.write([fl.py_value_typed(v, (h >> (3 * i + 1)) if h & 1 else 0) for i, v in enumerate(case["values"])][: case.get("nvals", len(case["values"]))])
        except OverflowError:
            return {"raised": "OverflowError"}
        r = line.read(w)
        w2 = line.write(r)
        return {"w1": list(w), "read": [fl.canon_value(x) for x in r], "w2": list(w2)}

    def model_arg(self, case):
        if case["t"] == "buf":
            return [7, fl.field_sx(case["fd"]), fl.value_sx(case["v"]), case["target"]]
        ctor = [[[fl.field_sx(fd), []] for fd in case["fields"]], [], [], True]
        if case["t"] == "pat":
            return [0, ctor, [[4, case["bytes"]], [10]]]
        vals = [fl.value_sx(v) for v in case["values"]][: case.get("nvals", len(case["values"]))]
        return [0, ctor, [[8, vals], [5, vals], [9], [10]]]

    def model_obs(self, case, res):
        if case["t"] == "buf":
            return {"out": fl.obytes(res[0]), "fits": bool(res[1])}
        if case["t"] == "pat":
            return {"read": [fl.canon_model_value(v) for v in res[0]], "w2": fl.obytes(res[1]), "fits": True}
        fits, w1, r, w2 = res
        return {"w1": fl.obytes(w1), "read": [fl.canon_model_value(v) for v in r], "w2": fl.obytes(w2), "fits": all(fits)}

    def in_domain(self, case, mobs):
        return mobs["fits"]

    def compare(self, case, iobs, mobs):
        for k in iobs:
            if k in mobs and iobs[k] != mobs[k]:
                return "%s: impl=%r model=%r" % (k, iobs[k], mobs[k])
        if "raised" in iobs:
            return "implementation raised %s" % iobs["raised"]
        return None

    # ---- reference encodings from the property text (struct / int.to_bytes, numpy-free)
    @staticmethod
    def ref_bytes(fd, v):
        k, n = fd["k"], fd["size"]
        miss = v is None or v[0] in ("nan", "nat")
        if k == "int":
            return (0 if miss else v[1]).to_bytes(n, "little", signed=True)
        if k == "float":
            return ref_float_bytes(n, 0.0 if miss else fl.b2f(v[1]))
        if miss:
            return b" " * n
        if k == "lit":
            return v[1].ljust(n).encode("ascii")
        return datetime.datetime(*v[1]).strftime(fd["formats"][0]).ljust(n).encode("ascii")

    @staticmethod
    def ref_value(fd, v):
        k, n = fd["k"], fd["size"]
        miss = v is None or v[0] in ("nan", "nat")
        if k == "int":
            return ["int", 0 if miss else v[1]]
        if k == "float":
            return fl.canon_value(struct.unpack(FFMT[n], ref_float_bytes(n, 0.0 if miss else fl.b2f(v[1])))[0])
        if k == "lit":
            return ["str", "" if miss else v[1].strip()]
        if miss:
            return None
        f0 = fd["formats"][0]
        return ["date", dates.dt_tuple(datetime.datetime.strptime(datetime.datetime(*v[1]).strftime(f0), f0))]

    def oracle(self, case, obs):
        if "raised" in obs or "harness_exception" in obs:
            return "write/read raised: %s" % (obs,)
        if case["t"] == "buf":
            fd = case["fd"]
            s, e = fd["start"], fd["start"] + fd["size"]
            tgt = case["target"]
            padded = tgt + [32] * max(0, e - len(tgt))
            out = obs["out"]
            if len(out) != max(len(tgt), e):
                return "buffer length after write is wrong"
            if out[:s] != padded[:s] or out[e:] != padded[e:]:
                return "bytes outside the field's span changed"
            if bytes(out[s:e]) != self.ref_bytes(fd, case["v"]):
                return "field bytes differ from the reference encoding"
            return None
        if case["t"] == "pat":
            fd = case["fields"][0]
            if obs["w2"] != case["bytes"]:
                if fd["k"] == "float":
                    x = struct.unpack(FFMT[fd["size"]], bytes(case["bytes"]))[0]
                    if x != x:
                        return None   # NaN payloads are outside the property (finite floats)
                return "byte pattern does not survive a read/write cycle"
            if fd["k"] == "int" and obs["read"] != [["int", int.from_bytes(bytes(case["bytes"]), "little", signed=True)]]:
                return "two-byte pattern read as the wrong integer"
            return None
        fs, vals = case["fields"], case["values"]
        end = max(fd["start"] + fd["size"] for fd in fs)
        w1 = obs["w1"]
        if len(w1) != end:
            return "binary line is %d bytes, furthest field end is %d" % (len(w1), end)
        cov = set()
        for fd, v, got in zip(fs, vals, obs["read"]):
            s, e = fd["start"], fd["start"] + fd["size"]
            cov.update(range(s, e))
            if bytes(w1[s:e]) != self.ref_bytes(fd, v):
                return "field bytes differ from the reference encoding (%s, width %d)" % (fd["k"], fd["size"])
            if got != self.ref_value(fd, v):
                return "value read back differs (%s, width %d)" % (fd["k"], fd["size"])
        if any(w1[i] != 32 for i in range(end) if i not in cov):
            return "gap bytes are not blank"
        if obs["w2"] != w1:
            return "second write differs from the first"
        return None

    def nontrivial(self, case, obs):
        if case["t"] == "line":
            return any(v is not None and v[0] not in ("nan", "nat") for v in case["values"])
        return True

    def classify(self, case):
        d = {"t_" + case["t"]: 1}
        for fd in case.get("fields", [case.get("fd")] if case.get("fd") else []):
            key = "%s%d" % (fd["k"], fd["size"] if fd["k"] in ("int", "float") else 0)
            d[key] = d.get(key, 0) + 1
        return d

    def signature(self, case, why):
        import re
        return re.sub(r"[0-9]+", "#", why)[:70]

    def shrink(self, case):
        if case["t"] == "line" and len(case["fields"]) > 1:
            for i in range(len(case["fields"])):
                c = dict(case)
                c["fields"] = case["fields"][:i] + case["fields"][i + 1:]
                c["values"] = case["values"][:i] + case["values"][i + 1:]
                yield c

    def neighbours(self, case, rng):
        if case["t"] == "line":
            for _ in range(20):
                c = dict(case)
                c["values"] = [gen_bin_value(rng, fd) for fd in case["fields"]]
                yield c
