"""C09 — binary fields round-trip exactly and keep the record width."""
import datetime
import math
import struct

from ..framework import Check
from .. import fieldlib as fl, dates

IFMT = {2: "<h", 4: "<i", 8: "<q"}
FFMT = {2: "<e", 4: "<f", 8: "<d"}


def ref_float_bytes(n, x):
    try:
        return struct.pack(FFMT[n], x)
    except OverflowError:
        return struct.pack(FFMT[n], math.copysign(math.inf, x))


def gen_bin_layout(rng):
    fs = []
    pos = rng.choice([0, 0, 1, 3])
    for _ in range(rng.randint(1, 6)):
        k = rng.choice(["int", "int", "float", "float", "lit", "date"])
        if k in ("int", "float"):
            fd = {"k": k, "size": rng.choice([2, 4, 8]), "start": pos}
            if k == "float":
                fd.update({"dd": 2, "fmt": "F", "sep": "."})
        elif k == "lit":
            fd = {"k": "lit", "size": rng.randint(1, 10), "start": pos}
        else:
            f = rng.choice(fl.DATE_FORMATS)
            fd = {"k": "date", "size": fl.date_width(f) + rng.randint(0, 2), "start": pos, "formats": [f]}
            if rng.random() < 0.2:
                fm = rng.choice([["%d/%m/%Y", "%m/%d/%Y"], ["%m/%d/%Y", "%d/%m/%Y"], ["%Y%m%d", "%Y%d%m"]])
                fd = {"k": "date", "size": fl.date_width(fm[0]) + rng.randint(0, 2), "start": pos, "formats": fm, "aslist": True}
        fs.append(fd)
        pos = fd["start"] + fd["size"] + rng.choice([0, 0, 0, 1, 4])
    rng.shuffle(fs)
    return fs


def gen_bin_value(rng, fd):
    k, n = fd["k"], fd["size"]
    r = rng.random()
    if r < 0.1:
        return rng.choice([None, ["nan"], ["nat"]])
    if k == "int":
        w = 8 * n
        return ["int", rng.choice([0, 1, -1, 2 ** (w - 1) - 1, -2 ** (w - 1), 2 ** (w - 1) - 2, -2 ** (w - 1) + 1, 255, 256, -256,
                                   rng.randint(-2 ** (w - 1), 2 ** (w - 1) - 1)])]
    if k == "float":
        c = rng.random()
        if c < 0.2 and n in (2, 4):
            # midpoint of two adjacent values of the field's width, nudged: exposes double rounding via a wider type
            w = {2: 16, 4: 32}[n]
            pat = rng.getrandbits(w) & ~(1 << (w - 1))
            a = struct.unpack(FFMT[n], pat.to_bytes(n, "little"))[0]
            b2 = struct.unpack(FFMT[n], (pat + 1).to_bytes(n, "little"))[0]
            if a == a and b2 == b2 and not math.isinf(a) and not math.isinf(b2):
                m = (a + b2) / 2
                x = rng.choice([m, math.nextafter(m, math.inf), math.nextafter(m, -math.inf), m * (1 + 2.0 ** -30), m * (1 - 2.0 ** -30),
                                m * (1 + 2.0 ** -40)])
                return ["float", fl.f2b(x * rng.choice([1, -1]))]
        if c < 0.5:
            b = rng.getrandbits(64)
            if (b >> 52) & 0x7FF == 0x7FF:
                b &= ~(1 << 62)
            return ["float", b]
        if c < 0.7:
            x = struct.unpack(FFMT[n], bytes(rng.getrandbits(8) for _ in range(n)))[0]
            if x != x or math.isinf(x):
                x = 1.5
            return ["float", fl.f2b(rng.choice([x, math.nextafter(x, 0), math.nextafter(x, math.inf)]))]
        return ["float", fl.f2b(rng.choice([0.0, -0.0, 105.4, 65504.0, 65520.0, 65519.99, 1e-8, 5.96e-8, 2.98e-8, 3.4028234663852886e38,
                                             3.4028235677973366e38, 1e39, -1e39, 1e-46, 7e-46, 0.1, 1 / 3, 2049.0, 2051.0, 4.9e-324]))]
    if k == "lit":
        s = "".join(rng.choice("abcXYZ019 .-_/") for _ in range(rng.randint(0, n))).strip()
        return ["str", s]
    return fl.gen_value(rng, fd, missing=0)


HIST_OPS = ("r", "r", "r", "r", "w", "w", "v", "f", "g")


def gen_history(rng, fs):
    """an object history over ONE set of Field objects: 2-3 records (independent, or differing from the first in one field, or
    equal to it) and 3-8 steps, each through one of 1-3 Line objects declared over the same Field objects (what Register does
    with its class-level LINE) or through a Line made for that step alone (line index -1):
      ["w", li, r]     line.write(values of record r)             -> bytes, judged
      ["r", li, r]     line.read(reference bytes of record r)     -> values, judged
      ["v", li, r]     line.values = values of record r           (nothing observed)
      ["f", li, r, i]  line.fields[i].value = value i of record r (nothing observed)
      ["g", li, r, i]  line.fields[i].read(bytes of record r)     -> value, judged"""
    nrec = rng.randint(2, 3)
    recs = [[gen_bin_value(rng, fd) for fd in fs]]
    while len(recs) < nrec:
        c = rng.random()
        if c < 0.15:
            recs.append(list(recs[0]))
        elif c < 0.45:
            v = list(recs[0])
            i = rng.randrange(len(fs))
            v[i] = gen_bin_value(rng, fs[i])
            recs.append(v)
        else:
            recs.append([gen_bin_value(rng, fd) for fd in fs])
    nlines = rng.choice([1, 1, 2, 2, 3])
    steps = []
    for _ in range(rng.randint(3, 8)):
        op = rng.choice(HIST_OPS)
        li = -1 if rng.random() < 0.15 else rng.randrange(nlines)
        st = [op, li, rng.randrange(nrec)]
        if op in ("f", "g"):
            st.append(rng.randrange(len(fs)))
        steps.append(st)
    return {"t": "hist", "fields": fs, "recs": recs, "nlines": nlines, "steps": steps}


class CHECK(Check):
    pid = "C09"
    entry = "LINE"
    theorems = ["C09_int_roundtrip", "C09_int_patterns", "C09_int_field", "C09_int_edges", "C09_float_width", "C09_float_bits_roundtrip", "C09_missing", "C09_line_width",
                "C09_narrowing_is_round_nearest_even", "C09_narrowing_nearest", "C09_widening_exact", "C09_bits_of_value",
                "C09_float_reads_back_rounded", "C09_float_overflow", "C09_float64_exact", "C09_float_exact_if_representable"]
    property_files = ["C09", "C09real"]
    rule = ("(a) ALL 65 536 two-byte patterns read through an int16 field and written back (complete); (b) binary layouts "
            "of 1-6 fields (2/4/8-byte integers and floats, ASCII literals, dates; offsets, gaps, any order) x values: "
            "int boundaries +-1 of every width and random values, random finite float64 bit patterns, values that are "
            "exact in the narrower width and their neighbours, subnormals, overflow to inf, literals of every length, "
            "dates, None/NaN/NaT; each case writes, reads back and writes again; (c) single fields written into "
            "arbitrary pre-existing buffers of every length. non-trivial = not all values missing; distinct = hash"
            " Later additions: values handed over as numpy scalars / bool / pd.NA; value lists shorter than the layout; nudged midpoints between adjacent narrow floats; (d) object histories: 2-3 records "
            "(independent / one field apart / equal) x 3-8 steps through 1-3 Line objects declared over the SAME Field objects "
            "or a Line made for one step (write a record, read a record's bytes, line.values = ..., field.value = ..., "
            "field.read(bytes)) - every write must give the record's reference bytes and every read the values those bytes "
            "hold, whatever the objects were used for before (the model is run on the same sequence of writes, reads and "
            "value assignments; the two field-level steps are implementation-side only).")
    exhaustive = True

    @staticmethod
    def case_hash(case):
        import hashlib, json
        return int(hashlib.sha1(json.dumps(case, sort_keys=True).encode()).hexdigest(), 16)

    def comparable(self, case):
        return not case.get("oracle_only")

    def entry_of(self, case):
        return "FIELD" if case["t"] == "buf" else "LINE"

    def gen(self, tier, rng):
        fd16 = {"k": "int", "size": 2, "start": 0}
        for i in range(65536):
            yield {"t": "pat", "fields": [fd16], "bytes": list(i.to_bytes(2, "little"))}
        for n in (2, 4, 8):
            fdf = {"k": "float", "size": n, "start": 0, "dd": 2, "fmt": "F", "sep": "."}
            rngN = 2000 if tier == "quick" else 60000
            if n == 2:
                for i in range(0, 65536, 1 if tier == "thorough" else 9):
                    yield {"t": "pat", "fields": [fdf], "bytes": list(i.to_bytes(2, "little"))}
            else:
                for _ in range(rngN):
                    yield {"t": "pat", "fields": [fdf], "bytes": [rng.getrandbits(8) for _ in range(n)]}
        n = 4000 if tier == "quick" else 120000
        for _ in range(n):
            fs = gen_bin_layout(rng)
            if rng.random() < 0.04:
                # date formats with textual directives (month / weekday names: variable width) are outside the model's format
                # language; such lines are judged by the reference oracle only
                f = rng.choice(["%d %B %Y", "%A %d/%m/%Y", "%b-%d-%Y %H:%M"])
                fd = {"k": "date", "size": 24, "start": 4, "formats": [f], "textual": True}
                d = [rng.choice([1999, 2024]), rng.randint(1, 12), rng.randint(1, 28), rng.choice([0, 13]) if "%H" in f else 0, rng.choice([0, 59]) if "%M" in f else 0, 0, 0]
                yield {"t": "line", "fields": [{"k": "int", "size": 4, "start": 0}, fd], "values": [["int", rng.randint(-9, 9)], ["date", d]], "oracle_only": True}
                continue
            case = {"t": "line", "fields": fs, "values": [gen_bin_value(rng, fd) for fd in fs]}
            if len(fs) > 1 and rng.random() < 0.2:
                # fewer values than fields: the remaining fields are written as missing values, the record keeps its width
                k = rng.randint(0, len(fs) - 1)
                case["values"] = case["values"][:k] + [None] * (len(fs) - k)
                case["nvals"] = k
            yield case
        for _ in range(1200 if tier == "quick" else 30000):
            yield gen_history(rng, gen_bin_layout(rng))
        for _ in range(1500 if tier == "quick" else 30000):
            fd = gen_bin_layout(rng)[0]
            ln = rng.randint(0, fd["start"] + fd["size"] + 3)
            yield {"t": "buf", "fd": fd, "v": gen_bin_value(rng, fd), "target": [rng.getrandbits(8) for _ in range(ln)]}

    def impl(self, case):
        import warnings
        warnings.simplefilter("ignore")
        from cfinterface.components.line import Line
        if case["t"] == "buf":
            f = fl.mk_field(case["fd"], fl.py_value_typed(case["v"], self.case_hash(case)))
            return {"out": list(f.write(bytes(case["target"])))}
        if case["t"] == "hist":
            return self.impl_history(case)
        line = Line([fl.mk_field(fd) for fd in case["fields"]], storage="BINARY")
        if case["t"] == "pat":
            r = line.read(bytes(case["bytes"]))
            w = line.write(r)
            return {"read": [fl.canon_value(x) for x in r], "w2": list(w)}
        try:
            h = self.case_hash(case)
            w = line.write([fl.py_value_typed(v, (h >> (3 * i + 1)) if h & 1 else 0) for i, v in enumerate(case["values"])][: case.get("nvals", len(case["values"]))])
        except OverflowError:
            return {"raised": "OverflowError"}
        r = line.read(w)
        w2 = line.write(r)
        return {"w1": list(w), "read": [fl.canon_value(x) for x in r], "w2": list(w2)}

    def impl_history(self, case):
        from cfinterface.components.line import Line
        fs = case["fields"]
        fields = [fl.mk_field(fd) for fd in fs]
        lines = [Line(fields, storage="BINARY") for _ in range(case["nlines"])]
        recb = [self.ref_record(fs, vals) for vals in case["recs"]]
        h = self.case_hash(case)
        out = []
        for n, st in enumerate(case["steps"]):
            op, li, r = st[0], st[1], st[2]
            line = lines[li] if li >= 0 else Line(fields, storage="BINARY")
            hs = (h >> (n + 1)) if h & 1 else 0
            if op == "w":
                out.append(list(line.write([fl.py_value_typed(v, hs >> (3 * i)) for i, v in enumerate(case["recs"][r])])))
            elif op == "r":
                out.append([fl.canon_value(x) for x in line.read(recb[r])])
            elif op == "v":
                line.values = [fl.py_value_typed(v, hs >> (3 * i)) for i, v in enumerate(case["recs"][r])]
                out.append(None)
            elif op == "f":
                line.fields[st[3]].value = fl.py_value_typed(case["recs"][r][st[3]], hs)
                out.append(None)
            else:
                out.append(fl.canon_value(line.fields[st[3]].read(recb[r])))
        return {"steps": out}

    def model_arg(self, case):
        if case["t"] == "buf":
            return [7, fl.field_sx(case["fd"]), fl.value_sx(case["v"]), case["target"]]
        ctor = [[[fl.field_sx(fd), []] for fd in case["fields"]], [], [], True]
        if case["t"] == "pat":
            return [0, ctor, [[4, case["bytes"]], [10]]]
        if case["t"] == "hist":
            # one model line object stands for all the Line objects of the case: they are declared over the same Field objects,
            # and the values live in the Field objects (the model's slots)
            rv = [[fl.value_sx(v) for v in vals] for vals in case["recs"]]
            recb = [list(self.ref_record(case["fields"], vals)) for vals in case["recs"]]
            ops = [[8, v] for v in rv]
            for st in case["steps"]:
                if st[0] == "w":
                    ops.append([5, rv[st[2]]])
                elif st[0] == "r":
                    ops.append([4, recb[st[2]]])
                elif st[0] == "v":
                    ops.append([1, rv[st[2]]])
            return [0, ctor, ops]
        vals = [fl.value_sx(v) for v in case["values"]][: case.get("nvals", len(case["values"]))]
        return [0, ctor, [[8, vals], [5, vals], [9], [10]]]

    def model_obs(self, case, res):
        if case["t"] == "buf":
            return {"out": fl.obytes(res[0]), "fits": bool(res[1])}
        if case["t"] == "pat":
            return {"read": [fl.canon_model_value(v) for v in res[0]], "w2": fl.obytes(res[1]), "fits": True}
        if case["t"] == "hist":
            nrec = len(case["recs"])
            it = iter(res[nrec:])
            out = []
            for st in case["steps"]:
                if st[0] == "w":
                    out.append(fl.obytes(next(it)))
                elif st[0] == "r":
                    out.append([fl.canon_model_value(v) for v in next(it)])
                elif st[0] == "v":
                    next(it)
                    out.append(None)
                else:
                    out.append(["not-modelled"])
            return {"steps": out, "fits": all(all(f) for f in res[:nrec])}
        fits, w1, r, w2 = res
        return {"w1": fl.obytes(w1), "read": [fl.canon_model_value(v) for v in r], "w2": fl.obytes(w2), "fits": all(fits)}

    def in_domain(self, case, mobs):
        return mobs["fits"]

    def compare(self, case, iobs, mobs):
        if case["t"] == "hist" and "steps" in iobs:
            for n, (st, a, b) in enumerate(zip(case["steps"], iobs["steps"], mobs["steps"])):
                if st[0] in ("w", "r") and a != b:
                    return "history step %d %r: impl=%r model=%r" % (n, st, a, b)
            return None
        for k in iobs:
            if k in mobs and iobs[k] != mobs[k]:
                return "%s: impl=%r model=%r" % (k, iobs[k], mobs[k])
        if "raised" in iobs:
            return "implementation raised %s" % iobs["raised"]
        return None

    # ---- reference encodings from the property text (struct / int.to_bytes, numpy-free)
    @staticmethod
    def ref_bytes(fd, v):
        k, n = fd["k"], fd["size"]
        miss = v is None or v[0] in ("nan", "nat")
        if k == "int":
            return (0 if miss else v[1]).to_bytes(n, "little", signed=True)
        if k == "float":
            return ref_float_bytes(n, 0.0 if miss else fl.b2f(v[1]))
        if miss:
            return b" " * n
        if k == "lit":
            return v[1].ljust(n).encode("ascii")
        return datetime.datetime(*v[1]).strftime(fd["formats"][0]).ljust(n).encode("ascii")

    @classmethod
    def ref_record(cls, fs, vals):
        """the record the property describes for these values: as long as the furthest field end, each field's reference
        encoding inside its own span, blanks elsewhere"""
        rec = bytearray(b" " * max(fd["start"] + fd["size"] for fd in fs))
        for fd, v in zip(fs, vals):
            rec[fd["start"]: fd["start"] + fd["size"]] = cls.ref_bytes(fd, v)
        return bytes(rec)

    @staticmethod
    def ref_value(fd, v):
        k, n = fd["k"], fd["size"]
        miss = v is None or v[0] in ("nan", "nat")
        if k == "int":
            return ["int", 0 if miss else v[1]]
        if k == "float":
            return fl.canon_value(struct.unpack(FFMT[n], ref_float_bytes(n, 0.0 if miss else fl.b2f(v[1])))[0])
        if k == "lit":
            return ["str", "" if miss else v[1].strip()]
        if miss:
            return None
        f0 = fd["formats"][0]
        return ["date", dates.dt_tuple(datetime.datetime.strptime(datetime.datetime(*v[1]).strftime(f0), f0))]

    def oracle(self, case, obs):
        if "raised" in obs or "harness_exception" in obs:
            return "write/read raised: %s" % (obs,)
        if case["t"] == "buf":
            fd = case["fd"]
            s, e = fd["start"], fd["start"] + fd["size"]
            tgt = case["target"]
            padded = tgt + [32] * max(0, e - len(tgt))
            out = obs["out"]
            if len(out) != max(len(tgt), e):
                return "buffer length after write is wrong"
            if out[:s] != padded[:s] or out[e:] != padded[e:]:
                return "bytes outside the field's span changed"
            if bytes(out[s:e]) != self.ref_bytes(fd, case["v"]):
                return "field bytes differ from the reference encoding"
            return None
        if case["t"] == "pat":
            fd = case["fields"][0]
            if obs["w2"] != case["bytes"]:
                if fd["k"] == "float":
                    x = struct.unpack(FFMT[fd["size"]], bytes(case["bytes"]))[0]
                    if x != x:
                        return None   # NaN payloads are outside the property (finite floats)
                return "byte pattern does not survive a read/write cycle"
            if fd["k"] == "int" and obs["read"] != [["int", int.from_bytes(bytes(case["bytes"]), "little", signed=True)]]:
                return "two-byte pattern read as the wrong integer"
            return None
        if case["t"] == "hist":
            fs = case["fields"]
            if len(obs["steps"]) != len(case["steps"]):
                return "history: the observation does not cover the steps"
            for n, (st, got) in enumerate(zip(case["steps"], obs["steps"])):
                vals = case["recs"][st[2]]
                if st[0] == "w" and got != list(self.ref_record(fs, vals)):
                    return "history: a write gives bytes other than the record's reference encoding (step %d %r)" % (n, st)
                if st[0] == "r":
                    want = [self.ref_value(fd, v) for fd, v in zip(fs, vals)]
                    if got != want:
                        i = [a != b for a, b in zip(got, want)].index(True) if len(got) == len(want) else -1
                        return "history: a read returns values other than the record's bytes hold (step %d %r, field %d: %r, the bytes hold %r)" % (
                            n, st, i, got[i] if i >= 0 else got, want[i] if i >= 0 else want)
                if st[0] == "g" and got != self.ref_value(fs[st[3]], vals[st[3]]):
                    return "history: a field read returns a value other than the record's bytes hold (step %d %r: %r, the bytes hold %r)" % (
                        n, st, got, self.ref_value(fs[st[3]], vals[st[3]]))
            return None
        fs, vals = case["fields"], case["values"]
        end = max(fd["start"] + fd["size"] for fd in fs)
        w1 = obs["w1"]
        if len(w1) != end:
            return "binary line is %d bytes, furthest field end is %d" % (len(w1), end)
        cov = set()
        for fd, v, got in zip(fs, vals, obs["read"]):
            s, e = fd["start"], fd["start"] + fd["size"]
            cov.update(range(s, e))
            if bytes(w1[s:e]) != self.ref_bytes(fd, v):
                return "field bytes differ from the reference encoding (%s, width %d)" % (fd["k"], fd["size"])
            if got != self.ref_value(fd, v):
                return "value read back differs (%s, width %d)" % (fd["k"], fd["size"])
        if any(w1[i] != 32 for i in range(end) if i not in cov):
            return "gap bytes are not blank"
        if obs["w2"] != w1:
            return "second write differs from the first"
        return None

    def nontrivial(self, case, obs):
        if case["t"] == "line":
            return any(v is not None and v[0] not in ("nan", "nat") for v in case["values"])
        if case["t"] == "hist":
            return (any(st[0] in ("r", "g") for st in case["steps"])
                    and any(v is not None and v[0] not in ("nan", "nat") for vals in case["recs"] for v in vals))
        return True

    def classify(self, case):
        d = {"t_" + case["t"]: 1}
        for fd in case.get("fields", [case.get("fd")] if case.get("fd") else []):
            key = "%s%d" % (fd["k"], fd["size"] if fd["k"] in ("int", "float") else 0)
            d[key] = d.get(key, 0) + 1
        if case["t"] == "hist":
            d["hist_lines_%d" % case["nlines"]] = 1
            d["hist_steps"] = len(case["steps"])
            for st in case["steps"]:
                d["hist_op_" + st[0]] = d.get("hist_op_" + st[0], 0) + 1
            if any(st[1] < 0 for st in case["steps"]):
                d["hist_with_one_step_line"] = 1
            # a Line object that reads a record it has read before, after something else happened to the shared Field objects
            seen = {}
            for n, st in enumerate(case["steps"]):
                if st[0] == "r" and st[1] >= 0:
                    if (st[1], st[2]) in seen and seen[(st[1], st[2])] < n - 1:
                        d["hist_record_read_again_by_the_same_line"] = 1
                    seen[(st[1], st[2])] = n
        return d

    def signature(self, case, why):
        import re
        return re.sub(r"[0-9]+", "#", why)[:70]

    def shrink(self, case):
        if case["t"] == "hist":
            for n in range(len(case["steps"])):
                if len(case["steps"]) > 1:
                    c = dict(case)
                    c["steps"] = case["steps"][:n] + case["steps"][n + 1:]
                    yield c
            for i in range(len(case["fields"])):
                if len(case["fields"]) > 1:
                    c = dict(case)
                    c["fields"] = case["fields"][:i] + case["fields"][i + 1:]
                    c["recs"] = [vals[:i] + vals[i + 1:] for vals in case["recs"]]
                    c["steps"] = [st if len(st) < 4 or st[3] < i else st[:3] + [st[3] - 1]
                                  for st in case["steps"] if len(st) < 4 or st[3] != i]
                    if c["steps"]:
                        yield c
            if case["nlines"] > 1:
                c = dict(case)
                c["nlines"] = case["nlines"] - 1
                c["steps"] = [[st[0], min(st[1], c["nlines"] - 1)] + st[2:] for st in case["steps"]]
                yield c
            used = sorted({st[2] for st in case["steps"]})
            if len(used) < len(case["recs"]):
                c = dict(case)
                c["recs"] = [case["recs"][r] for r in used]
                c["steps"] = [[st[0], st[1], used.index(st[2])] + st[3:] for st in case["steps"]]
                yield c
            return
        if case["t"] == "line" and len(case["fields"]) > 1:
            for i in range(len(case["fields"])):
                c = dict(case)
                c["fields"] = case["fields"][:i] + case["fields"][i + 1:]
                c["values"] = case["values"][:i] + case["values"][i + 1:]
                yield c

    def neighbours(self, case, rng):
        if case["t"] == "hist":
            for _ in range(20):
                yield gen_history(rng, case["fields"])
        if case["t"] == "line":
            for _ in range(20):
                c = dict(case)
                c["values"] = [gen_bin_value(rng, fd) for fd in case["fields"]]
                yield c
