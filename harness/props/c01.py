"""C01 — positional text write->read round trip is value-preserving and text-stable."""
import datetime
import math
from fractions import Fraction

from ..framework import Check
from .. import fieldlib as fl


def sto_name(b):
    return "BINARY" if b else "TEXT"


# date formats outside the model's token language (%Y %m %d %H %M %S %f, punctuation and blanks): month and weekday names in full
# (variable width) and abbreviated, day of the year, 12-hour clock with AM/PM, letters as literals. Cases that use one are
# judged by the oracle only (comparable() is False for them).
NAMED_DATE_FORMATS = ["%d %B %Y", "%A %d/%m/%Y", "%B %d, %Y %H:%M", "%d-%b-%Y", "%a %d %b %Y %H:%M:%S", "%Y-%j", "%Y%j %H%M",
                      "%d/%m/%Y %I:%M %p", "%Y-%m-%dT%H:%M:%S", "%Hh%M %d/%m/%Y", "%A, %d %B %Y", "%B/%Y", "%Y %B %d %A"]
_WIDEST = {}


def widest(fmt):
    """the widest rendering of a format over a whole year (every month and weekday name occurs)"""
    if fmt not in _WIDEST:
        d0 = datetime.datetime(2024, 1, 1, 13, 44, 55, 123456)
        _WIDEST[fmt] = max(len((d0 + datetime.timedelta(days=i)).strftime(fmt)) for i in range(366))
    return _WIDEST[fmt]


def in_model_language(fmt):
    try:
        fl.dates.tokens(fmt)
        return True
    except fl.dates.Unsupported:
        return False


class CHECK(Check):
    pid = "C01"
    entry = "LINE"
    theorems = ["C01_roundtrip_line", "C01_field_int", "C01_field_lit", "C01_field_missing", "C01_field_date", "C01_float_decimal", "C01_float_half_unit", "C01_float_sci_shape", "C01_float_sci", "C01_float_zero", "C01_float_dialect", "C01_stable_line", "C01_stable_fields", "C01_setters", "C01_rn64_is_round_nearest_even", "C01_rn64_nearest", "C01_round_idempotent", "C01_stable_float", "C01_stable_float_zero",
                "C01_float_sci_fits_not_raises", "C01_float_sci_raises", "C01_round_absorbed_fixed", "C01_round_fixed_never_raises",
                "C01_round_absorbed_sci", "C01_float_sci_half_unit", "C01_float_sci_writes", "C01_stable_float_sci", "C01_stable_float_all",
                "C01_refuted_sci_half_unit_subnormal", "C01_refuted_sci_half_unit_16_digits", "C01_refuted_sci_write_raises"]
    property_files = ["C01", "C01real"]
    rule = ("positional text layouts of 1-6 non-overlapping fields (literal, integer, float with 0-8 decimals in F/f/E/e "
            "notation and '.' or ',' separator, dates with one format or a format list) in any order with gaps x value "
            "lists from boundary-biased streams (width-boundary integers, decimal ties and their neighbours, 9.99.. "
            "carries, negative zero, widths that force dropping decimals, None/NaN/NaT); each case writes, reads the "
            "text back, and writes what was read. Half of the lines are configured through random setter sequences "
            "(fields, values, delimiter, storage) and must behave as the constructor-built line. Plus an exhaustive "
            "grid of float fields (size<=6, dd<=3) x a boundary value grid. Value lists that do not fit (model's fits) "
            "are counted and skipped. non-trivial = at least one non-missing float, date or multi-field; distinct = hash"
            " Later additions: an E-notation edge stream (subnormals, +-400 ulps around every power of ten, 0-17 digits, top of the range); 1-3 earlier rows written/read through the same Line (also read in the last declared date format); half of the value lists handed over as numpy scalars / integral floats / bool / pandas Timestamp / pd.NA; ambiguous date-format lists; "
            "date formats outside the model's token language (full and abbreviated month / weekday names, day of the year, 12-hour "
            "clock with AM/PM, letters as literals; alone or anywhere in a format list) over every month and weekday, in lines whose "
            "values fit by construction - judged by the oracle only.")

    # a case: {fields, values, setters: None | [...]}
    def gen(self, tier, rng):
        # exhaustive small float grid
        grid = [0.0, -0.0, 0.5, 1.5, 2.5, 0.05, 0.15, 0.25, 0.35, 0.45, 0.005, 0.015, 0.025, 9.5, 9.95, 9.995, 9.9995, 99.5, 99.95,
                0.75, 0.125, 0.375, 1e-4, 4e-4, 5e-4, 6e-4, 12.345, 123.45, 1234.5, 12345.0, 99999.0, 99999.5, 999999.0, 0.04, 0.049999]
        grid = grid + [-x for x in grid if x] + [math.nextafter(x, 0) for x in grid if x] + [math.nextafter(x, 1e9) for x in grid if x]
        step = 1 if tier == "thorough" else 3
        i = 0
        for size in range(1, 7):
            for dd in range(0, 4):
                for fmt, sep in (("F", "."), ("f", ","), ("F", ",")):
                    fd = {"k": "float", "size": size, "start": 0, "dd": dd, "fmt": fmt, "sep": sep}
                    for x in grid:
                        i += 1
                        if i % step:
                            continue
                        yield {"fields": [fd], "values": [["float", fl.f2b(x)]], "setters": None}
        for dd in range(0, 5):
            for size in (dd + 6, dd + 7, dd + 8):
                for fmt, sep in (("E", "."), ("e", ",")):
                    fd = {"k": "float", "size": size, "start": 2, "dd": dd, "fmt": fmt, "sep": sep}
                    for x in grid[:: 2 * step]:
                        yield {"fields": [fd], "values": [["float", fl.f2b(x * 10 ** (dd % 3))]], "setters": None}
        # E notation at the edges of binary64: subnormals, neighbours of powers of ten (where round() and the C library's
        # log10 matter), up to 17 significant digits, the top of the range (round() overflows)
        for x, dd in [(1.04e-322, 1), (1.0000000000000001e23, 15), (1.7976931348623157e308, 2), (1.7976931348623157e308, 16),
                      (5e-324, 0), (5e-324, 3), (2.2250738585072014e-308, 0), (2.2250738585072014e-308, 14), (9.999999999999993e-308, 14),
                      (9.5, 0), (0.95, 1), (1e23, 0), (1e22, 2),
                      # just below a power of ten, where a floating-point log10 rounds up to the integer (defect 11)
                      (9.999999999999374e-301, 13), (9.999999999999917e-301, 14), (9.999999999999479e-273, 13), (9.99999999999995e299, 13)]:
            yield {"fields": [{"k": "float", "size": 30, "start": 0, "dd": dd, "fmt": "E", "sep": "."}], "values": [["float", fl.f2b(x)]], "setters": None}
        for _ in range(1500 if tier == "quick" else 60000):
            dd = rng.choice([0, 1, 2, 3, 5, 8, 12, 13, 14, 14, 15, 16, rng.randint(0, 16)])
            x = fl.sci_boundary_value(rng, dd)
            fd = {"k": "float", "size": rng.choice([30, 30, dd + 8, dd + 7]), "start": rng.choice([0, 3]), "dd": dd, "fmt": rng.choice("Ee"), "sep": rng.choice(".,")}
            yield {"fields": [fd], "values": [["float", fl.f2b(x)]], "setters": None}
        n = 3500 if tier == "quick" else 120000
        for _ in range(n):
            fs = fl.gen_layout(rng)
            vals = [fl.gen_value(rng, fd) for fd in fs]
            setters = None
            if rng.random() < 0.5:
                setters = self.gen_setters(rng, fs)
            case = {"fields": fs, "values": vals, "setters": setters}
            if rng.random() < 0.4:
                # earlier rows written (and read back) through the same Line / Field objects: a Line is normally reused for
                # every row of its kind, and what it writes must not depend on what it wrote before
                case["history"] = [[fl.gen_value(rng, fd) for fd in fs] for _ in range(rng.randint(1, 3))]
            yield case
        # date formats the model has no tokens for (names of months and weekdays, day of the year, AM/PM, letter literals),
        # alone or first/later in a format list, among literal / integer / fixed-notation float / modelled date fields.
        # Every value fits by construction (no model run decides it): see gen_named.
        for _ in range(500 if tier == "quick" else 15000):
            yield self.gen_named(rng)

    def gen_named(self, rng):
        fs = fl.gen_layout(rng, nmax=5, sci=False)
        idx = [i for i, fd in enumerate(fs) if fd["k"] == "date"]
        if not idx:
            j = rng.randrange(len(fs))
            fs[j] = {"k": "date", "size": 0, "start": fs[j]["start"], "formats": [], "aslist": False}
            idx = [j]
        # widths change: lay the fields out again, keeping their order of declaration
        order = sorted(range(len(fs)), key=lambda i: fs[i]["start"])
        pos = rng.randint(0, 3)
        for i in order:
            fd = fs[i]
            if i in idx and (not fd["formats"] or rng.random() < 0.8):
                n = rng.choice([1, 1, 2, 3])
                fm = [rng.choice(NAMED_DATE_FORMATS)] + [rng.choice(NAMED_DATE_FORMATS + fl.DATE_FORMATS) for _ in range(n - 1)]
                if n > 1 and rng.random() < 0.3:
                    fm[0], fm[-1] = fm[-1], fm[0]
                fd["formats"] = fm
                fd["aslist"] = n != 1 or rng.random() < 0.3
                fd["size"] = widest(fm[0]) + rng.randint(0, 3)
            fd["start"] = pos
            pos += fd["size"] + rng.choice([0, 0, 1, 3])

        def value(fd):
            v = fl.gen_value(rng, fd)
            if fd["k"] == "float" and v is not None and v[0] == "float":
                # keep only floats whose rendering with all declared decimals leaves a spare column: they fit on any reading
                if len("{:.{d}f}".format(fl.b2f(v[1]), d=fd["dd"])) + 1 > fd["size"]:
                    return None
            if fd["k"] == "date" and v is not None and v[0] == "date" and rng.random() < 0.5:
                # every month and every weekday, not only what a uniform day of the month gives
                y, _, _, hh, mm, ss, us = v[1]
                d = datetime.datetime(y, rng.randint(1, 12), 1, hh, mm, ss, us) + datetime.timedelta(days=rng.randint(0, 27))
                v = ["date", fl.dates.dt_tuple(d)]
            return v
        case = {"fields": fs, "values": [value(fd) for fd in fs], "setters": self.gen_setters(rng, fs) if rng.random() < 0.5 else None}
        if rng.random() < 0.4:
            case["history"] = [[value(fd) for fd in fs] for _ in range(rng.randint(1, 3))]
        return case

    def comparable(self, case):
        return all(in_model_language(f) for fd in case["fields"] if fd["k"] == "date" for f in fd["formats"])

    @staticmethod
    def alt_text(case, hv):
        """a history line in which every date field with a format list shows its value in the LAST declared format (a text an
        earlier format may not parse): what a field read before must not influence what it reads or writes next.
        Built from a fresh Line (no history), identically for the implementation and the model; None when not applicable."""
        from cfinterface.components.line import Line
        fs = case["fields"]
        if not any(fd["k"] == "date" and len(fd["formats"]) > 1 for fd in fs):
            return None
        try:
            t = Line([fl.mk_field(fd) for fd in fs]).write([fl.py_value(v) for v in hv])
        except OverflowError:
            return None
        for fd, v in zip(fs, hv):
            if fd["k"] == "date" and len(fd["formats"]) > 1 and v is not None and v[0] == "date":
                try:
                    txt = datetime.datetime(*v[1]).strftime(fd["formats"][-1])
                except ValueError:
                    continue
                if len(txt) <= fd["size"]:
                    t = t[: fd["start"]] + txt.ljust(fd["size"]) + t[fd["start"] + fd["size"]:]
        return t

    @staticmethod
    def gen_setters(rng, fs):
        """a constructor configuration + setter sequence whose final configuration is (fs, no delimiter, TEXT)"""
        other = fl.gen_layout(rng, nmax=3)
        ctor = {"fields": rng.choice([other, fs, []]), "values": rng.choice([None, None, [["int", 1]]]),
                "delim": rng.choice([None, None, ";"]), "binary": rng.random() < 0.3}
        seq = []
        for _ in range(rng.randint(0, 3)):
            k = rng.choice(["fields", "values", "delim", "storage"])
            if k == "fields":
                seq.append(["fields", rng.choice([other, []])])
            elif k == "values":
                seq.append(["values", [None] * rng.randint(0, 3)])
            elif k == "delim":
                seq.append(["delim", rng.choice([None, ","])])
            else:
                seq.append(["storage", rng.random() < 0.5])
        final = [["fields", fs], ["delim", None], ["storage", False]]
        rng.shuffle(final)
        # the delimited code path re-bases field objects; keep the final `fields` after any delimiter use is irrelevant
        # because no read/write happens before the configuration is complete
        return {"ctor": ctor, "seq": seq + final}

    # ---- implementation
    def impl(self, case):
        from cfinterface.components.line import Line
        import hashlib, json
        h = int(hashlib.sha1(json.dumps(case, sort_keys=True).encode()).hexdigest(), 16)
        # half of the cases hand the values over as numpy scalars / integral floats / bool / pandas Timestamp
        vals = [fl.py_value_typed(v, (h >> (3 * i + 1)) if h & 1 else 0) for i, v in enumerate(case["values"])]
        if case["setters"] is None:
            line = Line([fl.mk_field(fd) for fd in case["fields"]])
        else:
            c = case["setters"]["ctor"]
            line = Line([fl.mk_field(fd) for fd in c["fields"]], values=None if c["values"] is None else [fl.py_value(v) for v in c["values"]],
                        delimiter=c["delim"], storage=sto_name(c["binary"]))
            for k, a in case["setters"]["seq"]:
                if k == "fields":
                    line.fields = [fl.mk_field(fd) for fd in a]
                elif k == "values":
                    line.values = [fl.py_value(v) for v in a]
                elif k == "delim":
                    line.delimiter = a
                else:
                    line.storage = sto_name(a)
        for hv in case.get("history", []):
            try:
                line.read(line.write([fl.py_value(v) for v in hv]))
                alt = self.alt_text(case, hv)
                if alt is not None:
                    line.read(alt)
            except OverflowError:
                pass
        try:
            t1 = line.write(vals)
            r = line.read(t1)
            t2 = line.write(r)
            size = line.size
        except OverflowError as e:
            return {"raised": "OverflowError"}
        return {"t1": t1, "read": [fl.canon_value(x) for x in r], "t2": t2, "size": size}

    def model_arg(self, case, variant=0):
        vals = [fl.value_sx(v) for v in case["values"]]
        if case["setters"] is None:
            ctor = [[[fl.field_sx(fd), []] for fd in case["fields"]], [], [], False]
            pre = []
        else:
            c = case["setters"]["ctor"]
            ctor = [[[fl.field_sx(fd), []] for fd in c["fields"]],
                    [] if c["values"] is None else [[fl.value_sx(v) for v in c["values"]]],
                    [] if c["delim"] is None else [c["delim"]], c["binary"]]
            pre = []
            for k, a in case["setters"]["seq"]:
                if k == "fields":
                    pre.append([0, [[fl.field_sx(fd), []] for fd in a]])
                elif k == "values":
                    pre.append([1, [fl.value_sx(v) for v in a]])
                elif k == "delim":
                    pre.append([2, [] if a is None else [a]])
                else:
                    pre.append([3, a])
        for hv in case.get("history", []):
            hvs = [fl.value_sx(v) for v in hv]
            pre += [[5, hvs], [9]]
            alt = self.alt_text(case, hv)
            if alt is not None:
                pre += [[4, alt]]
        return [variant, ctor, pre + [[8, vals], [5, vals], [9], [10], [7]]]

    def model_obs(self, case, res):
        fits, t1, r, t2, size = res[-5:]
        return {"t1": fl.ostr(t1), "read": [fl.canon_model_value(v) for v in r], "t2": fl.ostr(t2), "size": size,
                "fits": all(fits) and len(fits) == len(case["fields"])}

    @staticmethod
    def sci_floats(case):
        for fd, v in zip(case["fields"], case["values"]):
            if fd["k"] == "float" and fd["fmt"] in "Ee" and v and v[0] == "float":
                x = fl.b2f(v[1])
                if x == x and abs(x) != math.inf and x != 0:
                    yield fd, x

    def overflow_on_rounding(self, case):
        """a single E-notation float whose rounding to the declared digits exceeds the largest double: the value's rendering
        would fit the field, so the case is inside the property's domain although the model (like the code) raises"""
        sf = list(self.sci_floats(case))
        return len(case["fields"]) == 1 and len(sf) == 1 and fl.sci_rounding_overflows(sf[0][1], sf[0][0]["dd"]) \
            and sf[0][0]["size"] >= sf[0][0]["dd"] + 8

    def in_domain(self, case, mobs):
        return mobs["fits"] or self.overflow_on_rounding(case)

    def compare(self, case, iobs, mobs):
        if "raised" in iobs:
            return None if mobs["t1"] is None else "impl raised %s, model wrote %r" % (iobs["raised"], mobs["t1"])
        for k in ("t1", "read", "t2", "size"):
            if iobs.get(k) != mobs[k]:
                return "%s: impl=%r model=%r" % (k, iobs.get(k), mobs[k])
        return None

    # ---- direct oracle from the property text
    def oracle(self, case, obs):
        if "t1" not in obs:
            if obs.get("raised") == "OverflowError" and self.overflow_on_rounding(case):
                return "E notation at the top of the range: write raises OverflowError (round() of the value to the declared digits exceeds the largest double)"
            return "write/read raised: %s" % (obs,)
        t1, r, t2 = obs["t1"], obs["read"], obs["t2"]
        fs, vals = case["fields"], case["values"]
        if len(r) != len(fs):
            return "layout lost: %d values read for %d fields" % (len(r), len(fs))
        if obs["size"] != sum(fd["size"] for fd in fs):
            return "Line.size is stale: %s for field sizes %s" % (obs["size"], [fd["size"] for fd in fs])
        for fd, v, got in zip(fs, vals, r):
            text = t1[fd["start"]: fd["start"] + fd["size"]]
            k = fd["k"]
            miss = v is None or v[0] in ("nan", "nat")
            if miss:
                exp = ["str", ""] if k == "lit" else None
                if got != exp:
                    return "missing value read back as %r" % (got,)
                continue
            if k == "int":
                if got != v:
                    return "integer %r read back as %r" % (v[1], got)
            elif k == "lit":
                if got != ["str", v[1].strip()]:
                    return "literal %r read back as %r" % (v[1], got)
            elif k == "date":
                d = datetime.datetime(*v[1])
                f0 = fd["formats"][0]
                exp = datetime.datetime.strptime(d.strftime(f0), f0)
                if got != ["date", fl.dates.dt_tuple(exp)]:
                    return "date read back at the wrong resolution"
            else:
                w = self.float_oracle(fd, fl.b2f(v[1]), text, got)
                if w:
                    return w
        if t2 != t1:
            return "writing what was read does not reproduce the text"
        return None

    @staticmethod
    def float_oracle(fd, x, text, got):
        sep = fd["sep"]
        body = text.strip(" ")
        other = "," if sep == "." else "."
        if other in body:
            return "float rendered with the wrong decimal separator"
        norm = body.replace(sep, ".")
        sci = fd["fmt"] in "Ee"
        try:
            D = Fraction(norm)
        except (ValueError, ZeroDivisionError):
            return "float text %r is not a number in the field's dialect" % body
        if sci and x != 0:
            if fd["fmt"] not in norm:
                return "float not rendered in the configured notation / exponent letter"
            mant, ex = norm.upper().split("E")
            digits = len(mant.lstrip("+-").replace(".", ""))
            if digits != fd["dd"] + 1:
                return "E notation does not carry decimal_digits+1 significant digits"
            dec = len(mant.split(".")[1]) if "." in mant else 0
            unit = Fraction(10) ** (int(ex) - dec)
        else:
            if not sci and ("e" in norm.lower()):
                return "float not rendered in the configured notation"
            mant = norm.upper().split("E")[0]
            dec = len(mant.split(".")[1]) if "." in mant else 0
            # the most decimals (<= declared) that fit the width
            best = None
            for d in range(fd["dd"], -1, -1):
                ref = "{:.{d}{f}}".format(round(x, d), d=d, f=fd["fmt"])
                if len(ref) <= fd["size"]:
                    best = d
                    break
            if best is not None and dec != best:
                return "emitted %d decimals, the most that fit is %d" % (dec, best)
            ex = int(norm.upper().split("E")[1]) if "E" in norm.upper() else 0
            unit = Fraction(10) ** (ex - dec)
        if abs(D - Fraction(x)) * 2 > unit:
            if sci and x != 0 and abs(x) < 2.2250738585072014e-308:
                return "E notation of a subnormal value: emitted decimal is further than half a unit of its last digit from the value"
            if sci and x != 0 and fd["dd"] >= 15:
                return "E notation with sixteen or more significant digits: emitted decimal is further than half a unit of its last digit from the value"
            return "emitted decimal is further than half a unit of its last digit from the value"
        if got is None or got[0] != "float" or fl.b2f(got[1]) != float(norm):
            return "float text does not read back as float(text)"
        if math.copysign(1, x) < 0 and x == 0 and not body.startswith("-"):
            return None
        return None

    def nontrivial(self, case, obs):
        return len(case["fields"]) > 1 or any(v and v[0] in ("float", "date") for v in case["values"])

    def classify(self, case):
        d = {"fields_%d" % len(case["fields"]): 1, "via_setters" if case["setters"] else "via_ctor": 1}
        for fd, v in zip(case["fields"], case["values"]):
            d["kind_" + fd["k"]] = d.get("kind_" + fd["k"], 0) + 1
            if v is None or v[0] in ("nan", "nat"):
                d["missing"] = d.get("missing", 0) + 1
            if fd["k"] == "date" and not all(in_model_language(f) for f in fd["formats"]):
                d["date_format_outside_model_language"] = d.get("date_format_outside_model_language", 0) + 1
            if fd["k"] == "float":
                key = "float_%s_sep%s" % (fd["fmt"], "dot" if fd["sep"] == "." else "comma")
                d[key] = d.get(key, 0) + 1
        return d

    def signature(self, case, why):
        import re
        return re.sub(r"[0-9]+|'[^']*'|\[.*\]", "#", why)[:90]

    def shrink(self, case):
        if len(case["fields"]) > 1:
            for i in range(len(case["fields"])):
                c = dict(case)
                c["fields"] = case["fields"][:i] + case["fields"][i + 1:]
                c["values"] = case["values"][:i] + case["values"][i + 1:]
                if c["setters"]:
                    c["setters"] = {"ctor": c["setters"]["ctor"],
                                    "seq": [[k, (c["fields"] if (k == "fields" and a == case["fields"]) else a)] for k, a in c["setters"]["seq"]]}
                yield c
        if case["setters"] and len(case["setters"]["seq"]) > 3:
            for i in range(len(case["setters"]["seq"]) - 3):
                c = dict(case)
                s = case["setters"]["seq"]
                c["setters"] = {"ctor": case["setters"]["ctor"], "seq": s[:i] + s[i + 1:]}
                yield c

    def neighbours(self, case, rng):
        for _ in range(30):
            c = dict(case)
            c["values"] = [fl.gen_value(rng, fd) for fd in case["fields"]]
            yield c
