"""C13 — section files: declared order, stream hand-off, leftovers kept verbatim."""
import io
import itertools
import zlib
import re

from ..framework import Check
from .. import blocklib as bl, lib, relib

LINE_POOL = ["head", "END", "x END y", "", "data 1", "--", "B", "STOP", "média é €"]
CR_POOL = ["a\r", "x\ry END", "\r"]


def nl_lines(s):
    """split on \\n only, keeping ends (what readline() on a StringIO does)"""
    out = s.split("\n")
    res = [l + "\n" for l in out[:-1]]
    if out[-1]:
        res.append(out[-1])
    return res


WORDS = ["END", "STOP", "B", "x", "head", "data", "1", "--", " ", "\n", "é"]


def gen_secdefs(rng, gen_re=False):
    out = []
    for _ in range(rng.randint(0, 4)):
        if rng.random() < 0.55:
            out.append(["lines", rng.randint(0, 3), rng.choice("tthn"), rng.choice(["data", "data", "own", "init"])])
        else:
            pat = relib.gen_pattern(rng, WORDS, "ENDBx1 -\n\té\r", 3) if gen_re and rng.random() < 0.7 else rng.choice(bl.PATTERN_POOL)
            out.append(["until", pat, rng.choice("tthn"), rng.choice(["data", "data", "own", "init"])])
    return out


class CHECK(Check):
    pid = "C13"
    entry = "SECTIONFILE"
    theorems = ["C13_total_roundtrip", "C13_declared_order", "C13_handoff", "C13_leftovers"]
    rule = ("section lists of 0-4 raw sections (consuming a fixed number 0-3 of lines, or lines up to and including the first "
            "one matching a pattern) x text contents from empty to longer than the sections consume, read from memory or (a third) from a utf-8 file on disk, with and without final "
            "newline: every content of <=4 lines (quick: <=3) over an 8-line pool for 12 fixed section lists (complete), plus "
            "random lists/contents of up to 12 lines. Observed: element types and raw data of SectionFile.read(content).data and "
            "the output of write. non-trivial = content shorter than the declared sections expect, or leftovers; distinct = hash"
            " Later additions: section read() returning True/honest False/None, a third of the cases read from disk, carriage returns as ordinary characters, sections keeping what they read in an attribute of their own (data stays None)."
            " Round 11: sections whose storage is allocated by the constructor and only appended to by read(); 1-2 other contents read and "
            "written through the same file class before the measured read (40 % of the random cases); 'until' patterns that are regular "
            "expressions proper (pool + generated, see C12).")

    def gen(self, tier, rng):
        import random
        r2 = random.Random(4242)
        fixed = [gen_secdefs(r2) for _ in range(12)]
        for sds in fixed:
            for n in range(0, 5 if tier == "thorough" else 4):
                for combo in itertools.product(LINE_POOL, repeat=n):
                    for fin in ("\n", ""):
                        if n == 0 and fin == "":
                            continue
                        if tier == "quick" and n == 3 and (zlib.crc32("\n".join(combo).encode()) % 3):
                            continue
                        yield {"secs": sds, "content": "\n".join(combo) + (fin if n else "")}
        for _ in range(1500 if tier == "quick" else 40000):
            sds = gen_secdefs(rng, rng.random() < 0.35)
            lines = [rng.choice(LINE_POOL + (CR_POOL if rng.random() < 0.3 else [])) for _ in range(rng.randint(0, 12))]
            bom = "\ufeff" if rng.random() < 0.06 else ""     # a byte-order mark at the start of in-memory content is a character
            case = {"secs": sds, "content": bom + "\n".join(lines) + (rng.choice(["\n", "\n", ""]) if lines else "")}
            if rng.random() < 0.4:
                # object history: 1-2 other contents were read (and written) through the same file class before
                case["earlier"] = ["\n".join(rng.choice(LINE_POOL) for _ in range(rng.randint(0, 6))) + rng.choice(["\n", ""])
                                   for _ in range(rng.randint(1, 2))]
            yield case

    def impl(self, case):
        from cfinterface.components.defaultsection import DefaultSection
        secs = [bl.mk_section_class(sd, i) for i, sd in enumerate(case["secs"])]
        F = bl.mk_sectionfile_class(secs)
        import os, hashlib
        arg = case["content"]
        if int(hashlib.sha1(repr(case).encode()).hexdigest(), 16) % 3 == 0 and "\r" not in arg and arg:
            d = os.path.join(lib.SCRATCH, "tmp_c13")
            os.makedirs(d, exist_ok=True)
            arg = os.path.join(d, "in.txt")
            with open(arg, "w", encoding="utf-8", newline="") as fh:
                fh.write(case["content"])
        try:
            with lib.budget(5000 + 600 * (len(case["content"]) + 1 + sum(len(c) + 1 for c in case.get("earlier", [])))):
                for c0 in case.get("earlier", []):
                    F.read(c0).write(io.StringIO())
                f = F.read(arg)
                elems = bl.canon_raw(f.data, DefaultSection, cap=len(case["content"]) + len(secs) + 5)
                buf = io.StringIO()
                f.write(buf)
        except lib.BudgetExceeded:
            return {"raised": "BudgetExceeded"}
        except Exception as e:
            return {"raised": type(e).__name__ + ": " + str(e)[:100]}
        return {"placeholder": elems[0], "elems": elems[1:], "written": buf.getvalue()}

    def model_arg(self, case):
        return [[bl.secdef_sx(sd) for sd in case["secs"]], case["content"]]

    def model_obs(self, case, res):
        if res == [-3]:
            return {"raised": "OutOfFuel"}
        return {"placeholder": [-1, ""], "elems": bl.model_raw(res[0]), "written": lib.to_str(res[1])}

    def oracle(self, case, obs):
        if "raised" in obs:
            return "SectionFile.read/write raised: %s" % obs["raised"]
        n = len(case["secs"])
        elems = obs["elems"]
        if [e[0] for e in elems[:n]] != list(range(n)):
            return "declared sections are not read exactly once each in declared order"
        if any(e[0] != -1 for e in elems[n:]):
            return "a declared section was read again after the declared list"
        # hand-off: each section starts where the previous one stopped
        pos = 0
        content = case["content"]
        for i, (idx, raw) in enumerate(elems):
            if content[pos: pos + len(raw)] != raw:
                return "element %d does not start where the previous one stopped" % i
            if idx >= 0:
                kind, arg = case["secs"][idx][0], case["secs"][idx][1]
                lines = nl_lines(content[pos:])
                if kind == "lines":
                    exp = "".join(lines[:arg])
                else:
                    exp = ""
                    for l in lines:
                        exp += l
                        if re.search(bl.regex_of(arg), l) is not None:
                            break
                if raw != exp:
                    return "declared section consumed the wrong lines"
            else:
                if raw.count("\n") > 1 or (raw.count("\n") == 1 and not raw.endswith("\n")) or raw == "":
                    return "default section does not hold exactly one line"
            pos += len(raw)
        if pos != len(content):
            return "remaining lines were not kept as default sections"
        if obs["written"] != content:
            return "writing the file read from x does not reproduce x"
        return None

    def nontrivial(self, case, obs):
        if not isinstance(obs, dict) or "elems" not in obs:
            return False
        n = len(case["secs"])
        return n > 0 and (len(obs["elems"]) > n or any(e[1] == "" for e in obs["elems"][:n]))

    def classify(self, case):
        c = case["content"]
        d = {"sections_%d" % len(case["secs"]): 1, "lines_%02d" % min(12, c.count("\n") + (1 if c and not c.endswith("\n") else 0)): 1,
             "final_newline" if c.endswith("\n") else "no_final_newline": 1}
        if case.get("earlier"):
            d["earlier_reads_through_the_same_file_class"] = 1
        if any(len(sd) > 3 and sd[3] == "init" for sd in case["secs"]):
            d["section_storage_allocated_by_the_constructor"] = 1
        if any(sd[0] == "until" and not relib.is_legacy(sd[1]) for sd in case["secs"]):
            d["with_regular_expression_patterns"] = 1
        return d

    def signature(self, case, why):
        return re.sub(r"[0-9]+", "#", why)

    def shrink(self, case):
        lines = nl_lines(case["content"])
        for i in range(len(lines)):
            c = dict(case)
            c["content"] = "".join(lines[:i] + lines[i + 1:])
            yield c
        for i in range(len(case["secs"])):
            c = dict(case)
            c["secs"] = case["secs"][:i] + case["secs"][i + 1:]
            yield c
        if case.get("earlier"):
            for i in range(len(case["earlier"])):
                c = dict(case)
                c["earlier"] = case["earlier"][:i] + case["earlier"][i + 1:]
                yield c

    def neighbours(self, case, rng):
        return []
