"""C13 — section files: declared order, stream hand-off, leftovers kept verbatim."""
import io
import itertools
import zlib
import re

from ..framework import Check
from .. import blocklib as bl, lib, relib

LINE_POOL = ["head", "END", "x END y", "", "data 1", "--", "B", "STOP", "média é €"]
CR_POOL = ["a\r", "x\ry END", "\r"]


def nl_lines(s):
    """split on \\n only, keeping ends (what readline() on a StringIO does)"""
    out = s.split("\n")
    res = [l + "\n" for l in out[:-1]]
    if out[-1]:
        res.append(out[-1])
    return res


WORDS = ["END", "STOP", "B", "x", "head", "data", "1", "--", " ", "\n", "é"]


def gen_secdefs(rng, gen_re=False):
    out = []
    for _ in range(rng.randint(0, 4)):
        if rng.random() < 0.55:
            out.append(["lines", rng.randint(0, 3), rng.choice("tthn"), rng.choice(["data", "data", "own", "init"])])
        else:
            pat = relib.gen_pattern(rng, WORDS, "ENDBx1 -\n\té\r", 3) if gen_re and rng.random() < 0.7 else rng.choice(bl.PATTERN_POOL)
            out.append(["until", pat, rng.choice("tthn"), rng.choice(["data", "data", "own", "init"])])
    return out


SCALE_SIZES = [3000, 6000, 9000, 9000, 13000, 20000, 30000, 45000, 70000, 100000]


def gen_scale_case(rng, target=None, longest=3000):
    """a content at scale: hundreds to thousands of lines, 3 kB - 100 kB in all (below and beyond the sizes at which streams,
    buffers and chunked copies change regime), made of numbered lines of varying width with pool lines (END, STOP, empty ...)
    strewn thinly, so that pattern-terminated sections stop early, late or never, a rare very long line, and fixed-count
    sections that may consume hundreds of lines"""
    if target is None:
        target = rng.choice(SCALE_SIZES)
    target = rng.randint(target * 3 // 4, target * 5 // 4)
    p_pool = rng.choice([0.0, 0.002, 0.01, 0.05, 0.3])
    width = rng.choice([0, 8, 30, 70])
    lines, size = [], 0
    while size < target:
        v = rng.random()
        if v < p_pool:
            l = rng.choice(LINE_POOL)
        elif v < p_pool + 0.004:
            l = "long %d " % len(lines) + rng.choice(["x", "ab ", "é"]) * rng.randint(longest // 10, longest)
        else:
            l = "line %06d " % len(lines) + "x" * rng.randint(0, width)
        lines.append(l)
        size += len(l) + 1
    sds = gen_secdefs(rng, rng.random() < 0.2)
    for sd in sds:
        if sd[0] == "lines" and rng.random() < 0.4:
            sd[1] = rng.choice([10, 100, 300, len(lines) - 1, len(lines), len(lines) + 2])
    case = {"secs": sds, "content": "\n".join(lines) + rng.choice(["\n", "\n", ""])}
    if rng.random() < 0.25:
        case["looks"] = gen_looks(rng, sds, case["content"])
    return case


LOOK_KINDS = ["cmp", "cmp", "cmp", "walk", "walk", "oftype", "contains", "len", "get", "ends", "write", "elems"]


def gen_looks(rng, secs, content):
    """1-4 things done with the file object between its read and the measured elements/write, none of which modifies it:
    comparisons (== / !=, as left or right operand) with another file read through the same class from the same content, from
    an edited content of the same length, from a shorter one or from an unrelated one; a traversal of .data abandoned after k
    elements; a type-filtered traversal abandoned after k elements (or run to its end); a membership test; len();
    get_sections_of_type(); .first/.last; a write; a look at the elements (the last two are recorded and judged as well)."""
    out = []
    lines = nl_lines(content)
    for _ in range(rng.randint(1, 4)):
        k = rng.choice(LOOK_KINDS)
        if k == "cmp":
            v = rng.random()
            if v < 0.35 or not lines:
                other = content
            elif v < 0.7:
                i = rng.randrange(len(lines))
                other = "".join(lines[:i] + [rng.choice(["#", "x", "END "]) + lines[i]] + lines[i + 1:])
            elif v < 0.8:
                i = rng.randrange(len(lines))
                other = "".join(lines[:i] + lines[i + 1:])
            else:
                other = "\n".join(rng.choice(LINE_POOL) for _ in range(rng.randint(0, 6))) + rng.choice(["\n", ""])
            out.append(["cmp", other, rng.choice("lr"), rng.choice(["==", "==", "!="])])
        elif k == "walk":
            out.append(["walk", rng.randint(0, 4)])
        elif k == "oftype":
            out.append(["oftype", rng.randint(-1, len(secs) - 1), rng.choice([None, 0, 1, 1, 2])])
        elif k == "contains":
            out.append(["contains", rng.randint(0, 5)])
        elif k == "get":
            out.append(["get", rng.randint(-1, len(secs) - 1)])
        else:
            out.append([k])
    return out


class CHECK(Check):
    pid = "C13"
    entry = "SECTIONFILE"
    theorems = ["C13_total_roundtrip", "C13_declared_order", "C13_handoff", "C13_leftovers", "C13_until_extent"]
    rule = ("section lists of 0-4 raw sections (consuming a fixed number 0-3 of lines, or lines up to and including the first "
            "one matching a pattern) x text contents from empty to longer than the sections consume, read from memory or (a third) from a utf-8 file on disk, with and without final "
            "newline: every content of <=4 lines (quick: <=3) over an 8-line pool for 12 fixed section lists (complete), plus "
            "random lists/contents of up to 12 lines. Observed: element types and raw data of SectionFile.read(content).data and "
            "the output of write. non-trivial = content shorter than the declared sections expect, or leftovers; distinct = hash"
            " Later additions: section read() returning True/honest False/None, a third of the cases read from disk, carriage returns as ordinary characters, sections keeping what they read in an attribute of their own (data stays None)."
            " Round 11: sections whose storage is allocated by the constructor and only appended to by read(); 1-2 other contents read and "
            "written through the same file class before the measured read (40 % of the random cases); 'until' patterns that are regular "
            "expressions proper (pool + generated, see C12)."
            " Round 12: the lifetime of the file object between its read and the measured write (45 % of the random cases): 1-4 looks that "
            "modify nothing -- ==/!= as left or right operand against a file read through the same class from the same / an edited / a "
            "shorter / an unrelated content, traversals of .data and of_type() abandoned after k elements, membership, len, "
            "get_sections_of_type, first/last, writes and looks at the elements in between (each of these is recorded, compared with "
            "the model -- which is functional: every write gives the content, every look the same elements -- and judged like the measured ones)."
            " Round 13: contents at scale -- 8 per quick run of 2 kB - 37 kB (one per size class), 60 per thorough run of 2 kB - 125 kB; "
            "50 - 10000 lines (numbered lines of varying "
            "width, pool lines strewn thinly so that pattern-terminated sections stop early, late or never, a rare line of up to 600 (thorough: 9000) "
            "characters, fixed-count sections consuming up to hundreds of lines or more than there are), hence hundreds to "
            "thousands of elements written in one write; judged like the small ones, and compared with the extracted model in the "
            "extra tie (counted under judged_by_oracle_only_outside_model in the main comparison only because coqc cannot read "
            "a term of that size back for the in-kernel sample).")

    def gen(self, tier, rng):
        import random
        r2 = random.Random(4242)
        fixed = [gen_secdefs(r2) for _ in range(12)]
        for sds in fixed:
            for n in range(0, 5 if tier == "thorough" else 4):
                for combo in itertools.product(LINE_POOL, repeat=n):
                    for fin in ("\n", ""):
                        if n == 0 and fin == "":
                            continue
                        if tier == "quick" and n == 3 and (zlib.crc32("\n".join(combo).encode()) % 3):
                            continue
                        yield {"secs": sds, "content": "\n".join(combo) + (fin if n else "")}
        for _ in range(1500 if tier == "quick" else 40000):
            sds = gen_secdefs(rng, rng.random() < 0.35)
            lines = [rng.choice(LINE_POOL + (CR_POOL if rng.random() < 0.3 else [])) for _ in range(rng.randint(0, 12))]
            bom = "\ufeff" if rng.random() < 0.06 else ""     # a byte-order mark at the start of in-memory content is a character
            case = {"secs": sds, "content": bom + "\n".join(lines) + (rng.choice(["\n", "\n", ""]) if lines else "")}
            if rng.random() < 0.4:
                # object history: 1-2 other contents were read (and written) through the same file class before
                case["earlier"] = ["\n".join(rng.choice(LINE_POOL) for _ in range(rng.randint(0, 6))) + rng.choice(["\n", ""])
                                   for _ in range(rng.randint(1, 2))]
            if rng.random() < 0.45:
                # object lifetime: what is done with the file between its read and the measured elements / write
                case["looks"] = gen_looks(rng, sds, case["content"])
            yield case
        # scale: a handful of contents of 3 kB - 100 kB per run
        # (quick: one per size up to 30 kB and lines of up to 600 characters -- the model's run time grows faster than the content)
        self._scale_cases = []
        for i in range(8 if tier == "quick" else 60):
            case = gen_scale_case(rng, SCALE_SIZES[i % 7], 600) if tier == "quick" else gen_scale_case(rng)
            case["scale"] = True
            self._scale_cases.append(case)
            yield case

    def comparable(self, case):
        """the contents at scale are inside the model's input language, but not inside what coqc can read back as one term (its
        reader overflows its stack on a term of 200 000 characters): they are kept out of the batch the in-kernel sample is drawn
        from, and compared with the extracted model in extra() instead"""
        return not case.get("scale")

    def extra(self, tier, seed):
        cases = getattr(self, "_scale_cases", [])
        if not cases:
            return None
        res = lib.run_model(self.entry, [self.model_arg(c) for c in cases])
        problems = []
        for c, r in zip(cases, res):
            try:
                o = self.impl(c)
            except Exception as e:
                o = {"harness_exception": type(e).__name__ + ": " + str(e)[:200]}
            d = self.compare(c, o, self.model_obs(c, r))
            if d:
                problems.append("content of %d characters, sections %r: %s" % (len(c["content"]), c["secs"], d[:300]))
        return {"what": "contents at scale (2 kB - 125 kB): SectionFile.read/.data/write vs the extracted model, case by case as in the "
                        "main comparison (driver only: these cases are not part of the in-kernel sample)",
                "evaluations": len(cases), "problems": problems[:5]}

    def impl(self, case):
        from cfinterface.components.defaultsection import DefaultSection
        secs = [bl.mk_section_class(sd, i) for i, sd in enumerate(case["secs"])]
        F = bl.mk_sectionfile_class(secs)
        import os, hashlib
        arg = case["content"]
        if int(hashlib.sha1(repr(case).encode()).hexdigest(), 16) % 3 == 0 and "\r" not in arg and arg:
            d = os.path.join(lib.SCRATCH, "tmp_c13")
            os.makedirs(d, exist_ok=True)
            arg = os.path.join(d, "in.txt")
            with open(arg, "w", encoding="utf-8", newline="") as fh:
                fh.write(case["content"])
        looks = case.get("looks", [])
        cap = len(case["content"]) + len(secs) + 5
        during = []
        try:
            with lib.budget((5000 + 600 * (len(case["content"]) + 1 + sum(len(c) + 1 for c in case.get("earlier", [])))) * (1 + len(looks))
                            + 1200 * sum(len(l[1]) + 1 for l in looks if l[0] == "cmp")):
                for c0 in case.get("earlier", []):
                    F.read(c0).write(io.StringIO())
                f = F.read(arg)
                for look in looks:
                    self.look(f, F, secs, look, during, cap)
                elems = bl.canon_raw(f.data, DefaultSection, cap=cap)
                buf = io.StringIO()
                f.write(buf)
        except lib.BudgetExceeded:
            return {"raised": "BudgetExceeded"}
        except Exception as e:
            return {"raised": type(e).__name__ + ": " + str(e)[:100]}
        obs = {"placeholder": elems[0] if elems else None, "elems": elems[1:], "written": buf.getvalue()}
        if looks:
            obs["during"] = during
        return obs

    @staticmethod
    def look(f, F, secs, look, during, cap):
        """one use of the file object `f` that does not modify it (public API only); writes and looks at the elements are recorded"""
        from cfinterface.components.defaultsection import DefaultSection
        kind = look[0]
        if kind == "cmp":
            g = F.read(look[1])
            a, b = (f, g) if look[2] == "l" else (g, f)
            (a == b) if look[3] == "==" else (a != b)        # the verdict is C15's business, not observed here
        elif kind == "walk":
            it = iter(f.data)
            for _ in range(look[1]):
                if next(it, None) is None:
                    break
        elif kind == "oftype":
            it = f.data.of_type(DefaultSection if not 0 <= look[1] < len(secs) else secs[look[1]])
            n = 0
            while look[2] is None or n < look[2]:
                if next(it, None) is None:
                    break
                n += 1
                if n > cap:
                    break
        elif kind == "contains":
            e = f.data.first
            for _ in range(look[1]):
                if e.next is None:
                    break
                e = e.next
            e in f.data
        elif kind == "len":
            len(f.data)
        elif kind == "get":
            f.data.get_sections_of_type(DefaultSection if not 0 <= look[1] < len(secs) else secs[look[1]])
        elif kind == "ends":
            f.data.first, f.data.last
        elif kind == "write":
            buf = io.StringIO()
            f.write(buf)
            during.append(["write", buf.getvalue()])
        elif kind == "elems":
            during.append(["elems", bl.canon_raw(f.data, DefaultSection, cap=cap)])
        else:
            raise ValueError("unknown look %r" % (look,))

    def model_arg(self, case):
        return [[bl.secdef_sx(sd) for sd in case["secs"]], case["content"]]

    def model_obs(self, case, res):
        if res == [-3]:
            return {"raised": "OutOfFuel"}
        obs = {"placeholder": [-1, ""], "elems": bl.model_raw(res[0]), "written": lib.to_str(res[1])}
        if case.get("looks"):
            # the model is functional: whatever was done with the file in between, a write gives what the write of the file read
            # from the content gives, and the elements are the elements
            obs["during"] = [["write", obs["written"]] if l[0] == "write" else ["elems", [obs["placeholder"]] + obs["elems"]]
                             for l in case["looks"] if l[0] in ("write", "elems")]
        return obs

    def oracle(self, case, obs):
        if "raised" in obs:
            return "SectionFile.read/write raised: %s" % obs["raised"]
        # what was recorded while the file object was in use between its read and the measured observation: the file is what
        # was read from x for as long as nothing modifies it
        looks = [l for l in case.get("looks", []) if l[0] in ("write", "elems")]
        during = obs.get("during", [])
        if [l[0] for l in looks] != [d[0] for d in during]:
            return "the recorded intermediate observations are not the ones asked for"
        for kind, val in during:
            if kind == "write":
                if val != case["content"]:
                    return "writing the file read from x does not reproduce x (a write during the life of the file object)"
            else:
                why = self.elems_ok(case, val)
                if why:
                    return why + " (seen during the life of the file object)"
        why = self.elems_ok(case, ([obs["placeholder"]] if obs["placeholder"] is not None else []) + obs["elems"])
        if why:
            return why
        if obs["written"] != case["content"]:
            return "writing the file read from x does not reproduce x"
        return None

    @staticmethod
    def elems_ok(case, elems):
        # the empty default section the container is created with is not part of what the property speaks about
        if elems and elems[0] == [-1, ""]:
            elems = elems[1:]
        n = len(case["secs"])
        if [e[0] for e in elems[:n]] != list(range(n)):
            return "declared sections are not read exactly once each in declared order"
        if any(e[0] != -1 for e in elems[n:]):
            return "a declared section was read again after the declared list"
        # hand-off: each section starts where the previous one stopped
        pos = 0
        content = case["content"]
        for i, (idx, raw) in enumerate(elems):
            if content[pos: pos + len(raw)] != raw:
                return "element %d does not start where the previous one stopped" % i
            if idx >= 0:
                kind, arg = case["secs"][idx][0], case["secs"][idx][1]
                lines = nl_lines(content[pos:])
                if kind == "lines":
                    exp = "".join(lines[:arg])
                else:
                    exp = ""
                    for l in lines:
                        exp += l
                        if re.search(bl.regex_of(arg), l) is not None:
                            break
                if raw != exp:
                    return "declared section consumed the wrong lines"
            else:
                if raw.count("\n") > 1 or (raw.count("\n") == 1 and not raw.endswith("\n")) or raw == "":
                    return "default section does not hold exactly one line"
                if raw.count("\n") == 0 and i != len(elems) - 1:
                    # only the last line of a content can lack its terminator: a piece without one in the middle is a line cut
                    # at some other character (form feed, NEL, U+2028 ... are not line ends of a text stream)
                    return "default section does not hold exactly one line (a line was cut at a character that is not a line end)"
            pos += len(raw)
        if pos != len(content):
            return "remaining lines were not kept as default sections"
        return None

    def nontrivial(self, case, obs):
        if not isinstance(obs, dict) or "elems" not in obs:
            return False
        n = len(case["secs"])
        return n > 0 and (len(obs["elems"]) > n or any(e[1] == "" for e in obs["elems"][:n]))

    def classify(self, case):
        c = case["content"]
        d = {"sections_%d" % len(case["secs"]): 1, "lines_%02d" % min(12, c.count("\n") + (1 if c and not c.endswith("\n") else 0)): 1,
             "final_newline" if c.endswith("\n") else "no_final_newline": 1}
        if len(c) >= 2048:
            d["content_at_scale_%s" % ("2k_8k" if len(c) < 8192 else "8k_64k" if len(c) < 65536 else "over_64k")] = 1
        if case.get("earlier"):
            d["earlier_reads_through_the_same_file_class"] = 1
        for l in case.get("looks", []):
            d["file_object_used_between_read_and_write"] = 1
            k = "look_" + l[0]
            if l[0] == "cmp":
                k += ("_same_content" if l[1] == c else "_other_content") + ("_as_left_operand" if l[2] == "l" else "_as_right_operand")
            elif (l[0] == "walk" and l[1] > 0) or (l[0] == "oftype" and l[2] is not None):
                k += "_abandoned"
            d[k] = d.get(k, 0) + 1
        if any(len(sd) > 3 and sd[3] == "init" for sd in case["secs"]):
            d["section_storage_allocated_by_the_constructor"] = 1
        if any(sd[0] == "until" and not relib.is_legacy(sd[1]) for sd in case["secs"]):
            d["with_regular_expression_patterns"] = 1
        return d

    def signature(self, case, why):
        return re.sub(r"[0-9]+", "#", why)

    def shrink(self, case):
        lines = nl_lines(case["content"])
        w = len(lines) // 2
        while w >= 2:                # long contents: whole blocks of lines first
            for i in range(0, len(lines), w):
                c = dict(case)
                c["content"] = "".join(lines[:i] + lines[i + w:])
                yield c
            w //= 2
        for i in range(len(lines)):
            c = dict(case)
            c["content"] = "".join(lines[:i] + lines[i + 1:])
            yield c
        for i in range(len(case["secs"])):
            c = dict(case)
            c["secs"] = case["secs"][:i] + case["secs"][i + 1:]
            yield c
        if case.get("earlier"):
            for i in range(len(case["earlier"])):
                c = dict(case)
                c["earlier"] = case["earlier"][:i] + case["earlier"][i + 1:]
                yield c
        if case.get("looks"):
            for i in range(len(case["looks"])):
                c = dict(case)
                c["looks"] = case["looks"][:i] + case["looks"][i + 1:]
                yield c

    def neighbours(self, case, rng):
        return []
