"""C15 — equality is element-wise, symmetric and deterministic."""
import itertools

from ..framework import Check
from .. import families

FOREIGN = ["int", "none", "str", "other_family_file", "list", "elem"]


WRAPS = ["generic", "declared", "revision", "sibling"]
_file_classes = {}


def file_class(fam, wrap):
    """the file class that wraps a container: the family's generic file class (RegisterFile / BlockFile / SectionFile), a
    declared format (a subclass that lists the element classes), a revision of that format (a subclass of the declared
    format that changes nothing), or a sibling format (another direct subclass declaring the same element classes)"""
    if (fam, wrap) not in _file_classes:
        F = families.get(fam)
        ns = {F["list_attr"]: list(families.elem_classes(fam)), "__slots__": []}
        decl = type(fam + "Declared", (F["File"],), dict(ns))
        _file_classes[(fam, "generic")] = F["File"]
        _file_classes[(fam, "declared")] = decl
        _file_classes[(fam, "revision")] = type(fam + "Revision", (decl,), {"__slots__": []})
        _file_classes[(fam, "sibling")] = type(fam + "Sibling", (F["File"],), dict(ns))
    return _file_classes[(fam, wrap)]


def build(fam, seq, as_file, noise=0, wrap="generic"):
    F = families.get(fam)
    # type 4 is the framework's own default component (DefaultRegister / DefaultBlock / DefaultSection, with their own __eq__)
    T = families.elem_classes(fam) + [F["Default"]]
    # the abstract data values 1, 2, 3 are carried by 1, 0.3 and 0.1 + 0.2 (= 0.30000000000000004): equality is exact
    carrier = {1: 1, 2: 0.3, 3: 0.1 + 0.2}
    elems = [T[c](data=[carrier.get(d, d)]) for c, d in seq]
    if noise >= 2:
        # the first element was a member of another container before (remove() leaves its previous/next as they were):
        # equality is about the sequence the container holds now
        tmp = F["Data"](T[2](data=[5]))
        tmp.append(T[3](data=[6]))
        tmp.append(elems[0])
        tmp.remove(elems[0])
    c = F["Data"](elems[0])
    for e in elems[1:]:
        c.append(e)
    if noise and len(elems) > 1:
        # operations that leave the sequence as it is: removing an element that is not a member, removing a member and putting it
        # back, removing the same (non-first) member twice and appending it again -- equality is about the sequence, not the history
        if noise % 3 == 1:
            c.remove(T[0](data=[99]))
        elif noise % 3 == 2:
            last = elems[-1]
            c.remove(last)
            c.remove(last)
            c.append(last)
        else:
            x = T[2](data=[7])
            c.append(x)
            c.remove(x)
    return file_class(fam, wrap)(c) if as_file else c


CARRIER = {1: 1, 2: 0.3, 3: 0.1 + 0.2}
EDITS = ["item", "assign", "slice"]


def move(obj, cur, new, fam, how):
    """bring the container (or file) `obj`, which holds the abstract sequence `cur`, to hold `new` by editing it IN PLACE:
    elements of the longest common prefix of equal types keep their identity and get their data edited (`how`: item
    assignment data[0] = v -- what a property setter of a user component does --, slice assignment data[:] = [v], or
    assignment of a new list to .data); what follows is removed from the tail and the new tail is appended as new elements"""
    F = families.get(fam)
    T = families.elem_classes(fam) + [F["Default"]]
    c = obj.data if isinstance(obj, F["File"]) else obj
    elems = list(c)
    p = 0
    while p < min(len(cur), len(new)) and cur[p][0] == new[p][0]:
        p += 1
    for e in reversed(elems[p:]):
        c.remove(e)
    for i in range(p):
        if cur[i][1] != new[i][1]:
            v = CARRIER.get(new[i][1], new[i][1])
            e = elems[i]
            if how == "item":
                e.data[0] = v
            elif how == "slice":
                e.data[:] = [v]
            else:
                e.data = [v]
    for t, d in new[p:]:
        c.append(T[t](data=[CARRIER.get(d, d)]))


def seq_equal(xs, ys):
    return len(xs) == len(ys) and all(x == y for x, y in zip(xs, ys))


class CHECK(Check):
    pid = "C15"
    entry = "C15"
    theorems = ["C15_elem", "C15_elem_sym", "C15_container", "C15_refl", "C15_sym", "C15_prefix"]
    rule = ("pairs of element sequences (lengths 1-8) for the three families, compared as containers and as files with "
            "==, reflected ==, and !=: (a) every pair of sequences of length<=2 (quick) / <=3 (thorough) over a pool "
            "of 5 element kinds (two classes related by subclassing, an unrelated class, two data values); (b) "
            "random pairs: equal, differing in one position, differing in type only (unrelated and subclass-related), "
            "one a proper prefix of the other; (c) foreign right-hand sides (number, None, string, list, an element, "
            "a file of another family). Also: the same register content read twice gives equal files and equal files "
            "write identical output. non-trivial = the two sequences differ in at most one position or are prefix-related; "
            "distinct = case hash"
            " Later additions: register elements use the library's own Register.__eq__; half of the cases apply sequence-preserving operations (remove a non-member, remove twice and re-append, append+remove) before comparing; delimited register types in the read-twice part."
            " Object histories: 40% of the random pairs and a seventh of the exhaustive ones are reached through 1-3 earlier states of the two objects (other data at 1-2 positions of one or both sides, sometimes a trailing element more or less), each state compared (==, reflected, !=, and each object with itself) and then edited IN PLACE into the next one (data[0] = v as a property setter does, data[:] = [v], or .data = [v]; tail elements removed/appended); every earlier comparison is judged element-wise too, and the final object is also compared with a freshly built equal one. Half of the read-twice files are, after being compared, edited in place (one value of one register blanked in the first file: unequal; then in the second: equal again, identical output)."
            " File classes: half of the random file pairs, a sixth of the exhaustive ones and the foreign cases wrap the two containers in two file classes of the family drawn independently from {generic RegisterFile/BlockFile/SectionFile, a declared format, a revision (subclass) of it, a sibling format with the same declaration}; the freshly built equal file takes the class of the other side; 40% of the read-twice cases make the second reading through a revision or a sibling of the first file class. Equality is judged on the element sequences alone.")
    not_exhibited = ["foreign right-hand sides and read-twice/write-equal are checked by the direct oracle only "
                     "(the model covers container-vs-container comparison)",
                     "in a case with a history the model gives the measured (last) comparison; the comparisons made on the earlier "
                     "states, and those after the in-place edit of read files, are judged by the direct oracle (element-wise "
                     "comparison of the abstract sequences / of types and data seen through the public API)"]

    def history(self, rng, xs, ys):
        """1-3 earlier states of the two sequences (same element types on the common positions, so that the elements keep their
        identity; other data at 1-2 positions of one side or of both; sometimes a trailing element more or less), each of
        which is compared before it is edited in place into the next one; the last edit leads to xs / ys"""
        def earlier(seq, js):
            st = [list(e) for e in seq]
            for j in js:
                if j < len(st):
                    st[j][1] = rng.choice([d for d in (1, 2, 3) if d != st[j][1]])
            r = rng.random()
            if r < 0.12 and len(st) > 1:
                st.pop()
            elif r < 0.24:
                st.append([rng.choice([0, 1, 2, 3, 4]), rng.choice([1, 2, 3])])
            return st
        steps = []
        for _ in range(rng.choice([1, 1, 2, 3])):
            js = [rng.randrange(max(len(xs), len(ys))) for _ in range(rng.choice([1, 1, 2]))]
            side = rng.choice(["x", "y", "both", "both"])
            steps.append({"xs": earlier(xs, js if side != "y" else []), "ys": earlier(ys, js if side != "x" else [])})
        return {"steps": steps, "edit": rng.choice(EDITS)}

    def gen(self, tier, rng):
        pool = [(0, 1), (0, 2), (1, 1), (2, 1), (1, 2)]
        maxn = 2 if tier == "quick" else 3
        seqs = [list(s) for n in range(1, maxn + 1) for s in itertools.product(pool, repeat=n)]
        i = 0
        for xs in seqs:
            for ys in seqs:
                i += 1
                c = {"fam": families.FAMILIES[i % 3], "xs": [list(x) for x in xs], "ys": [list(y) for y in ys],
                     "file": i % 2 == 0, "kind": "exh"}
                yield c
                if i % 6 == 0:
                    # the same pair of sequences held by files of two (possibly different) file classes of the family
                    yield dict(c, wrap=[WRAPS[(i // 6) % 4], WRAPS[(i // 24) % 4]])
                if i % 7 == 0:
                    # the same pair reached through a history of compared-and-edited earlier states
                    yield dict(c, hist=self.history(rng, c["xs"], c["ys"]))
        n = 3000 if tier == "quick" else 60000
        for _ in range(n):
            ln = rng.randint(1, 8)
            xs = [[rng.choice([0, 1, 2, 3, 4]), rng.choice([1, 2, 3])] for _ in range(ln)]
            ys = [list(x) for x in xs]
            k = rng.choice(["equal", "one", "type", "subtype", "prefix", "random"])
            if k == "one":
                j = rng.randrange(ln)
                ys[j][1] = ys[j][1] % 3 + 1
            elif k == "type":
                j = rng.randrange(ln)
                ys[j][0] = (ys[j][0] + rng.choice([2, 3, 4])) % 5
            elif k == "subtype":
                j = rng.randrange(ln)
                xs[j][0] = 0
                ys[j][0] = 1
                if rng.random() < 0.5:
                    xs, ys = ys, xs
            elif k == "prefix":
                ys = ys + [[rng.choice([0, 1, 2]), rng.choice([1, 2])] for _ in range(rng.randint(1, 3))]
                if rng.random() < 0.5:
                    xs, ys = ys, xs
            elif k == "random":
                ys = [[rng.choice([0, 1, 2, 3, 4]), rng.choice([1, 2, 3])] for _ in range(rng.randint(1, 8))]
            c = {"fam": rng.choice(families.FAMILIES), "xs": xs, "ys": ys, "file": rng.random() < 0.5, "kind": k}
            if rng.random() < 0.4:
                c["hist"] = self.history(rng, xs, ys)
            if c["file"] and rng.random() < 0.5:
                # the two files are instances of two file classes of the family (generic, declared format, revision of it, sibling)
                c["wrap"] = [rng.choice(WRAPS), rng.choice(WRAPS)]
            yield c
        # the same content read twice gives equal files, and equal files write identical output
        from .. import reglib
        from .c04 import gen_line
        for _ in range(400 if tier == "quick" else 8000):
            regdefs = reglib.gen_regdefs(rng, same_window=True, delim=rng.random() < 0.35)
            lines = [gen_line(rng, regdefs) for _ in range(rng.randint(0, 8))]
            lines = [l for l in lines if "nan" not in l.lower() and "inf" not in l.lower()]
            c = {"fam": "register", "kind": "readtwice", "regdefs": regdefs, "xs": [], "ys": None,
                 "content": "\n".join(lines) + (rng.choice(["\n", ""]) if lines else "")}
            if rng.random() < 0.5:
                # after the two files were compared, one value of one register of the first is blanked in place (the files must
                # differ now), then the same value of the second (they must be equal again and write the same output)
                c["edit"] = {"pos": rng.randrange(64), "field": rng.randrange(64), "how": rng.choice(EDITS)}
            if rng.random() < 0.4:
                # the second reading is made through a revision (subclass that changes nothing) or a sibling (same declaration) of
                # the file class of the first
                c["wrap"] = rng.choice(["revision", "sibling"])
            yield c
        for fam in families.FAMILIES:
            for f in FOREIGN:
                for as_file in (False, True):
                    yield {"fam": fam, "xs": [[0, 1], [2, 2]], "ys": None, "foreign": f, "file": as_file, "kind": "foreign"}
                    if as_file:
                        for w in WRAPS[1:]:
                            yield {"fam": fam, "xs": [[0, 1], [2, 2]], "ys": None, "foreign": f, "file": True, "kind": "foreign",
                                   "wrap": [w, w]}

    def impl(self, case):
        if case.get("kind") == "readtwice":
            import io
            from .. import reglib
            regs = reglib.mk_register_classes(case["regdefs"])
            F = reglib.mk_file_class(regs)
            G = {None: F, "revision": type(F.__name__ + "Rev", (F,), {"__slots__": []}),
                 "sibling": reglib.mk_file_class(regs)}[case.get("wrap")]
            try:
                a, b = F.read(case["content"]), G.read(case["content"])
                import math
                for e in a.data:
                    d = e.data if isinstance(e.data, list) else []
                    if any(isinstance(v, float) and not math.isfinite(v) for v in d):
                        # "1e907" reads as inf: non-finite floats are outside the properties' domain (they cannot be
                        # written in E notation and NaN is never equal to itself)
                        return {"nonfinite": True}
                ba, bb = io.StringIO(), io.StringIO()
                a.write(ba)
                b.write(bb)
                obs = {"ab": bool(a == b), "ba": bool(b == a), "ne": bool(a != b), "same_output": ba.getvalue() == bb.getvalue(),
                       "distinct_containers": a.data is not b.data}
                ed = case.get("edit")
                if ed:
                    def elementwise(f, g):
                        x, y = list(f.data), list(g.data)
                        return len(x) == len(y) and all(type(u) is type(v) and u.data == v.data for u, v in zip(x, y))

                    def blank(f, k, i):
                        e = list(f.data)[k]
                        if ed["how"] == "item":
                            e.data[i] = None
                        elif ed["how"] == "slice":
                            e.data[i:i + 1] = [None]
                        else:
                            e.data = e.data[:i] + [None] + e.data[i + 1:]
                    el = [k for k, e in enumerate(a.data) if isinstance(e.data, list) and any(v is not None for v in e.data)]
                    if el:
                        k = el[ed["pos"] % len(el)]
                        ix = [i for i, v in enumerate(list(a.data)[k].data) if v is not None]
                        i = ix[ed["field"] % len(ix)]
                        blank(a, k, i)
                        obs["mid"] = {"exp": elementwise(a, b), "ab": bool(a == b), "ba": bool(b == a), "ne": bool(a != b)}
                        blank(b, k, i)
                        ba, bb = io.StringIO(), io.StringIO()
                        a.write(ba)
                        b.write(bb)
                        obs["end"] = {"exp": elementwise(a, b), "ab": bool(a == b), "ba": bool(b == a), "ne": bool(a != b),
                                      "same_output": ba.getvalue() == bb.getvalue()}
                return obs
            except Exception as e:
                return {"raised": type(e).__name__ + ": " + str(e)[:80]}
        import hashlib, json
        h = int(hashlib.sha1(json.dumps(case, sort_keys=True).encode()).hexdigest(), 16)
        na, nb = (h % 4, (h >> 3) % 4) if h & 64 else (0, 0)    # half of the cases: sequence-preserving operations before comparing
        hist = case.get("hist")
        wa, wb = case.get("wrap") or ("generic", "generic")
        if hist:
            # the two objects start in the first earlier state; each state is compared (also each object with itself, which walks
            # all of its elements) and then edited in place into the next one, the last edit leading to xs / ys
            st = hist["steps"]
            a = build(case["fam"], st[0]["xs"], case["file"], na, wa)
            b = build(case["fam"], st[0]["ys"], case["file"], nb, wb)
            seen = []
            for k, cur in enumerate(st):
                seen.append({"ab": bool(a == b), "ba": bool(b == a), "ne": bool(a != b), "aa": bool(a == a), "bb": bool(b == b)})
                nxt = st[k + 1] if k + 1 < len(st) else case
                move(a, cur["xs"], nxt["xs"], case["fam"], hist["edit"])
                move(b, cur["ys"], nxt["ys"], case["fam"], hist["edit"])
            a2 = build(case["fam"], case["xs"], case["file"], 0, wb)
            return {"ab": bool(a == b), "ba": bool(b == a), "ne": bool(a != b), "aa": bool(a == a), "aa2": bool(a == a2),
                    "again": bool(a == b), "hist": seen}
        a = build(case["fam"], case["xs"], case["file"], na, wa)
        if case["ys"] is None:
            f = case["foreign"]
            other = families.FAMILIES[(families.FAMILIES.index(case["fam"]) + 1) % 3]
            b = {"int": 3, "none": None, "str": "x", "list": [1], "elem": families.elem_classes(case["fam"])[0](data=[1]),
                 "other_family_file": build(other, case["xs"], True, 0, wb)}[f]
            return {"ab": bool(a == b), "ba": bool(b == a), "ne": bool(a != b)}
        b = build(case["fam"], case["ys"], case["file"], nb, wb)
        a2 = build(case["fam"], case["xs"], case["file"], 0, wb)
        return {"ab": bool(a == b), "ba": bool(b == a), "ne": bool(a != b), "aa": bool(a == a), "aa2": bool(a == a2),
                "again": bool(a == b)}

    def model_arg(self, case):
        ys = case["ys"] if case["ys"] is not None else []
        sub5 = [row + [0] for row in families.SUB] + [[0, 0, 0, 0, 1]]      # the default type is related to none of the others
        return [sub5, case["xs"], ys]

    def model_obs(self, case, res):
        return {"ab": bool(res[0]), "ba": bool(res[1])}

    def compare(self, case, iobs, mobs):
        if case["ys"] is None or case.get("kind") == "readtwice":
            return None
        if not isinstance(iobs, dict) or "ab" not in iobs:
            return "implementation raised: %s" % (iobs,)
        if iobs["ab"] != mobs["ab"] or iobs["ba"] != mobs["ba"]:
            return "impl ab=%s ba=%s model ab=%s ba=%s" % (iobs["ab"], iobs["ba"], mobs["ab"], mobs["ba"])
        return None

    def oracle(self, case, obs):
        if isinstance(obs, dict) and obs.get("nonfinite"):
            return None
        if not isinstance(obs, dict) or "ab" not in obs:
            return "comparison raised: %s" % (obs,)
        if case.get("kind") == "readtwice":
            if not (obs["ab"] and obs["ba"]) or obs["ne"]:
                return "reading the same content twice gives unequal files"
            if not obs["same_output"]:
                return "equal files write different output"
            if not obs["distinct_containers"]:
                return "two reads of the same content share one container"
            for ph in ("mid", "end"):
                o = obs.get(ph)
                if o is None:
                    continue
                if o["ab"] != o["exp"] or o["ba"] != o["exp"] or o["ne"] == o["exp"]:
                    return "after an in-place edit of compared files: a == b is %s, b == a is %s, element-wise comparison says %s" % (o["ab"], o["ba"], o["exp"])
                if ph == "end" and o["exp"] and not o["same_output"]:
                    return "equal files write different output"
            return None
        if case["ys"] is None:
            if obs["ab"] or obs["ba"] or not obs["ne"]:
                return "equal to a foreign object (%s)" % case["foreign"]
            return None
        xs, ys = case["xs"], case["ys"]
        if case.get("hist"):
            for st, o in zip(case["hist"]["steps"], obs["hist"]):
                e = seq_equal(st["xs"], st["ys"])
                if o["ab"] != e or o["ba"] != e or o["ne"] == e or not o["aa"] or not o["bb"]:
                    return "an earlier state of the history compares wrongly: ==, reflected ==, != give %s %s %s, element-wise comparison says %s" % (o["ab"], o["ba"], o["ne"], e)
        exp = len(xs) == len(ys) and all(x == y for x, y in zip(xs, ys))
        if obs["ab"] != exp:
            return "a == b is %s, element-wise comparison says %s" % (obs["ab"], exp)
        if obs["ba"] != obs["ab"]:
            return "equality is not symmetric"
        if obs["ne"] == obs["ab"]:
            return "!= is not the negation of =="
        if not obs["aa"] or not obs["aa2"]:
            return "equality is not reflexive"
        if obs["again"] != obs["ab"]:
            return "equality is not deterministic"
        return None

    def nontrivial(self, case, obs):
        if case.get("kind") == "readtwice":
            return len(case["content"]) > 0
        if case["ys"] is None:
            return True
        xs, ys = case["xs"], case["ys"]
        if len(xs) != len(ys):
            return xs[: len(ys)] == ys or ys[: len(xs)] == xs
        return sum(1 for x, y in zip(xs, ys) if x != y) <= 1

    def classify(self, case):
        d = {"kind_" + case["kind"]: 1, "fam_" + case["fam"]: 1, "as_file" if case.get("file", True) else "as_container": 1}
        if case.get("hist"):
            d["with_history"] = 1
            d["history_steps_%d" % len(case["hist"]["steps"])] = 1
            d["history_edit_" + case["hist"]["edit"]] = 1
            if seq_equal(case["xs"], case["ys"]) and not all(seq_equal(s["xs"], s["ys"]) for s in case["hist"]["steps"]):
                d["history_unequal_then_equal"] = 1
        if case.get("edit"):
            d["readtwice_edited_after_comparing"] = 1
        w = case.get("wrap")
        if w and case.get("kind") == "readtwice":
            d["readtwice_second_reading_through_" + w] = 1
        elif w and case.get("file"):
            d["file_classes_%s_vs_%s" % tuple(w)] = 1
            d["file_classes_differ" if w[0] != w[1] else "file_classes_same"] = 1
        return d

    def signature(self, case, why):
        return why.split(" (")[0]

    def shrink(self, case):
        if case["ys"] is None or case.get("kind") == "readtwice":
            return
        xs, ys = case["xs"], case["ys"]
        hist = case.get("hist")
        if hist:
            # fewer earlier states first, then shorter sequences (the same position taken out of every state; the first element
            # keeps its type throughout, so that the in-place edit never empties a container)
            steps = hist["steps"]
            yield {k: v for k, v in case.items() if k != "hist"}
            for k in range(len(steps)):
                if len(steps) > 1:
                    yield dict(case, hist=dict(hist, steps=steps[:k] + steps[k + 1:]))
            for i in range(max([len(xs), len(ys)] + [len(s[w]) for s in steps for w in ("xs", "ys")])):
                cut = lambda q: q[:i] + q[i + 1:]
                c = dict(case, xs=cut(xs), ys=cut(ys),
                         hist=dict(hist, steps=[{"xs": cut(s["xs"]), "ys": cut(s["ys"])} for s in steps]))
                ok = True
                for w in ("xs", "ys"):
                    sts = [s[w] for s in c["hist"]["steps"]] + [c[w]]
                    ok = ok and all(sts) and len(set(q[0][0] for q in sts if q)) == 1
                if ok:
                    yield c
            return
        for i in range(max(len(xs), len(ys))):
            c = dict(case)
            c["xs"] = xs[:i] + xs[i + 1:]
            c["ys"] = ys[:i] + ys[i + 1:]
            if c["xs"] and c["ys"]:
                yield c

    def neighbours(self, case, rng):
        if case.get("kind") == "readtwice":
            return
        for fam in families.FAMILIES:
            for fl in (False, True):
                c = dict(case)
                c["fam"] = fam
                c["file"] = fl
                yield c
