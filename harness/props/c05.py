"""C05 — register file data round trip: read(write(D)) equals D."""
import datetime
import io

from ..framework import Check
from .. import fieldlib as fl, reglib, lib, dates


def canonical_value(rng, fd):
    """a fitting value that is its own canonical form (best effort; the model decides)"""
    v = fl.gen_value(rng, fd, missing=0.15)
    if v is None or v[0] in ("nan", "nat"):
        return ["str", ""] if fd["k"] == "lit" else None
    if fd["k"] == "float":
        x = fl.b2f(v[1])
        try:
            if fd["fmt"] in "Ee":
                x = float("{:.{d}E}".format(x, d=fd["dd"]))
            else:
                for d in range(fd["dd"], -1, -1):
                    t = "{:.{d}f}".format(round(x, d), d=d)
                    if len(t) <= fd["size"]:
                        break
                x = float(t)
        except (OverflowError, ValueError):
            x = 0.0
        return ["float", fl.f2b(x)]
    if fd["k"] == "date":
        f0 = fd["formats"][0]
        d = datetime.datetime(*v[1])
        return ["date", dates.dt_tuple(datetime.datetime.strptime(d.strftime(f0), f0))]
    return v


def gen_data(rng, regdefs, nmax=12, allnone=0.08):
    out = []
    for _ in range(rng.randint(0, nmax)):
        if rng.random() < 0.25:
            for _try in range(60):     # an identifier test like .* leaves no free-text line: then none is generated
                t = "".join(rng.choice("abc xyz.#;-19") for _ in range(rng.randint(1, 14)))
                if reglib.ref_dispatch(regdefs, t + "\n") < 0:
                    out.append([-1, t + "\n"])
                    break
        else:
            i = rng.randrange(len(regdefs))
            fs = regdefs[i]["fields"]
            if rng.random() < allnone:
                out.append([i, [None] * len(fs)])
            else:
                out.append([i, [canonical_value(rng, fd) for fd in fs]])
    if out and out[-1][0] < 0 and rng.random() < 0.4:
        out[-1] = [-1, out[-1][1].rstrip("\n")]     # a last line without newline is content too (only the LAST element can lack it)
    return out


def build_file(F, regs, elems, prep=0):
    """prep 0: registers constructed with their data; prep 1: constructed empty, the file saved once, then filled in
    place (the way property setters edit a register) ; prep 2: constructed with other data, inspected, then edited in place"""
    import io
    from cfinterface.components.defaultregister import DefaultRegister
    from cfinterface.data.registerdata import RegisterData
    data = RegisterData(DefaultRegister(data=""))
    later = []
    for i, d in elems:
        if i < 0:
            data.append(DefaultRegister(data=d))
        else:
            vals = [fl.py_value(v) for v in d]
            if prep == 0 or not vals:
                r = regs[i](data=vals)
            elif prep == 1:
                r = regs[i](data=[None] * len(vals))
                later.append((r, vals))
            else:
                r = regs[i](data=[(0 if isinstance(v, int) else v) if v is not None else 0 for v in vals])
                _ = r.empty
                later.append((r, vals))
            data.append(r)
    f = F(data)
    if later:
        if prep == 1:
            f.write(io.StringIO())
        for r, vals in later:
            for j, v in enumerate(vals):
                r.data[j] = v
    return f


class CHECK(Check):
    pid = "C05"
    entry = "REGFILE"
    theorems = ["C05_roundtrip", "C05_empty_skipped", "C05_falsy_kept", "C05_dispatch_written"]
    rule = ("register file definitions of 1-4 types (equal or different identifier windows, identifiers unambiguous by the decidable "
            "sufficient condition, positional layouts of 1-4 fields of mixed kinds) x sequences of 0-12 elements: typed "
            "registers with canonical fitting data (zeros, empty strings, None in non-literal positions), registers "
            "whose values are all None, free-text lines that match no identifier; registers are constructed with their data, or constructed empty / with other data, saved or inspected once and then edited in place (object history); the file is written to a StringIO, "
            "read back, compared element by element and with ==. The model decides whether the generated data are "
            "fitting and canonical (others are counted and skipped). non-trivial = at least two typed elements of "
            "different types or a typed and a default element; distinct = hash"
            " Later additions: class hierarchies, out-of-order field declarations, a last free-text line without newline, literal values with form feed / FS / NEL / U+2028.")

    def gen(self, tier, rng):
        n = 2500 if tier == "quick" else 60000
        made = 0
        while made < n:
            regdefs = reglib.gen_regdefs(rng, same_window=rng.random() < 0.5)
            if not reglib.unambiguous(regdefs):
                continue
            made += 1
            yield {"regdefs": regdefs, "elems": gen_data(rng, regdefs), "prep": rng.choice([0, 0, 1, 2])}
        # falsy values explicitly
        rd = [{"ident": "Z", "digits": 2, "fields": [{"k": "int", "size": 4, "start": 2}, {"k": "lit", "size": 3, "start": 6},
                                                      {"k": "float", "size": 6, "start": 9, "dd": 1, "fmt": "F", "sep": "."}], "delim": None}]
        for d in ([["int", 0], ["str", ""], None], [None, ["str", ""], None], [None, ["str", ""], ["float", fl.f2b(0.0)]],
                  [["int", 0], ["str", ""], ["float", fl.f2b(-0.0)]], [None, None, None]):
            yield {"regdefs": rd, "elems": [[0, d], [-1, "free text\n"], [0, d]]}

    def impl(self, case):
        regs = reglib.mk_register_classes(case["regdefs"])
        F = reglib.mk_file_class(regs)
        try:
            with lib.budget(200000):
                f = build_file(F, regs, case["elems"], case.get("prep", 0))
                buf = io.StringIO()
                f.write(buf)
                text = buf.getvalue()
                g = F.read(text)
                elems = reglib.canon_elems(g.data, regs, cap=len(text) + 5)
                eq = bool(f == g)
                eq2 = bool(g == f)
        except lib.BudgetExceeded:
            return {"raised": "BudgetExceeded"}
        except Exception as e:
            return {"raised": type(e).__name__ + ": " + str(e)[:100]}
        return {"text": text, "elems": elems[1:], "placeholder": elems[0], "eq": eq, "eq2": eq2}

    def model_arg(self, case):
        return [0, False, 1, [reglib.regdef_sx(rd) for rd in case["regdefs"]], 1, reglib.elems_sx(case["elems"])]

    def model_obs(self, case, res):
        text, elems, pos, fits = res
        if text == []:
            return {"text": None, "elems": None, "fits": False}
        kept = [e for e in case["elems"] if e[0] < 0 or any(v is not None for v in e[1])]
        me = reglib.model_elems(elems) if elems != [-3] else None
        return {"text": fl.ostr(text), "elems": me, "fits": bool(fits) and me == kept}

    def in_domain(self, case, mobs):
        return mobs["fits"]     # fitting AND canonical: the model's own round trip returns the data

    def compare(self, case, iobs, mobs):
        if "raised" in iobs:
            return "implementation raised %s" % iobs["raised"]
        for k in ("text", "elems"):
            if iobs[k] != mobs[k]:
                return "%s: impl=%r model=%r" % (k, iobs[k], mobs[k])
        return None

    def oracle(self, case, obs):
        if "raised" in obs:
            return "write/read raised: %s" % obs["raised"]
        kept = [e for e in case["elems"] if e[0] < 0 or any(v is not None for v in e[1])]
        if obs["placeholder"] != [-1, ""]:
            return "placeholder lost"
        if len(obs["elems"]) != len(kept):
            return "number of elements differs after write/read (all-None registers must vanish, everything else stays)"
        for a, b in zip(obs["elems"], kept):
            if a[0] != b[0]:
                return "element type differs after write/read"
            if a[1] != b[1]:
                return "element data differ after write/read"
        expect_eq = len(kept) == len(case["elems"])
        if obs["eq"] != expect_eq or obs["eq2"] != expect_eq:
            return "file equality operator disagrees with the element-wise comparison"
        return None

    def nontrivial(self, case, obs):
        ts = set(e[0] for e in case["elems"])
        return len(ts) >= 2

    def classify(self, case):
        d = {"types_%d" % len(case["regdefs"]): 1, "elems_%02d" % len(case["elems"]): 1, "prep_%d" % case.get("prep", 0): 1}
        for e in case["elems"]:
            k = "default_line" if e[0] < 0 else ("all_none" if all(v is None for v in e[1]) else "typed")
            d[k] = d.get(k, 0) + 1
        return d

    def signature(self, case, why):
        return why.split(":")[0]

    def shrink(self, case):
        if len(case["elems"]) > 1:
            for i in range(len(case["elems"])):
                c = dict(case)
                c["elems"] = case["elems"][:i] + case["elems"][i + 1:]
                yield c

    def neighbours(self, case, rng):
        for _ in range(15):
            c = dict(case)
            c["elems"] = gen_data(rng, case["regdefs"], nmax=5)
            yield c
