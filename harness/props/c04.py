"""C04 — register file: every line becomes exactly one element, first matching type wins."""
import io
import itertools

from ..framework import Check
from .. import fieldlib as fl, reglib, lib


def gen_line(rng, regdefs):
    """one text line (without newline) from the grammar: well-formed, truncated, extended, shifted, blank, garbage"""
    k = rng.random()
    if k < 0.12:
        return rng.choice(["", " ", "   ", "\t"])
    if k < 0.25:
        return "".join(rng.choice("abAB1 .;-xyz\r\x0cé€") for _ in range(rng.randint(1, 14)))
    r = rng.choice(regdefs)
    from cfinterface.components.line import Line
    from cfinterface.components.literalfield import LiteralField
    fields = [LiteralField(r["digits"], 0)] + [fl.mk_field(fd) for fd in r["fields"]]
    vals = [r["ident"]] + [fl.py_value(fl.gen_value(rng, fd)) for fd in r["fields"]]
    try:
        text = Line(fields, delimiter=r.get("delim")).write(vals)[:-1]
    except (OverflowError, TypeError, ValueError):
        text = r["ident"]
    m = rng.random()
    if m < 0.55:
        return text
    if m < 0.65:
        return text[: rng.randint(0, len(text))]
    if m < 0.75:
        return text + rng.choice([" tail", "9", "   "])
    if m < 0.87:
        return " " * rng.randint(1, 3) + text          # identifier shifted (possibly out of the window)
    i = rng.randrange(len(text)) if text else 0
    return text[:i] + rng.choice("#x 9") + text[i + 1:]


def ref_data(r, line):
    from .c03 import ref_interp
    out = []
    if r.get("delim") is None:
        for fd in r["fields"]:
            out.append(ref_interp(fd, line[fd["start"]: fd["start"] + fd["size"]]))
    else:
        toks = [t.strip() for t in line.split(r["delim"])][1:]
        for i, fd in enumerate(r["fields"]):
            out.append(ref_interp(fd, toks[i][: fd["size"]]) if i < len(toks) else None)
    return out


class CHECK(Check):
    pid = "C04"
    entry = "REGFILE"
    theorems = ["C04_total", "C04_one_element_per_line", "C04_accounting", "C04_dispatch_first_match", "C04_default_verbatim", "C04_data_local",
                "C04_identifier_found", "C04_identifier_literal", "C04_identifier_window", "C04_dispatch_denotation"]
    rule = ("register lists of 1-4 types drawn from an identifier pool with substring relations (A, AB, B, 'AB ', BA, ...) "
            "and identifier windows >= the identifier length so that declaration order matters x text contents of 0-12 "
            "lines from a grammar (well-formed lines written by the types, truncated, extended, identifier shifted out of "
            "the window, one character corrupted, blank, garbage) with and without final newline; plus every content of "
            "<=3 lines over a 6-line pool for 12 fixed register lists (complete). A third of the contents are read from a file on disk (utf-8) instead of in memory. Observed: type and data of every "
            "element of RegisterFile.read(content).data. non-trivial = at least one typed and one default element or "
            ">= 2 candidate types match a line; distinct = hash"
            " Round 11: identifiers that are regular expressions proper (anchors, classes, . \\s \\d, alternation, repetition; the model's regex language). Later additions: register class hierarchies, twin definitions (same identifier and window), fields declared out of column order, a third of the cases read from disk.")

    def gen(self, tier, rng):
        # complete small scope
        fixed = []
        r2 = __import__("random").Random(12345)
        for i in range(12):
            fixed.append(reglib.gen_regdefs(r2, nmax=3, sci=False))
        for regdefs in fixed:
            pool = ["", "   ", "garbage"] + [gen_line(r2, regdefs) for _ in range(3)]
            for n in range(0, 4 if tier == "thorough" else 3):
                for combo in itertools.product(pool, repeat=n):
                    for final_nl in (True, False):
                        if n == 0 and not final_nl:
                            continue
                        content = "\n".join(combo) + ("\n" if final_nl and n else "")
                        yield {"regdefs": regdefs, "content": content, "kind": "exh"}
        # identifiers written as regular expressions for a literal text (escaped metacharacters, a group): the pattern's SOURCE is
        # longer than what it matches, the window is as wide as the matched text
        for _ in range(150 if tier == "quick" else 3000):
            regdefs = reglib.gen_regdefs(rng, nmax=3, sci=False)
            lit, src = rng.choice([("*", "\\*"), ("A.", "A\\."), ("+B", "\\+B"), ("AB", "(AB)"), ("X1", "X[1]"), ("$", "[$]")])
            regdefs[rng.randrange(len(regdefs))].update({"ident": lit, "ident_re": src, "digits": len(lit) + rng.choice([0, 0, 1])})
            lines = [gen_line(rng, regdefs) for _ in range(rng.randint(0, 10))]
            content = "\n".join(lines) + (rng.choice(["\n", "\n", ""]) if lines else "")
            yield {"regdefs": regdefs, "content": content, "kind": "random"}
        # identifiers that are regular expressions proper (the model's language, coq/Py/PyRe.v): "found in the window" is re.search
        for _ in range(600 if tier == "quick" else 12000):
            regdefs = reglib.gen_regdefs(rng, nmax=4, sci=False)
            for rd in regdefs:
                if rng.random() < 0.6:
                    rd["ident_pat"] = reglib.gen_ident_pat(rng, rd["ident"])
            lines = [gen_line(rng, regdefs) for _ in range(rng.randint(0, 10))]
            content = "\n".join(lines) + (rng.choice(["\n", "\n", ""]) if lines else "")
            yield {"regdefs": regdefs, "content": content, "kind": "random"}
        n = 2500 if tier == "quick" else 60000
        for _ in range(n):
            regdefs = reglib.gen_regdefs(rng, delim=rng.random() < 0.15)
            lines = [gen_line(rng, regdefs) for _ in range(rng.randint(0, 12))]
            content = "\n".join(lines) + (rng.choice(["\n", "\n", ""]) if lines else "")
            yield {"regdefs": regdefs, "content": content, "kind": "random"}

    def impl(self, case):
        regs = reglib.mk_register_classes(case["regdefs"])
        F = reglib.mk_file_class(regs)
        import os, hashlib
        arg = case["content"]
        if int(hashlib.sha1(repr(case).encode()).hexdigest(), 16) % 3 == 0 and "\r" not in arg and "\x0c" not in arg and arg:
            d = os.path.join(lib.SCRATCH, "tmp_c04")
            os.makedirs(d, exist_ok=True)
            arg = os.path.join(d, "in.txt")
            with open(arg, "w", encoding="utf-8", newline="") as fh:
                fh.write(case["content"])
        try:
            with lib.budget(3000 + 400 * (len(case["content"]) + 1)):
                f = F.read(arg)
                elems = reglib.canon_elems(f.data, regs, cap=len(case["content"]) + 5)
        except lib.BudgetExceeded:
            return {"raised": "BudgetExceeded"}
        except Exception as e:
            return {"raised": type(e).__name__}
        return {"placeholder": elems[0], "elems": elems[1:]}

    def model_arg(self, case):
        return [0, False, 1, [reglib.regdef_sx(rd) for rd in case["regdefs"]], 0, case["content"]]

    def model_obs(self, case, res):
        if res == [-3]:
            return {"raised": "OutOfFuel"}
        return {"placeholder": [-1, ""], "elems": reglib.model_elems(res[0])}

    def oracle(self, case, obs):
        if "raised" in obs:
            return "RegisterFile.read raised %s" % obs["raised"]
        if obs["placeholder"] != [-1, ""]:
            return "leading placeholder element missing"
        from .c13 import nl_lines
        lines = nl_lines(case["content"])
        elems = obs["elems"]
        if len(elems) != len(lines):
            return "%d elements for %d lines" % (len(elems), len(lines))
        from cfinterface.components.line import Line
        from cfinterface.components.literalfield import LiteralField
        for line, e in zip(lines, elems):
            exp = reglib.ref_dispatch(case["regdefs"], line)
            if e[0] != exp:
                return "line dispatched to the wrong type (first declared match must win, else default)"
            if exp < 0:
                if e[1] != line:
                    return "default register does not hold the line verbatim"
            else:
                r = case["regdefs"][exp]
                ref = Line([LiteralField(r["digits"], 0)] + [fl.mk_field(fd) for fd in r["fields"]], delimiter=r.get("delim")).read(line)[1:]
                if e[1] != [fl.canon_value(x) for x in ref]:
                    return "typed element data differ from what its layout reads from that line alone"
                # the same, stated without the library: every field reads the reference interpretation (C03) of its own span of
                # the line -- or, in a delimited layout, of its own blank-trimmed token cut to the field's width
                if e[1] != ref_data(r, line):
                    return "typed element data differ from the reference interpretation of the fields' spans / tokens of that line"
        return None

    def nontrivial(self, case, obs):
        if not isinstance(obs, dict) or "elems" not in obs:
            return False
        ts = set(e[0] for e in obs["elems"])
        return (-1 in ts and len(ts) > 1) or len(ts) > 2

    def classify(self, case):
        c = case["content"]
        return {"kind_" + case["kind"]: 1, "identifier_is_a_regular_expression_%s" % any("ident_pat" in rd for rd in case["regdefs"]): 1,
                "types_%d" % len(case["regdefs"]): 1, "lines_%02d" % min(c.count("\n") + (1 if c and not c.endswith("\n") else 0), 12): 1,
                "final_newline" if c.endswith("\n") else "no_final_newline": 1}

    def signature(self, case, why):
        import re
        return re.sub(r"[0-9]+", "#", why)

    def shrink(self, case):
        from .c13 import nl_lines
        lines = nl_lines(case["content"])
        if len(lines) > 1:
            for i in range(len(lines)):
                c = dict(case)
                c["content"] = "".join(lines[:i] + lines[i + 1:])
                yield c
        if len(case["regdefs"]) > 1:
            for i in range(len(case["regdefs"])):
                c = dict(case)
                c["regdefs"] = case["regdefs"][:i] + case["regdefs"][i + 1:]
                yield c

    def neighbours(self, case, rng):
        for _ in range(20):
            c = dict(case)
            lines = [gen_line(rng, case["regdefs"]) for _ in range(rng.randint(1, 6))]
            c["content"] = "\n".join(lines) + rng.choice(["\n", ""])
            yield c
