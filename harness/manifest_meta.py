NOTES = ("All checks: ./check <id> [--tier quick|thorough]; VERIF_SEED and VERIF_TIER are honoured. "
         "`make setup` builds every .vo (full proofs), extracts the model and compiles the driver under /verif/work. "
         "Trusted base and per-property detail: DESIGN.md sections 5 and 6.")
BASE_NOTE = ("Trusted: Coq 8.16.1 kernel (vm_compute, no native_compute); the hand-written Gallina model is tied to "
             "the code only by the correspondence check (generated/enumerated inputs, public API); extraction "
             "(ExtrOcamlBasic only) and the OCaml driver, cross-checked in-kernel on a sample each run; the Python harness. ")
CLAIMED = {
    "C19": {
        "text": "Theorems (closed under the global context) for every table, request string, declaration order and class tree: "
                "the selected key is the greatest declared key <= v in code-point order, selection is permutation-invariant, "
                "and set_version on a class changes no class whose attribute lookup does not pass through it. Tied to the three "
                "file classes by enumerating every subset/order of a 4-key alphabet x 11 requests x targets, plus random sequences.",
        "note": BASE_NOTE + "Python class-attribute lookup is modelled (single inheritance).",
        "technique": "Coq proof (sorting/max characterisation, permutation invariance, frame lemma over class tree) + differential correspondence",
    },
}
CLAIMED["C07"] = {
    "text": "Theorems (closed under the global context): a representation invariant wf(state, list) holds for a fresh container, "
            "is preserved by each of prepend/append/add_before/add_after/remove on every well-formed state (any size, any ids, "
            "re-inserted elements with stale links included), hence along every history (induction over the operation list); "
            "iteration = the list, backward walk = its reverse, first/last/links as in the list. The code as found is proved to "
            "violate it (C07_refuted_*). Tied to RegisterData/BlockData/SectionData by all histories to depth 4 (quick) / 5 "
            "(thorough), the inductive-step scope to size 4 with all value patterns, and random histories to length 30.",
    "note": BASE_NOTE + "Object identity is modelled by nat ids; value equality is irrelevant to the repaired code (two fix: commits).",
    "technique": "Coq proof (heap-segment invariant, refinement to list, induction over histories) + differential correspondence",
}
CLAIMED["C08"] = {
    "text": "Theorems (closed): of_type and get_*_of_type are the stated filters with the None/one/list shape and are pure; bulk "
            "removal on any well-formed container yields a well-formed container representing a filter of the list that keeps "
            "every non-matching member and drops every matching member except possibly the first (fold invariant over the "
            "snapshot). The code as found is refuted. Tied to the three containers by exhaustive small containers x all requests "
            "and random interleavings with structural operations.",
    "note": BASE_NOTE + "isinstance and getattr are parameters of the model (tables supplied per case).",
    "technique": "Coq proof (filter characterisation + fold invariant over C07's wf) + differential correspondence",
}
CLAIMED["C15"] = {
    "text": "Theorems (closed): with Python's reflected-operand rule modelled, element equality = same class and equal data; "
            "container equality <-> same length and pairwise equal (Forall2); reflexive, symmetric; a proper prefix is never "
            "equal either way round. Tied to containers and files of the three families by all pairs of short sequences over a "
            "pool with subclass-related classes, random pairs, and foreign right-hand sides (oracle).",
    "note": BASE_NOTE + "Data equality is abstracted to equality of codes (NaN data and signed zeros are outside, DESIGN 8.2).",
    "technique": "Coq proof (equivalence-relation facts incl. reflected __eq__ dispatch) + differential correspondence",
}
CLAIMED["C02"] = {
    "text": "Theorems (closed): for every field, value that fits and target line (any length/content, str or bytes): the result has "
            "length max(len, span end), the span holds the rendering, every other position holds what the blank-padded input held; "
            "renderings are never narrower than the field; integers/floats right-justified, literals/dates left-justified, missing "
            "values blank; a written line is max-stop wide (+ newline in text) with blank gaps, for any field order. Tied to Field.write "
            "and Line.write by a complete enumeration of kind x size x start x target length x contents x fitting values (str and "
            "bytes), random multi-field layouts and the default-constructed fields.",
    "note": BASE_NOTE + "'fits' is decided by the model; renderings of floats/dates rely on the L0 model of CPython formatting (primitive-level correspondence).",
    "technique": "Coq proof (list splice/frame lemmas, fold invariant over field list) + differential correspondence (exhaustive small scope)",
}
CLAIMED["C03"] = {
    "text": "Theorems (closed): field_read = reference interpretation of the span (str and bytes), a total function; locality (equal "
            "spans read equal, anything outside the span is irrelevant); short lines read as the truncated span; line reads return the "
            "per-field readings whatever the slots held. The weight is on the tie: all strings over a 19-symbol adversarial alphabet up "
            "to length 3/4 through int/float/strip/strptime and through fields, random grammars, all 2-byte patterns, invalid UTF-8, "
            "read sequences through one field object.",
    "note": BASE_NOTE + "The reference interpretation itself is the L0 model of int()/float()/strptime/UTF-8 (validated against CPython at primitive level).",
    "technique": "Coq proof (definitional refinement + locality lemmas) + differential correspondence (exhaustive adversarial alphabet)",
}
CLAIMED["C01"] = {
    "text": "Theorems: for every layout of non-overlapping fields in any order and every fitting value list, reading the written "
            "line returns per field the re-read rendering, whatever the reading line's slots held; canonical forms: integers unchanged, "
            "literals trimmed, missing -> None/'' , dates truncated to the format (year >= 1000), floats = the double nearest to the "
            "emitted decimal, which is within exactly half a unit of its last digit (F: N/10^d with d <= declared decimals; E: "
            "declared+1 significant digits), only the configured separator as decimal mark; setters = constructor; text stability "
            "for int/literal/missing/date fields (closed) and for F-notation float fields for EVERY finite double (C01real.v, via Flocq: "
            "rn64 is IEEE round-to-nearest-even, decimal rounding is idempotent through the nearest double; depends on the stdlib's 4 "
            "real-number axioms). E notation: the model keeps Python's round() in front of format; text stability is proved for EVERY "
            "finite double whose text fits (C01_stable_float_sci), the half unit for normal doubles with <= 15 significant digits; "
            "where the half-unit clause is false of the code (subnormals, >= 16 digits, OverflowError next to the largest double) "
            "there are refutation theorems and recorded findings (known_findings.json). Refuted for the code as found.",
    "note": BASE_NOTE + "Axioms: none except in C01real.v (ClassicalDedekindReals.sig_not_dec, sig_forall_dec, functional_extensionality_dep, Classical_Prop.classic).",
    "technique": "Coq proof (frame + span lemmas, printer/parser inverses for int/fixed/scientific/date text, exact half-even bounds, Flocq bridge for nearest-double idempotence) + differential correspondence",
}
CLAIMED["C04"] = {
    "text": "Theorems (closed): for every register list and text content the loop terminates within |content|+1 steps, yields exactly the "
            "lines of the content in order (split_lines, which concatenate back to the content), each dispatched to the first declared "
            "register whose identifier pattern is found in the leading window else default; default elements hold the line verbatim and typed data "
            "are a function of that line alone. 'Found' is re.search: the identifier is a literal or a regular expression of the model's language "
            "(Py/PyRe.v), whose matcher is proved equal to the denotational semantics for every expression and subject (C04_identifier_found; "
            "literals = substring search, C04_identifier_literal). Tied to RegisterFile.read by a complete small scope over line pools, random "
            "grammars and generated regular-expression identifiers.",
    "note": BASE_NOTE + "Regular expressions: literals, classes, . \\s \\d, ^ $, concatenation, alternation, * + ? {m,n}; not modelled: back-references, look-around, flags, \\b \\w. The matcher is tied to CPython's re by the C12 extra tie.",
    "technique": "Coq proof (generic fuelled loop refined to an inductive specification, induction on lines; regex matcher = denotational semantics by induction on the expression, ordered sweep for the star) + differential correspondence",
}
CLAIMED["C09"] = {
    "text": "Theorems (closed): little-endian two's-complement encode/decode are mutually inverse for every width and every in-range "
            "integer / every byte pattern (the 65 536 int16 patterns are an instance, also enumerated completely by the check); "
            "out-of-range is rejected, short buffers read as None; float encodings have the field width and every non-NaN bit pattern of "
            "binary16/32/64 survives decode/encode; missing -> zero/blanks; a binary line is max-stop bytes with each field in its span. "
            "Theorems through Flocq (C09real.v; 4 stdlib real-number axioms): the model's narrowing IS IEEE round-to-nearest-even into "
            "binary16/32/64 (nearest-point corollary, overflow -> infinity of the sign), widening to binary64 is exact, and a finite float "
            "written to a 2/4/8-byte field reads back as the double whose value is x rounded to the field's IEEE width; 8-byte fields read "
            "back every double bit for bit. Tied bit-for-bit to numpy by the correspondence.",
    "note": BASE_NOTE + "Checked against numpy/struct on all float16 patterns, midpoint neighbours and random patterns.",
    "technique": "Coq proof (div/mod byte arithmetic, bit-field decomposition) + differential correspondence (complete int16 range)",
}
CLAIMED["C11"] = {
    "text": "Theorems (closed): the delimited line is the trimmed single-field renderings joined by the delimiter + newline; reading gives "
            "field i the reading of trimmed token i or a missing value when absent, independent of the previous slot contents (no "
            "carry-over), surplus tokens ignored; split after join is the identity for a one-character delimiter absent from the tokens. "
            "The code as found is refuted. Tied to Line.read/write through sequences of 1-6 reads with short/exact/long/padded lines.",
    "note": BASE_NOTE + "Multi-character delimiters: the tokenisation premise split(join(toks)) = toks is evaluated per case (DESIGN 8.3).",
    "technique": "Coq proof (split/join lemmas, slot-independence) + differential correspondence over read sequences",
}
CLAIMED["C12"] = {
    "text": "Theorems (closed): for every block list, content and storage the loop terminates, the elements' raw data concatenate to the "
            "content and writing reproduces it exactly; the elements are those of the inductive specification (first declared begin "
            "match on the first line / first byte, else a one-line default block). Refuted for the code as found in binary storage. "
            "'Found in the line' is re.search for regular expressions (Py/PyRe.v): C12_found proves the model's matcher equal to the textbook "
            "denotational semantics for EVERY expression and line (nested stars included); literal / anchored / alternated patterns are "
            "instances (C12_found_literal ...). Tied to BlockFile.read/write with raw blocks over pattern pools and generated regular expressions, "
            "complete small scope + random, text and binary, and to CPython's re itself (search/match/fullmatch, small scope complete + random + \\s/\\d tables).",
    "note": BASE_NOTE + "Patterns: literals, classes, . \\s \\d (Unicode for str, ASCII for bytes), ^ $, concatenation, alternation, * + ? {m,n}; not modelled: back-references, look-around, flags, \\b \\w. Blocks are the harness's raw blocks.",
    "technique": "Coq proof (accounting invariant of the generic loop, progress measure; regex matcher = denotational semantics by induction on the expression, ordered sweep for the star) + differential correspondence",
}
CLAIMED["C05"] = {
    "text": "Theorems (closed): for every register list and every sequence of elements satisfying the per-element premise (typed: written "
            "text is one line that dispatches to its own type and reads back its data; default: a line matching no identifier; all-None "
            "registers vanish), write then read returns exactly the non-vanishing elements in order; all-None registers write nothing, "
            "falsy data (0, '', -0.0) write a line; a decidable condition on the definition implies the dispatch premise. The premise is "
            "discharged per kind by C01/C04. Tied to RegisterFile write/read/== on generated definitions and canonical data.",
    "note": BASE_NOTE + "'fitting, canonical' is evaluated per case by the model; file == is covered by C15.",
    "technique": "Coq proof (chunk/line decomposition of the written text, induction over the element list) + differential correspondence",
}
CLAIMED["C06"] = {
    "text": "Theorems (closed): for every content x whose parsed elements are stable (vanish, or write a line that dispatches back and "
            "whose re-read data write the same line), y = W(R x) satisfies W(R y) = y, and the lines of x matching no register are the "
            "lines of y matching no register, in order; content produced by a write is reproduced. Stability of a typed line is C01's "
            "text stability (float part by correspondence). Tied to read/write/read/write on grammar-generated and perturbed contents.",
    "note": BASE_NOTE + "'representable' (finite floats, year >= 1000, values fit) is evaluated per case by the model.",
    "technique": "Coq proof (projection over line chunks) + differential correspondence",
}
CLAIMED["C10"] = {
    "text": "Theorems (closed): a written positional register starts with its left-justified identifier, is recognised by its own type and "
            "ends with one newline; reading k registers from k concatenated line chunks consumes exactly one chunk per read (any k); a "
            "contiguous binary layout writes identifier+field widths bytes and reading consumes exactly that, so binary streams stay "
            "aligned; the code as found is refuted. Tied to Register.write/matches/read + buffer.tell() in three storages over streams of 1-8.",
    "note": BASE_NOTE + "Delimited form: identifier-first-token is checked by the oracle; data equality per record is C01/C09/C11. reg_wf covers identifier tests that are regular expressions: the premise is that the expression finds the left-justified literal (decidable).",
    "technique": "Coq proof (stream alignment by induction over the record list, frame lemma for identifier columns) + differential correspondence",
}
CLAIMED["C13"] = {
    "text": "Theorems (closed): for every section list and EVERY content (shorter than expected included) reading terminates, writing "
            "reproduces the content, declared sections come first exactly once in order, each starting where the previous stopped, and the "
            "remaining lines become one default section per line. Tied to SectionFile.read/write with raw sections, complete small scope.",
    "note": BASE_NOTE + "Sections are the harness's raw sections (fixed line counts / until-pattern, the pattern a regular expression of the model's language, see C12).",
    "technique": "Coq proof (fold over declared sections + default loop) + differential correspondence (exhaustive small scope)",
}
CLAIMED["C18"] = {
    "text": "Theorems (closed): generic progress argument (readers split their input and consume >= 1 character => the loop terminates "
            "within |input|+1 steps with <= |input| elements), instantiated for text register files (one element per line), binary register "
            "files (repaired default register; peek window and records >= 1 byte), block files (text/binary) and section files (+ declared). "
            "The code as found is proved to diverge for every fuel. Tied to the implementation under a deterministic call-count budget.",
    "note": BASE_NOTE + "Termination of the real code is observed under a call budget proportional to the content length.",
    "technique": "Coq proof (well-founded measure = remaining input, fuel sufficiency) + differential correspondence with deterministic step budget",
}
CLAIMED["C16"] = {
    "text": "Theorems (closed): an existing path is read as its decoded, newline-translated bytes, anything else as content, so "
            "read(path) = read(decoded content) for content without carriage returns; write(path) produces bytes that decode to the "
            "in-memory output (a file that received no write call is empty: no BOM); disk round trip = memory round trip. First "
            "parametric in file system, codec and parser; then instantiated with executable models of CPython's utf-8, latin-1, cp1252 "
            "and utf-16 (BOM, surrogate pairs, stream decoder) codecs and of universal-newline translation, whose lawfulness "
            "(decode (encode s) = s), totality on scalar values and newline facts are proved, leaving only the file system and the "
            "parser as parameters. The codec model is tied to CPython on every run (contents of every case, malformed byte strings); "
            "the adapters are exercised on a real temporary directory for 3 families x text/binary x 4 encodings with non-ASCII "
            "contents, open() wrapped to observe mode and encoding, bytes on disk compared byte for byte with the declared encoder.",
    "note": BASE_NOTE + "PARTIAL only in that OS path resolution is a function parameter of the theorems.",
    "technique": "Coq proof (adapter decision logic; lawful executable codecs for utf-8/latin-1/cp1252/utf-16 and universal newlines) + differential correspondence of the codec model + direct path-vs-memory oracle on a real temp directory",
}
CLAIMED["C17"] = {
    "text": "Theorems (closed): on the adapter/driver machine (loop inside `with`, __exit__ closes what __enter__ opened, nothing caught), for "
            "EVERY list of element behaviours and fault position: the caller gets the first failing element's exception, the destination "
            "holds exactly the output of the elements before it, every framework-opened handle is closed, a caller buffer stays open at the "
            "end of the data; both structural facts are shown necessary (refuted variants). Tied to the code by a complete fault enumeration "
            "(n<=8 x every k x read/write x 3 families x path/buffer x text/binary x 3 exception types) with open()/StringIO wrapped.",
    "note": BASE_NOTE + "Descriptor-level release by the OS is not exhibited (Python-level closed flags are).",
    "technique": "Coq proof (induction over behaviour lists on a handle/exception state machine) + exhaustive fault-injection correspondence",
}
CLAIMED["C20"] = {
    "text": "PARTIAL. Theorems (closed, frame abstracted to named columns of cells): the user-defined properties are exactly the class's property "
            "names minus the framework's, sorted; with >= 1 register of the type and >= 1 property there is one row per register of the type in "
            "file order with that register's property values; otherwise the view is empty. Tied to _as_df/custom_properties over generated "
            "types and files with nulls canonicalised; editing the real frame is observed not to change the registers.",
    "note": BASE_NOTE + "pandas dtype inference / null representation are observed after canonicalisation, not modelled.",
    "technique": "Coq proof (filter/sort/map characterisation) + differential correspondence with null canonicalisation",
}
CLAIMED["C14"] = {
    "text": "Theorems (closed): on the object-graph machine (identities as heap indices; Line/Field objects shared by all registers of a "
            "class) the separation invariant -- one owner per list object, one file per container -- holds initially, is preserved by "
            "every framework call and user mutation, hence along every interleaving; frame theorems: an operation not addressing a "
            "register / handed-out list / file leaves its observation unchanged; reads install a fresh list that depends on the text only, "
            "writes render the register's own data and change no data; File() gets a fresh one-placeholder container. Refuted for the code "
            "as found. Tied to the implementation by complete short interleavings and random ones of length <= 25, comparing every "
            "object's observation and the identity partition after every step, plus an isolated replay of each object's own operations.",
    "note": BASE_NOTE + "Block/section families are covered for the fresh-file part by the oracle; the interleaving machine uses register files.",
    "technique": "Coq proof (separation invariant + frame lemmas over a heap-indexed object graph, induction over interleavings) + differential correspondence incl. identity partitions",
}
NOT_APPLICABLE = {}
