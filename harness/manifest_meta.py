NOTES = ("All checks: ./check <id> [--tier quick|thorough]; VERIF_SEED and VERIF_TIER are honoured. "
         "`make setup` builds every .vo (full proofs), extracts the model and compiles the driver under /verif/work. "
         "Trusted base and per-property detail: DESIGN.md sections 5 and 6.")
BASE_NOTE = ("Trusted: Coq 8.16.1 kernel (vm_compute, no native_compute); the hand-written Gallina model is tied to "
             "the code only by the correspondence check (generated/enumerated inputs, public API); extraction "
             "(ExtrOcamlBasic only) and the OCaml driver, cross-checked in-kernel on a sample each run; the Python harness. ")
CLAIMED = {
    "C19": {
        "text": "Theorems (closed under the global context) for every table, request string, declaration order and class tree: "
                "the selected key is the greatest declared key <= v in code-point order, selection is permutation-invariant, "
                "and set_version on a class changes no class whose attribute lookup does not pass through it. Tied to the three "
                "file classes by enumerating every subset/order of a 4-key alphabet x 11 requests x targets, plus random sequences.",
        "note": BASE_NOTE + "Python class-attribute lookup is modelled (single inheritance).",
        "technique": "Coq proof (sorting/max characterisation, permutation invariance, frame lemma over class tree) + differential correspondence",
    },
}
NOT_APPLICABLE = {}
