"""Regular expressions in the model's language (coq/Py/PyRe.v): abstract syntax, rendering to Python's `re` syntax,
encoding for the model, generators, and the primitive-level tie `re.search/match/fullmatch(...) is not None` vs the model.

A pattern node is a JSON-able list:
  ["eps"] ["lit", text] ["cls", neg, [[lo, hi], ...]] (code points) ["any"] ["s", neg] ["d", neg] ["bol"] ["eol"]
  ["seq", a, b] ["alt", a, b] ["star", a] ["plus", a] ["opt", a] ["rep", a, m, d]   (a{m,m+d})
The legacy form of the block/section pattern pools -- a list of [anchored, literal] alternatives -- is accepted
everywhere and means the alternation of (optionally ^-anchored) literals."""
import re
import random

from . import lib


def is_legacy(p):
    return not p or not isinstance(p[0], str)


def of_legacy(p):
    """alternation of optionally anchored literals -> node; the empty alternation renders as '' (matches everywhere)"""
    alts = [(["seq", ["bol"], ["lit", l]] if a else ["lit", l]) for a, l in p]
    if not alts:
        return ["eps"]
    node = alts[-1]
    for a in reversed(alts[:-1]):
        node = ["alt", a, node]
    return node


def node_of(p):
    return of_legacy(p) if is_legacy(p) else p


_CLS_ESC = set("\\]^-[")


def _cls_char(cp):
    c = chr(cp)
    if c in _CLS_ESC:
        return "\\" + c
    if c == "\n":
        return "\\n"
    if c == "\t":
        return "\\t"
    if cp < 32 or cp == 127:
        return "\\x%02x" % cp
    return c


def _atomic(n):
    return n[0] in ("cls", "any", "s", "d") or (n[0] == "lit" and len(n[1]) == 1)


def render(n):
    """Python regex source of a node (str)"""
    t = n[0]
    if t == "eps":
        return ""
    if t == "lit":
        return re.escape(n[1])
    if t == "cls":
        return "[" + ("^" if n[1] else "") + "".join(_cls_char(lo) if lo == hi else _cls_char(lo) + "-" + _cls_char(hi) for lo, hi in n[2]) + "]"
    if t == "any":
        return "."
    if t == "s":
        return "\\S" if n[1] else "\\s"
    if t == "d":
        return "\\D" if n[1] else "\\d"
    if t == "bol":
        return "^"
    if t == "eol":
        return "$"
    if t == "seq":
        return "".join("(?:" + render(x) + ")" if x[0] == "alt" else render(x) for x in n[1:3])
    if t == "alt":
        return render(n[1]) + "|" + render(n[2])
    q = {"star": "*", "plus": "+", "opt": "?"}.get(t) or ("{%d,%d}" % (n[2], n[2] + n[3]))
    body = render(n[1])
    return (body if _atomic(n[1]) else "(?:" + body + ")") + q


def regex_of(p, binary=False):
    s = render(node_of(p))
    return s.encode("latin-1") if binary else s


def sx(n, ascii_=False):
    """encoding for the model (coq/Py/PyRe.v: dec_re)"""
    t = n[0]
    if t == "eps":
        return [0]
    if t == "lit":
        return [13, n[1]]
    if t == "cls":
        return [1, bool(n[1])] + [[lo, hi] for lo, hi in n[2]]
    if t == "any":
        return [2]
    if t == "s":
        return [3, bool(ascii_), bool(n[1])]
    if t == "d":
        return [4, bool(ascii_), bool(n[1])]
    if t == "bol":
        return [5]
    if t == "eol":
        return [6]
    if t == "seq":
        return [7, sx(n[1], ascii_), sx(n[2], ascii_)]
    if t == "alt":
        return [8, sx(n[1], ascii_), sx(n[2], ascii_)]
    if t == "star":
        return [9, sx(n[1], ascii_)]
    if t == "plus":
        return [10, sx(n[1], ascii_)]
    if t == "opt":
        return [11, sx(n[1], ascii_)]
    if t == "rep":
        return [12, sx(n[1], ascii_), n[2], n[3]]
    raise ValueError("unknown pattern node %r" % (t,))


def pattern_sx(p, binary=False):
    return sx(node_of(p), binary)


# ---------------------------------------------------------------- generators
def gen_atom(rng, words, chars):
    k = rng.random()
    if k < 0.40:
        w = rng.choice(words)
        if len(w) > 1 and rng.random() < 0.3:
            i = rng.randrange(len(w)); w = w[i:i + rng.randint(1, 3)]
        return ["lit", w]
    if k < 0.55:
        rs = []
        for _ in range(rng.randint(1, 3)):
            a = ord(rng.choice(chars)); b = a + rng.choice([0, 0, 1, 3, 25]) if rng.random() < 0.6 else a
            rs.append([a, b])
        return ["cls", rng.random() < 0.25, rs]
    if k < 0.67:
        return ["any"]
    if k < 0.77:
        return ["s", rng.random() < 0.3]
    if k < 0.87:
        return ["d", rng.random() < 0.3]
    if k < 0.93:
        return ["bol"]
    if k < 0.97:
        return ["eol"]
    return ["eps"]


def gen_node(rng, depth, words, chars):
    if depth <= 0 or rng.random() < 0.25:
        return gen_atom(rng, words, chars)
    k = rng.random()
    if k < 0.40:
        return ["seq", gen_node(rng, depth - 1, words, chars), gen_node(rng, depth - 1, words, chars)]
    if k < 0.58:
        return ["alt", gen_node(rng, depth - 1, words, chars), gen_node(rng, depth - 1, words, chars)]
    if k < 0.72:
        return ["star", gen_node(rng, depth - 1, words, chars)]
    if k < 0.82:
        return ["plus", gen_node(rng, depth - 1, words, chars)]
    if k < 0.92:
        return ["opt", gen_node(rng, depth - 1, words, chars)]
    return ["rep", gen_node(rng, depth - 1, words, chars), rng.randint(0, 2), rng.randint(0, 2)]


# patterns in the style of real cfi block definitions (anchored keywords behind optional blanks, keyword + number, ...)
def gen_typical(rng, words):
    w = rng.choice(words)
    k = rng.randrange(7)
    if k == 0:
        return ["seq", ["bol"], ["seq", ["star", ["s", False]], ["lit", w]]]
    if k == 1:
        return ["seq", ["lit", w], ["seq", ["star", ["s", False]], ["plus", ["d", False]]]]
    if k == 2:
        return ["seq", ["lit", w], ["seq", ["star", ["any"]], ["eol"]]]
    if k == 3:
        return ["alt", ["seq", ["bol"], ["lit", w]], ["seq", ["lit", rng.choice(words)], ["eol"]]]
    if k == 4:
        return ["seq", ["bol"], ["seq", ["cls", False, [[65, 90]]], ["rep", ["cls", False, [[65, 90], [48, 57]]], 1, 2]]]
    if k == 5:
        return ["seq", ["bol"], ["seq", ["opt", ["lit", rng.choice("#&*-")]], ["lit", w]]]
    return ["seq", ["star", ["cls", True, [[ord(w[0]), ord(w[0])]]]], ["lit", w]] if w else ["star", ["any"]]


WORDS = ["BEGIN", "END", "B", "X", "#", "--", "STOP", "E", "GIN X", "12", "\n", "END\n", " "]
CHARS = "ABEX09 #-\n\t.z"


def gen_pattern(rng, words=WORDS, chars=CHARS, depth=3):
    return gen_typical(rng, [w for w in words if w.strip()]) if rng.random() < 0.4 else gen_node(rng, rng.randint(1, depth), words, chars)


# ---------------------------------------------------------------- primitive-level tie
def tie_cases(tier, rng):
    n_rand = 700 if tier == "quick" else 12000
    subj_alpha = "ab\n"
    small = [""] + [a for a in subj_alpha] + [a + b for a in subj_alpha for b in subj_alpha] + \
            [a + b + c for a in subj_alpha for b in subj_alpha for c in subj_alpha]
    # every string over {a, b, newline} up to length 3 (4 in the thorough tier) x a fixed family of expressions
    if tier != "quick":
        small = small + [x + y for x in small if len(x) == 3 for y in subj_alpha]
    A, B = ["lit", "a"], ["lit", "b"]
    fam = [["eps"], A, ["seq", A, B], ["alt", A, B], ["star", A], ["seq", ["star", A], B], ["star", ["alt", A, ["seq", B, A]]],
           ["seq", ["bol"], A], ["seq", A, ["eol"]], ["seq", ["bol"], ["eol"]], ["any"], ["star", ["any"]], ["seq", ["any"], ["eol"]],
           ["plus", ["alt", A, ["eps"]]], ["star", ["star", A]], ["rep", A, 1, 1], ["rep", ["alt", A, B], 2, 0], ["opt", ["seq", A, ["eol"]]],
           ["seq", ["eol"], ["lit", "\n"]], ["seq", ["lit", "\n"], ["eol"]], ["seq", ["eol"], ["any"]], ["cls", True, [[97, 97]]],
           ["seq", ["star", ["cls", True, [[10, 10]]]], ["eol"]], ["s", False], ["s", True], ["d", True], ["alt", ["bol"], ["eol"]],
           ["seq", ["star", ["seq", ["opt", A], ["opt", B]]], ["eol"]], ["seq", ["bol"], ["seq", ["star", ["alt", ["seq", A, A], B]], ["eol"]]]]
    for node in fam:
        for s in small:
            yield node, s, False, "small-scope"
    words = WORDS + ["a", "ab", "9", "٣", "\x1c", "\x85", " ", "é"]
    chars = CHARS + "a٣\x1f\xa0é"
    for _ in range(n_rand):
        node = gen_pattern(rng, words, chars, 4)
        for _ in range(3):
            k = rng.random()
            if k < 0.5:
                s = "".join(rng.choice(words) if rng.random() < 0.5 else rng.choice(chars) for _ in range(rng.randint(0, 6)))
            else:
                s = "".join(rng.choice(chars) for _ in range(rng.randint(0, 10)))
            yield node, s, False, "random-str"
    # bytes patterns on bytes subjects: \s \d are ASCII-only there
    bchars = "ABEX09 #-\n\t.z\x1c\x85\xa0\xe9"
    for _ in range(n_rand // 3):
        node = gen_pattern(rng, WORDS, CHARS, 3)
        s = "".join(rng.choice(bchars) for _ in range(rng.randint(0, 8)))
        yield node, s, True, "random-bytes"
    # character tables: \s and \d against every code point (sampled in the quick tier)
    cps = range(0x110000) if tier != "quick" else list(range(0, 0x3100)) + list(range(0x3100, 0x110000, 251))
    for cp in cps:
        if 0xD800 <= cp <= 0xDFFF:
            continue
        yield (["s", False] if cp % 2 else ["d", False]), chr(cp), False, "class-tables"
        if cp < 0x3100:
            yield (["d", False] if cp % 2 else ["s", False]), chr(cp), False, "class-tables"


def run_tie(tier="quick", seed=0):
    import warnings
    rng = random.Random("re-%d" % seed)
    allc = list(tie_cases(tier, rng))
    args, exps, kinds = [], [], {}
    for node, s, binary, kind in allc:
        src = regex_of(node, binary)
        subj = s.encode("latin-1") if binary else s
        with warnings.catch_warnings():
            warnings.simplefilter("ignore")
            rx = re.compile(src)
        exps.append([int(rx.search(subj) is not None), int(rx.match(subj) is not None), int(rx.fullmatch(subj) is not None)])
        args.append([sx(node, binary), [ord(c) for c in s]])
        kinds[kind] = kinds.get(kind, 0) + 1
    res = []
    for i in range(0, len(args), 400):
        res.extend(lib.run_model("RE", [args[i:i + 400]])[0])
    bad = []
    for (node, s, binary, kind), e, r in zip(allc, exps, res):
        if e != r:
            bad.append((kind, regex_of(node, binary), s, e, r))
    return len(allc), kinds, bad


if __name__ == "__main__":
    import sys
    n, kinds, bad = run_tie(sys.argv[1] if len(sys.argv) > 1 else "quick", int(sys.argv[2]) if len(sys.argv) > 2 else 0)
    print(n, kinds, len(bad))
    for b in bad[:20]:
        print("MISMATCH", b)
    sys.exit(1 if bad else 0)
