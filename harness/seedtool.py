#!/venv/bin/python
"""seedtool.py verify <Cxx> [suffix]   : confirm a seeded change in /tmp/seed_<Cxx><suffix> (tests pass with it, the
                                           demonstration fails with it and passes without it) and store it under /verif/seeded/
   seedtool.py run <dir> [ids...]      : apply /verif/seeded/<dir>/patch.diff to /repo, run the quick checks (all, or the
                                           given ones), undo, and record which checks raise VIOLATION"""
import json, os, subprocess, sys, shutil, re
VERIF = os.path.dirname(os.path.dirname(os.path.abspath(__file__)))


def sh(cmd, cwd=None, env=None, timeout=1800):
    e = dict(os.environ)
    if env:
        e.update(env)
    p = subprocess.run(cmd, shell=True, cwd=cwd, env=e, stdout=subprocess.PIPE, stderr=subprocess.STDOUT, timeout=timeout)
    return p.returncode, p.stdout.decode(errors="replace")


def verify(pid, suffix=""):
    wt = "/tmp/seed_%s%s" % (pid, suffix)
    name = pid + suffix
    env = {"PYTHONPATH": wt, "PYTHONDONTWRITEBYTECODE": "1"}
    rc, out = sh("git diff -- cfinterface", cwd=wt)
    patch = out
    if not patch.strip():
        print("no change in", wt); return 1
    demo = "demo_%s.py" % pid
    r = {}
    rc, out = sh("/venv/bin/python -m pytest -q -p no:cacheprovider -x 2>&1 | tail -2", cwd=wt, env=env)
    r["tests_with_change"] = out.strip().splitlines()[-1] if out.strip() else ""
    rc1, out1 = sh("/venv/bin/python %s" % demo, cwd=wt, env=env)
    r["demo_with_change_exit"] = rc1
    open("/tmp/_seed.diff", "w").write(patch)
    sh("git checkout -- cfinterface", cwd=wt)
    rc0, out0 = sh("/venv/bin/python %s" % demo, cwd=wt, env=env)
    r["demo_without_change_exit"] = rc0
    sh("git apply /tmp/_seed.diff", cwd=wt)
    ok = ("180 passed" in r["tests_with_change"]) and rc1 == 1 and rc0 == 0
    r["confirmed"] = ok
    print(name, json.dumps(r))
    if not ok:
        print(out1[-600:]); print(out0[-300:])
        return 1
    d = os.path.join(VERIF, "seeded", name)
    os.makedirs(d, exist_ok=True)
    open(os.path.join(d, "patch.diff"), "w").write(patch)
    shutil.copy(os.path.join(wt, demo), os.path.join(d, demo))
    meta = {}
    try:
        meta = json.load(open(os.path.join(wt, "meta.json")))
    except Exception as e:
        meta = {"property": pid, "summary": "(meta.json missing or invalid)"}
    meta["property"] = pid
    meta["verified_by_me"] = r
    json.dump(meta, open(os.path.join(d, "meta.json"), "w"), indent=1)
    return 0


def run(name, ids=None):
    d = os.path.join(VERIF, "seeded", name)
    meta = json.load(open(os.path.join(d, "meta.json")))
    rc, out = sh("git -C /repo status --porcelain")
    if out.strip():
        print("/repo is not clean:", out); return 1
    man = json.load(open(os.path.join(VERIF, "MANIFEST.json")))
    all_ids = [c["property_id"] for c in man["checks"]]
    ids = ids or all_ids
    rc, out = sh("git -C /repo apply %s" % os.path.join(d, "patch.diff"))
    if rc != 0:
        print("patch does not apply:", out); return 1
    res = {}
    try:
        for pid in ids:
            rc, out = sh("./check %s --tier quick" % pid, cwd=VERIF, timeout=3600)
            viol = [l for l in out.splitlines() if l.startswith("VIOLATION")]
            res[pid] = {"exit": rc, "violations": len(viol), "first": viol[0] if viol else None,
                        "no_failing_input": any("no-failing-input-found" in l for l in viol)}
            print(name, pid, "exit", rc, viol[0] if viol else "")
    finally:
        sh("git -C /repo checkout -- .")
    meta.setdefault("checks_run", {}).update(res)
    target = meta["property"]
    meta["caught_by"] = sorted(p for p, r in meta["checks_run"].items() if r["exit"] != 0)
    meta["caught_by_target_check"] = bool(meta["checks_run"].get(target, {}).get("exit"))
    json.dump(meta, open(os.path.join(d, "meta.json"), "w"), indent=1)
    return 0


if __name__ == "__main__":
    if sys.argv[1] == "verify":
        sys.exit(verify(sys.argv[2], sys.argv[3] if len(sys.argv) > 3 else ""))
    sys.exit(run(sys.argv[2], sys.argv[3:]))
