#!/venv/bin/python
"""seedtool.py verify <Cxx> [suffix]   : confirm a seeded change in /tmp/seed_<Cxx><suffix> (tests pass with it, the
                                           demonstration fails with it and passes without it) and store it under /verif/seeded/
   seedtool.py run <dir> [ids...]      : apply /verif/seeded/<dir>/patch.diff to /repo, run the quick checks (all, or the
                                           given ones), undo, and record which checks raise VIOLATION"""
import json, os, subprocess, sys, shutil, re
VERIF = os.path.dirname(os.path.dirname(os.path.abspath(__file__)))


def sh(cmd, cwd=None, env=None, timeout=1800):
    e = dict(os.environ)
    if env:
        e.update(env)
    p = subprocess.run(cmd, shell=True, cwd=cwd, env=e, stdout=subprocess.PIPE, stderr=subprocess.STDOUT, timeout=timeout)
    return p.returncode, p.stdout.decode(errors="replace")


def verify(pid, suffix=""):
    wt = "/tmp/seed_%s%s" % (pid, suffix)
    name = pid + suffix
    env = {"PYTHONPATH": wt, "PYTHONDONTWRITEBYTECODE": "1"}
    rc, out = sh("git diff -- cfinterface", cwd=wt)
    patch = out
    if not patch.strip():
        print("no change in", wt); return 1
    demo = "demo_%s.py" % pid
    r = {}
    rc, out = sh("/venv/bin/python -m pytest -q -p no:cacheprovider -x 2>&1 | tail -2", cwd=wt, env=env)
    r["tests_with_change"] = out.strip().splitlines()[-1] if out.strip() else ""
    rc1, out1 = sh("/venv/bin/python %s" % demo, cwd=wt, env=env)
    r["demo_with_change_exit"] = rc1
    open("/tmp/_seed.diff", "w").write(patch)
    sh("git checkout -- cfinterface", cwd=wt)
    rc0, out0 = sh("/venv/bin/python %s" % demo, cwd=wt, env=env)
    r["demo_without_change_exit"] = rc0
    sh("git apply /tmp/_seed.diff", cwd=wt)
    ok = ("180 passed" in r["tests_with_change"]) and rc1 == 1 and rc0 == 0
    r["confirmed"] = ok
    print(name, json.dumps(r))
    if not ok:
        print(out1[-600:]); print(out0[-300:])
        return 1
    d = os.path.join(VERIF, "seeded", name)
    os.makedirs(d, exist_ok=True)
    open(os.path.join(d, "patch.diff"), "w").write(patch)
    shutil.copy(os.path.join(wt, demo), os.path.join(d, demo))
    meta = {}
    try:
        meta = json.load(open(os.path.join(wt, "meta.json")))
    except Exception as e:
        meta = {"property": pid, "summary": "(meta.json missing or invalid)"}
    meta["property"] = pid
    meta["verified_by_me"] = r
    json.dump(meta, open(os.path.join(d, "meta.json"), "w"), indent=1)
    return 0


def run(name, ids=None):
    d = os.path.join(VERIF, "seeded", name)
    meta = json.load(open(os.path.join(d, "meta.json")))
    rc, out = sh("git -C /repo status --porcelain")
    if out.strip():
        print("/repo is not clean:", out); return 1
    man = json.load(open(os.path.join(VERIF, "MANIFEST.json")))
    all_ids = [c["property_id"] for c in man["checks"]]
    ids = ids or all_ids
    rc, out = sh("git -C /repo apply %s" % os.path.join(d, "patch.diff"))
    if rc != 0:
        print("patch does not apply:", out); return 1
    res = {}
    try:
        for pid in ids:
            rc, out = sh("./check %s --tier quick" % pid, cwd=VERIF, timeout=3600)
            viol = [l for l in out.splitlines() if l.startswith("VIOLATION")]
            res[pid] = {"exit": rc, "violations": len(viol), "first": viol[0] if viol else None,
                        "no_failing_input": any("no-failing-input-found" in l for l in viol)}
            print(name, pid, "exit", rc, viol[0] if viol else "")
    finally:
        sh("git -C /repo checkout -- .")
    meta.setdefault("checks_run", {}).update(res)
    target = meta["property"]
    meta["caught_by"] = sorted(p for p, r in meta["checks_run"].items() if r["exit"] != 0)
    meta["caught_by_target_check"] = bool(meta["checks_run"].get(target, {}).get("exit"))
    json.dump(meta, open(os.path.join(d, "meta.json"), "w"), indent=1)
    return 0


def matrix(names):
    """every seed x every check, in scratch worktrees (CFI_REPO) with a separate scratch/evidence dir: informational"""
    man = json.load(open(os.path.join(VERIF, "MANIFEST.json")))
    all_ids = [c["property_id"] for c in man["checks"]]
    names = names or sorted(os.listdir(os.path.join(VERIF, "seeded")))
    scratch = "/tmp/mx_scratch"
    for name in names:
        d = os.path.join(VERIF, "seeded", name)
        if not os.path.isdir(d) or not os.path.exists(os.path.join(d, "meta.json")):
            continue
        wt = "/tmp/mx_" + name
        sh("git -C /repo worktree remove --force %s" % wt)
        rc, out = sh("git -C /repo worktree add -q --detach %s HEAD" % wt)
        rc, out = sh("git apply %s" % os.path.join(d, "patch.diff"), cwd=wt)
        if rc != 0:
            print(name, "patch does not apply", out); continue
        meta = json.load(open(os.path.join(d, "meta.json")))
        res = meta.setdefault("matrix", {})
        def one(pid):
            rc, out = sh("./check %s --tier quick" % pid, cwd=VERIF, timeout=3600,
                         env={"CFI_REPO": wt, "VERIF_SCRATCH": scratch, "VERIF_EVIDENCE_DIR": scratch + "/evidence"})
            viol = [l for l in out.splitlines() if l.startswith("VIOLATION")]
            return pid, {"exit": rc, "no_failing_input": bool(viol) and all("no-failing-input-found" in l for l in viol)}
        import concurrent.futures
        with concurrent.futures.ThreadPoolExecutor(max_workers=int(os.environ.get("MATRIX_JOBS", "6"))) as ex:
            for pid, r in ex.map(one, all_ids):
                res[pid] = r
        meta["matrix_caught_by"] = sorted(p for p, r in res.items() if r["exit"] != 0)
        json.dump(meta, open(os.path.join(d, "meta.json"), "w"), indent=1)
        print(name, "caught by", meta["matrix_caught_by"], flush=True)
        sh("git -C /repo worktree remove --force %s" % wt)
    shutil.rmtree(scratch, ignore_errors=True)
    return 0


def targets(names):
    """every seed against its TARGET check only, each in its own scratch worktree (parallel): regression of the catches"""
    names = names or sorted(n for n in os.listdir(os.path.join(VERIF, "seeded")) if os.path.exists(os.path.join(VERIF, "seeded", n, "meta.json")))

    def one(name):
        d = os.path.join(VERIF, "seeded", name)
        meta = json.load(open(os.path.join(d, "meta.json")))
        pid = meta.get("target_override", meta["property"])   # a seed that lies outside its own property's quantifier but inside another's
        wt = "/tmp/tg_" + name
        sh("git -C /repo worktree remove --force %s" % wt)
        sh("git -C /repo worktree add -q --detach %s HEAD" % wt)
        rc, out = sh("git apply %s" % os.path.join(d, "patch.diff"), cwd=wt)
        if rc != 0:
            sh("git -C /repo worktree remove --force %s" % wt)
            return name, pid, "patch does not apply"
        scratch = "/tmp/tg_scratch_" + name
        rc, out = sh("./check %s --tier quick" % pid, cwd=VERIF, timeout=3600,
                     env={"CFI_REPO": wt, "VERIF_SCRATCH": scratch, "VERIF_EVIDENCE_DIR": scratch + "/evidence", "VERIF_JOBS": "3"})
        viol = [l for l in out.splitlines() if l.startswith("VIOLATION")]
        sh("git -C /repo worktree remove --force %s" % wt)
        shutil.rmtree(scratch, ignore_errors=True)
        res = "caught" if rc != 0 and viol else "MISSED"
        if viol and all("no-failing-input-found" in l for l in viol):
            res = "caught (no-failing-input-found)"
        try:
            meta["target_check"] = {"check": pid, "result": res}     # recorded by `targets` (scratch worktree, quick tier)
            json.dump(meta, open(os.path.join(d, "meta.json"), "w"), indent=1)
        except Exception:
            pass
        return name, pid, res
    import concurrent.futures
    bad = 0
    with concurrent.futures.ThreadPoolExecutor(max_workers=int(os.environ.get("MATRIX_JOBS", "5"))) as ex:
        for name, pid, res in ex.map(one, names):
            print(name, pid, res, flush=True)
            bad += res.startswith("MISSED") or res.startswith("patch")
    print("seeds not caught by their target check:", bad)
    return 1 if bad else 0


def summary():
    rows = []
    for name in sorted(os.listdir(os.path.join(VERIF, "seeded"))):
        f = os.path.join(VERIF, "seeded", name, "meta.json")
        if not os.path.exists(f):
            continue
        m = json.load(open(f))
        tgt = m.get("target_override", m["property"])
        r = m.get("checks_run", {}).get(tgt, {})
        tc = m.get("target_check", {})
        if tc.get("check") == tgt and tc.get("result", "").startswith("caught"):
            r = {"exit": 1, "no_failing_input": "no-failing-input-found" in tc["result"]}
        rows.append("| %s | %s | %s | %s | %s |" % (name, tgt, (m.get("summary", "") or "").replace("|", "/")[:160],
                    ("yes" + (" (no-failing-input-found)" if r.get("no_failing_input") else "")) if r.get("exit") else "NO",
                    ", ".join(m.get("matrix_caught_by", [])) or "-"))
    txt = "# Seeded changes and the checks that catch them\n\nGenerated by `harness/seedtool.py summary`. A seed is kept only after `verify` confirmed: tests pass with it, its demonstration exits 1 with it and 0 without it.\n\n| seed | property | change | caught by its target check (patch applied to /repo) | all checks that raise VIOLATION (matrix run in a scratch worktree) |\n|---|---|---|---|---|\n" + "\n".join(rows) + "\n"
    open(os.path.join(VERIF, "seeded", "SUMMARY.md"), "w").write(txt)
    print(txt)
    return 0


if __name__ == "__main__":
    if sys.argv[1] == "matrix":
        sys.exit(matrix(sys.argv[2:]))
    if sys.argv[1] == "targets":
        sys.exit(targets(sys.argv[2:]))
    if sys.argv[1] == "summary":
        sys.exit(summary())
    if sys.argv[1] == "verify":
        sys.exit(verify(sys.argv[2], sys.argv[3] if len(sys.argv) > 3 else ""))
    sys.exit(run(sys.argv[2], sys.argv[3:]))
