"""Register-file definitions shared by C04 C05 C06 C10 C18 C20: JSON regdefs <-> cfi classes <-> model sx."""
import io
import re

from . import fieldlib as fl
from . import relib

_counter = [0]


def ident_source(rd):
    """the IDENTIFIER class attribute: the literal, a hand-written regular expression for the literal ("ident_re", reading only),
    or the rendering of a regular-expression node of the model's language ("ident_pat", harness/relib.py)"""
    if "ident_pat" in rd:
        return relib.render(rd["ident_pat"])
    return rd.get("ident_re", rd["ident"])


def mk_register_class(rd, idx, extra=None, base=None):
    from cfinterface.components.register import Register
    from cfinterface.components.line import Line
    _counter[0] += 1
    # "ident_re": the identifier as the user wrote it when it is a regular expression for the literal text "ident" (reading only)
    ns = {"IDENTIFIER": ident_source(rd), "IDENTIFIER_DIGITS": rd["digits"],
          "LINE": Line([fl.mk_field(fd) for fd in rd["fields"]], delimiter=rd.get("delim")), "__slots__": [], "_verif_idx": idx}
    if extra:
        ns.update(extra)
    return type("VReg%d_%d" % (idx, _counter[0]), (base or Register,), ns)


def mk_register_classes(regdefs):
    """the classes of a register list; a definition with "parent": j (j earlier in the list) becomes a SUBCLASS of class j
    that declares its own identifier and line (user code does build such hierarchies; every class-level attribute of the
    framework is then reachable through inheritance)"""
    out = []
    for i, rd in enumerate(regdefs):
        par = rd.get("parent")
        out.append(mk_register_class(rd, i, base=out[par] if par is not None and par < i else None))
    return out


def mk_file_class(regs, binary=False, encoding=None):
    from cfinterface.files.registerfile import RegisterFile
    ns = {"REGISTERS": regs, "STORAGE": "BINARY" if binary else "TEXT", "__slots__": []}
    if encoding:
        ns["ENCODING"] = encoding
    _counter[0] += 1
    return type("VFile%d" % _counter[0], (RegisterFile,), ns)


def regdef_sx(rd):
    base = [rd["ident"], rd["digits"], [fl.field_sx(fd) for fd in rd["fields"]], [] if rd.get("delim") is None else [rd["delim"]]]
    return base + [[relib.sx(rd["ident_pat"])]] if "ident_pat" in rd else base


def canon_elems(data, regs, cap=100000):
    """list(container) -> [[idx|-1, data]...]; the placeholder is returned separately"""
    from cfinterface.components.defaultregister import DefaultRegister
    out = []
    n = 0
    for e in data:
        n += 1
        if n > cap:
            out.append("too many elements")
            break
        if isinstance(e, DefaultRegister):
            d = e.data
            out.append([-1, d if isinstance(d, str) or d is None else (list(d) if isinstance(d, bytes) else repr(d))])
        else:
            idx = getattr(type(e), "_verif_idx", -7)
            out.append([idx, [fl.canon_value(x) for x in e.data]])
    return out


def model_elems(res, binary=False):
    """Selem list -> same canonical form"""
    out = []
    for e in res:
        if e[0] < 0:
            if len(e) == 1:
                out.append([-1, None])
            else:
                out.append([-1, list(e[1]) if binary else "".join(chr(c) for c in e[1])])
        else:
            out.append([e[0], [fl.canon_model_value(v) for v in e[1]]])
    return out


def elems_sx(elems, binary=False):
    out = []
    for e in elems:
        if e[0] < 0:
            out.append([-1] if e[1] is None else [-1, e[1]])
        else:
            out.append([e[0], [fl.value_sx(v) for v in e[1]]])
    return out


# ---- generators
IDENT_POOL = ["A", "AB", "B", "AB ", "X1", "ABC", "Z", "BA", "A1", "1"]


def gen_ident_pat(rng, ident):
    """a regular expression in the place of the literal identifier: anchored, followed by a blank or any character, a class
    run, the literal at the end of the window, behind optional blanks, an alternation, letter + digit, a bounded repetition,
    or a generated expression"""
    k = rng.randrange(10)
    up = ["cls", False, [[65, 90]]]
    if k == 0:
        return ["seq", ["bol"], ["lit", ident]]
    if k == 1:
        return ["seq", ["lit", ident], ["s", False]]
    if k == 2:
        return ["seq", ["lit", ident[:1]], ["any"]]
    if k == 3:
        return ["plus", ["cls", False, [[65, 66]]]]
    if k == 4:
        return ["seq", ["lit", ident], ["eol"]]
    if k == 5:
        return ["seq", ["bol"], ["seq", ["star", ["s", False]], ["lit", ident]]]
    if k == 6:
        return ["alt", ["lit", ident], ["lit", ident[::-1]]]
    if k == 7:
        return ["seq", up, ["d", False]]
    if k == 8:
        return ["seq", ["bol"], ["rep", up, 2, 1]]
    return relib.gen_pattern(rng, IDENT_POOL, "AB1XZ C", 2)


def gen_regdefs(rng, nmax=4, delim=False, binary=False, same_window=False, sci=True):
    n = rng.randint(1, nmax)
    idents = rng.sample(IDENT_POOL, n)
    win = rng.randint(max(len(i) for i in idents), 6) if same_window else None
    out = []
    for ident in idents:
        digits = win if win is not None else rng.randint(len(ident), 6)
        fs = []
        pos = digits
        for _ in range(rng.randint(1, 4)):
            if binary:
                k = rng.choice(["int", "float", "lit"])
                if k in ("int", "float"):
                    fd = {"k": k, "size": rng.choice([2, 4, 8]), "start": pos}
                    if k == "float":
                        fd.update({"dd": 2, "fmt": "F", "sep": "."})
                else:
                    fd = {"k": "lit", "size": rng.randint(1, 6), "start": pos}
            else:
                fd = fl.gen_field(rng, start=pos + (rng.choice([0, 0, 1]) if not delim else 0), sci=sci)
            fs.append(fd)
            pos = fd["start"] + fd["size"]
        out.append({"ident": ident, "digits": digits, "fields": fs, "delim": rng.choice([";", ",", "|"]) if delim else None})
    # a quarter of the lists contain class hierarchies (decided with a private generator so that the main stream is unchanged)
    import random
    r2 = random.Random(len(out) * 7919 + sum(len(rd["fields"]) for rd in out) + sum(map(ord, "".join(idents))))
    if r2.random() < 0.25:
        for i in range(1, len(out)):
            if r2.random() < 0.6:
                out[i]["parent"] = r2.randrange(i)
    # two DIFFERENT classes with the same identifier and window (an old and a new layout of one record): the first declared wins
    if not binary and not delim and r2.random() < 0.15 and out:
        src = r2.choice(out)
        twin = {"ident": src["ident"], "digits": src["digits"], "delim": src.get("delim"),
                "fields": [fl.gen_field(r2, start=src["digits"] + r2.choice([0, 1]), sci=sci)]}
        out.insert(r2.randrange(len(out) + 1), twin)
    # fields declared in an order different from their columns (the layout itself is unchanged)
    for rd in out:
        if len(rd["fields"]) > 1 and r2.random() < 0.3:
            r2.shuffle(rd["fields"])
    return out


def unambiguous(regdefs, binary=False):
    """decidable sufficient condition for 'a line written by r is dispatched to r': no EARLIER identifier occurs in
    the window-truncated padded identifier of a later register"""
    for j, r in enumerate(regdefs):
        padded = r["ident"].ljust(r["digits"])
        if "ident_pat" in r and re.search(ident_source(r), padded[: r["digits"]]) is None:
            return False          # a regular-expression identifier test must find the literal it is written with (reg_wf)
        for i in range(j):
            e = regdefs[i]
            if e["digits"] > r["digits"]:
                return False      # an earlier, wider window would look into the later type's data columns
            if ("ident_pat" in e and re.search(ident_source(e), padded[: e["digits"]]) is not None) or \
               ("ident_pat" not in e and e["ident"] in padded[: e["digits"]]):
                return False
    return True


def with_ident_pats(rng, regdefs, p=0.5):
    """some identifier tests become regular expressions. READING ONLY: Register.write puts the IDENTIFIER attribute itself --
    the expression's source text -- into the identifier columns, so on the writing side the literal r_ident of the model IS
    that source text and reg_wf holds only for expressions that find their own source (DESIGN.md section 12)"""
    for rd in regdefs:
        if rd.get("delim") is None and rng.random() < p:
            rd["ident_pat"] = gen_ident_pat(rng, rd["ident"])
    return regdefs


def ref_dispatch(regdefs, line):
    for i, r in enumerate(regdefs):
        if re.search(ident_source(r), line[: r["digits"]]) is not None:
            return i
    return -1
