"""Primitive-level correspondence: the model's CPython/numpy primitives vs the real ones.
Usable standalone (python -m harness.prims [quick|thorough]) and from property checks."""
import itertools
import decimal
import math
import random
import struct
import sys

from . import lib

ALPHABET = "019+-.,eE_naif \t\n\x00٣"


def f2b(x):
    return struct.unpack("<Q", struct.pack("<d", x))[0]


def b2f(b):
    return struct.unpack("<d", struct.pack("<Q", b))[0]


def opt(f, *a):
    try:
        return [f(*a)]
    except (ValueError, OverflowError):
        return []


def py_float(s):
    r = opt(float, s)
    if r:
        x = r[0]
        r = [0x7FF8000000000000 if x != x else f2b(x)]
    return r


def interesting_floats(rng, n):
    out = [0.0, -0.0, 1.0, -1.0, 0.5, 0.75, 9.996, 9.9996, 99.95, 0.05, 0.15, 0.25, 0.35, 1e-5, 5e-324, 1.7976931348623157e308,
           123456.789, 1e15, 1e16, 1e22, 1e23, 2.5, 3.5, -2.5, 0.045, 1.005, 2.675, 1e-7, 999.9999999999999, 1000.0,
           0.1, 0.001, 9.5, 10.5, 99.5, 0.95, 0.995, 4.35, 1234.5678, -0.04, -0.05, 1e300, 1e-300]
    while len(out) < n:
        k = rng.random()
        if k < 0.25:
            out.append(b2f(rng.getrandbits(64) & ~(0x7FF << 52) | (rng.randrange(0, 2047) << 52)))
        elif k < 0.5:
            d = rng.randint(0, 8)
            t = rng.randint(0, 10 ** rng.randint(1, 6))
            out.append(((2 * t + 1) / (2 * 10 ** d)) * rng.choice([1, -1]))
        elif k < 0.7:
            out.append(rng.uniform(-1, 1) * 10 ** rng.randint(-8, 12))
        elif k < 0.85:
            x = float("9" * rng.randint(1, 6) + "." + "9" * rng.randint(1, 8))
            out.append(rng.choice([x, math.nextafter(x, 0), math.nextafter(x, 1e9), -x]))
        else:
            x = 10.0 ** rng.randint(-10, 15)
            out.append(rng.choice([x, math.nextafter(x, 0), math.nextafter(x, 1e300)]))
    return out


def exact_lg(x):
    """floor(log10|x|), exactly"""
    from fractions import Fraction
    f = Fraction(abs(x))
    k = int(math.floor(math.log10(abs(x))))
    while Fraction(10) ** k > f:
        k -= 1
    while Fraction(10) ** (k + 1) <= f:
        k += 1
    return k


def sci_inputs(rng, n):
    """(x, decimal digits): random bit patterns, subnormals, neighbours of powers of ten, of the largest double, of d-digit decimals"""
    out = [(1.04e-322, 1), (1.0000000000000001e23, 15), (1.7976931348623157e308, 2), (1.7976931348623157e308, 16), (5e-324, 0),
           (5e-324, 3), (9.5, 0), (0.95, 1), (9.9996, 3), (1e23, 0), (1e22, 2), (2.2250738585072014e-308, 5), (2.225073858507201e-308, 14)]
    while len(out) < n:
        k = rng.random()
        d = rng.choice([0, 1, 2, 3, 5, 8, 12, 14, 15, 16, 17, rng.randint(0, 20)])
        if k < 0.2:
            x = b2f(rng.getrandbits(64))
        elif k < 0.35:
            x = rng.randint(1, 2 ** rng.randint(1, 52)) * 5e-324
        elif k < 0.6:
            x = float("1e%d" % rng.randint(-323, 308))
            for _ in range(rng.choice([0, 1, 1, 2, 3, 7, 40, 400])):
                x = math.nextafter(x, rng.choice([0.0, math.inf]))
        elif k < 0.7:
            x = 1.7976931348623157e308
            for _ in range(rng.randint(0, 5)):
                x = math.nextafter(x, 0.0)
            x *= rng.choice([1.0, 0.99, 0.5])
        else:
            dd = rng.randint(0, 17)
            x = float("%d.%se%d" % (rng.randint(1, 9), "".join(rng.choice("0599") for _ in range(dd)) + rng.choice(["", "5", "49999", "50001"]), rng.randint(-320, 307)))
            d = rng.choice([dd, dd, max(dd - 1, 0), d])
        if x != x or abs(x) == math.inf:
            continue
        out.append((x * rng.choice([1, 1, -1]), d))
    return out


def cases(tier, rng):
    """yield (arg, expected, description)"""
    maxlen = 3 if tier == "quick" else 4
    for n in range(0, maxlen + 1):
        for t in itertools.product(ALPHABET, repeat=n):
            s = "".join(t)
            yield [0, s], opt(int, s), "int"
            yield [1, s], py_float(s), "float"
            yield [4, s], s.strip(), "strip"
    # structured numeric literals
    nlit = 3000 if tier == "quick" else 60000
    for _ in range(nlit):
        parts = [rng.choice(["", " ", " ", "\t"]), rng.choice(["", "", "+", "-"]),
                 "".join(rng.choice("0123456789_٣") for _ in range(rng.randint(0, 6))),
                 rng.choice(["", ".", ".", ","]),
                 "".join(rng.choice("0123456789_") for _ in range(rng.randint(0, 8))),
                 rng.choice(["", "", "e", "E", "e+", "e-", "E-"]),
                 "".join(rng.choice("0123456789") for _ in range(rng.randint(0, 3))),
                 rng.choice(["", " ", "\n", "\x1c"])]
        s = "".join(parts)
        yield [0, s], opt(int, s), "int"
        yield [1, s], py_float(s), "float"
    for s in ["inf", "-inf", "+Infinity", "nan", "-NaN", "iNf", "infinit", "in f", "1e400", "-1e400", "1e-400", "2.4703282292062327e-324",
              "2.4703282292062328e-324", "4.9e-324", "1e999999999999", "0e999999999999", "1e-999999999999", "0." + "0" * 400 + "1",
              "1" + "0" * 400, "179769313486231580793728971405303415079934132710037826936173778980444968292764750946649017977587207096330286416692887910946555547851940402630657488671505820681908902000708383676273854845817711531764475730270069855571366959622842914819860834936475292719074168444365510704342711559699508093042880177904174497791.9999999999999999999999999999999999999999999999999999999999999999999999",
              "9007199254740993", "9007199254740992.5", "0.1", "1.0000000000000002220446049250313080847263336181640625"]:
        yield [1, s], py_float(s), "float"
    # rendering
    nf = 1500 if tier == "quick" else 60000
    for x in interesting_floats(rng, nf):
        b = f2b(x)
        for d in ([0, 1, 2, 4] if tier == "quick" else range(0, 9)):
            yield [2, b, d, 1], "{:.{d}F}".format(round(x, d), d=d), "fmtF"
            yield [3, b, d, 1], "{:.{d}E}".format(x, d=d), "fmtE-direct"
        yield [2, b, 3, 0], "{:.3f}".format(round(x, 3)), "fmtF"
    # float.__round__ and the E branch of FloatField._textual_write (round, then format): boundary-heavy
    for x, d in sci_inputs(rng, 2500 if tier == "quick" else 120000):
        b = f2b(x)
        nd = rng.choice([d, -d, rng.randint(-330, 340)])
        try:
            r = [f2b(round(x, nd))]
        except OverflowError:
            r = []
        yield [18, b, nd], r, "round"
        if x != 0 and x == x and abs(x) != math.inf:
            lg = decimal.Decimal(x).adjusted()   # what FloatField computes (exact)
            try:
                comp = ["{:.{d}E}".format(round(x, d - lg), d=d)]
            except OverflowError:
                comp = []
            yield [19, b, d, 1], comp, "fmtE-composite"
    for z in [0, 1, -1, 9, 10, -10, 99, 100, 12345678901234567890, -(10 ** 30)] + [rng.randint(-10 ** 12, 10 ** 12) for _ in range(200)]:
        yield [7, z], str(z), "str(int)"
    # split / replace
    for _ in range(1500 if tier == "quick" else 20000):
        sep = rng.choice([";", ",", "::", "aa", " ; ", "ab", "\t"])
        s = "".join(rng.choice("ab;,: \t1") for _ in range(rng.randint(0, 12)))
        yield [5, sep, s], s.split(sep), "split"
        yield [6, sep, ".", s], s.replace(sep, "."), "replace"
        yield [14, s.replace(";", "\n")], s.replace(";", "\n").splitlines(keepends=True) if False else _lines(s.replace(";", "\n")), "lines"


def date_cases(tier, rng):
    import datetime
    from . import dates
    fmts = ["%Y/%m/%d", "%Y-%m-%d %H:%M:%S", "%d/%m/%Y", "%Y%m%d", "%m%d", "%d%m%Y %H%M", "%H:%M", "%Y.%m.%d  %H:%M:%S.%f", "%S%M%H",
            "%d-%m", "%m/%Y", "%Y%m%d%H%M%S", "%d %m %Y", "%%%Y"]

    def pstrp(s, f):
        try:
            return [dates.dt_tuple(datetime.datetime.strptime(s, f))]
        except ValueError:
            return []
    n = 60 if tier == "quick" else 1500
    for f in fmts:
        tk = dates.tokens(f)
        for _ in range(n):
            d = datetime.datetime(rng.randint(1000, 9999), rng.randint(1, 12), rng.randint(1, 28), rng.randint(0, 23), rng.randint(0, 59),
                                  rng.randint(0, 59), rng.choice([0, 5, 123456, 999999, 100000]))
            s = d.strftime(f)
            yield [17, tk, dates.dt_tuple(d)], s, "strftime"
            k = rng.random()
            if k < 0.3:
                pass
            elif k < 0.6:
                i = rng.randrange(len(s)); s = s[:i] + rng.choice("0123456789 /-:\u0663x") + s[i + 1:]
            elif k < 0.8:
                i = rng.randrange(len(s) + 1); s = s[:i] + s[i + 1:]
            else:
                i = rng.randrange(len(s) + 1); s = s[:i] + rng.choice("0123 ") + s[i:]
            yield [16, tk, s], pstrp(s, f), "strptime"
    for s, f in [("2020112", "%Y%m%d"), ("12", "%m%d"), ("123", "%d%m"), ("2021-02-29", "%Y-%m-%d"), ("2020-02-29", "%Y-%m-%d"),
                 ("0000-01-01", "%Y-%m-%d"), ("02-29", "%m-%d"), ("60", "%S"), ("61", "%S"), ("1 2", "%d %m"), ("1   2", "%d %m"), (" 1", "%d"),
                 ("1.5", "%S.%f"), ("1.1234567", "%S.%f"), ("\u0662\u0660\u0662\u0660-01-01", "%Y-%m-%d"), ("", "%Y"), ("", "%%")]:
        yield [16, dates.tokens(f), s], pstrp(s, f), "strptime"


def _lines(s):
    import io
    f = io.StringIO(s, newline="")
    out = []
    while True:
        l = f.readline()
        if not l:
            break
        out.append(l)
    return out


def np_cases(tier, rng):
    import numpy as np
    IT = {2: np.int16, 4: np.int32, 8: np.int64}
    FT = {2: np.float16, 4: np.float32, 8: np.float64}
    import warnings
    warnings.simplefilter("ignore")
    for n in (2, 4, 8):
        w = 8 * n
        vals = [0, 1, -1, 2 ** (w - 1) - 1, -2 ** (w - 1), 2 ** (w - 1), -2 ** (w - 1) - 1, 255, 256, -256] + [
            rng.randint(-2 ** (w - 1) - 3, 2 ** (w - 1) + 3) for _ in range(300)]
        if n == 2 and tier == "thorough":
            vals += list(range(-32768, 32768))
        for z in vals:
            try:
                e = [list(np.array([z], dtype=IT[n]).tobytes())]
            except OverflowError:
                e = []
            yield [8, n, z], e, "int_enc"
        for _ in range(400):
            bs = bytes(rng.getrandbits(8) for _ in range(rng.choice([n, n, n, n - 1, n + 2, 0])))
            try:
                e = [int(np.frombuffer(bs, dtype=IT[n], count=1)[0])]
            except ValueError:
                e = []
            yield [9, n, bs], e, "int_dec"
        for x in interesting_floats(rng, 600 if tier == "quick" else 20000):
            yield [10, n, f2b(x)], list(np.array([x], dtype=FT[n]).tobytes()), "float_enc"
        pats = [bytes(rng.getrandbits(8) for _ in range(n)) for _ in range(600 if tier == "quick" else 20000)]
        if n == 2:
            pats += [struct.pack("<H", i) for i in range(65536)] if tier == "thorough" else [struct.pack("<H", i) for i in range(0, 65536, 37)]
        for bs in pats:
            x = float(np.frombuffer(bs, dtype=FT[n], count=1)[0])
            yield [11, n, bs], [0x7FF8000000000000 if x != x else f2b(x)], "float_dec"
    for _ in range(500):
        bs = bytes(rng.choice([rng.getrandbits(8), rng.randrange(32, 127), rng.randrange(0xC0, 0xF8), rng.randrange(0x80, 0xC0)])
                   for _ in range(rng.randint(0, 6)))
        try:
            e = [bs.decode("utf-8")]
        except UnicodeDecodeError:
            e = []
        yield [12, bs], e, "utf8"


def table_cases(tier):
    import unicodedata
    rng = range(0x110000) if tier == "thorough" else list(range(0, 0x3100)) + list(range(0x3100, 0x110000, 61))
    for cp in rng:
        c = chr(cp)
        try:
            dv = [int(c)] if c.isdigit() and unicodedata.category(c) == "Nd" else []
        except ValueError:
            dv = []
        try:
            ns = int(c + "1") == 1 and int("1" + c) == 1
        except ValueError:
            ns = False
        yield [13, cp], [int(c.isspace()), dv, int(c.encode("latin-1", "replace").isspace() and cp < 128), int(ns)], "tables"


def canon(x):
    if isinstance(x, str):
        return [ord(c) for c in x]
    if isinstance(x, (bytes, bytearray)):
        return list(x)
    if isinstance(x, (list, tuple)):
        return [canon(y) for y in x]
    if isinstance(x, bool):
        return int(x)
    return x


def run(tier="quick", seed=0, lite=False):
    rng = random.Random("prims-%d" % seed)
    if lite:
        # a fast subset for every quick run: literals over the adversarial alphabet to length 2, structured literals,
        # renderings, codecs; the full sets run in the thorough tier
        allc = [c for c in cases("quick", rng) if c[2] not in ("int", "float", "strip") or len(c[0][1]) <= 2 or rng.random() < 0.15]
        allc = allc[:: 2] + list(date_cases("quick", rng)) + list(np_cases("quick", rng))[:: 3] + [c for i, c in enumerate(table_cases("quick")) if i < 0x3100 or i % 16 == 0][:: 4]
    else:
        allc = list(cases(tier, rng)) + list(date_cases(tier, rng)) + list(np_cases(tier, rng)) + list(table_cases(tier))
    res = lib.run_model("PRIM", [c[0] for c in allc])
    bad = []
    kinds = {}
    for (arg, exp, kind), r in zip(allc, res):
        kinds[kind] = kinds.get(kind, 0) + 1
        if canon(exp) != r:
            bad.append((kind, arg, canon(exp), r))
    return len(allc), kinds, bad


if __name__ == "__main__":
    tier = sys.argv[1] if len(sys.argv) > 1 else "quick"
    n, kinds, bad = run(tier)
    print(n, kinds)
    bk = {}
    for b in bad:
        bk.setdefault(b[0], []).append(b)
    for k, v in bk.items():
        print("MISMATCH", k, len(v))
        for b in v[:6]:
            print("   ", b[1:])
    sys.exit(1 if bad else 0)
