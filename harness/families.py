"""The three container/file families behind one interface (public API names only)."""


def get(fam):
    if fam == "register":
        from cfinterface.components.register import Register as Base
        from cfinterface.components.defaultregister import DefaultRegister as Default
        from cfinterface.data.registerdata import RegisterData as Data
        from cfinterface.files.registerfile import RegisterFile as File
        return {"Base": Base, "Default": Default, "Data": Data, "File": File, "list_attr": "REGISTERS",
                "get": "get_registers_of_type", "remove": "remove_registers_of_type"}
    if fam == "block":
        from cfinterface.components.block import Block as Base
        from cfinterface.components.defaultblock import DefaultBlock as Default
        from cfinterface.data.blockdata import BlockData as Data
        from cfinterface.files.blockfile import BlockFile as File
        return {"Base": Base, "Default": Default, "Data": Data, "File": File, "list_attr": "BLOCKS",
                "get": "get_blocks_of_type", "remove": "remove_blocks_of_type"}
    from cfinterface.components.section import Section as Base
    from cfinterface.components.defaultsection import DefaultSection as Default
    from cfinterface.data.sectiondata import SectionData as Data
    from cfinterface.files.sectionfile import SectionFile as File
    return {"Base": Base, "Default": Default, "Data": Data, "File": File, "list_attr": "SECTIONS",
            "get": "get_sections_of_type", "remove": "remove_sections_of_type"}


FAMILIES = ["register", "block", "section"]
_cache = {}


def elem_classes(fam):
    """A small class hierarchy of elements with value equality (class check + data ==), the
    documented pattern for user components:  K0 <- K1 (subclass) , K2 unrelated, K3 unrelated."""
    if fam in _cache:
        return _cache[fam]
    F = get(fam)
    Base = F["Base"]

    def mk(name, bases):
        def __eq__(self, o):
            if not isinstance(o, self.__class__):
                return False
            return o.data == self.data

        def _p(i):
            return property(lambda self: self.data[i] if isinstance(self.data, (list, tuple)) and len(self.data) > i else None)

        ns = {"__eq__": __eq__, "__hash__": None, "__slots__": [], "p0": _p(0), "p1": _p(1), "p2": _p(2)}
        if fam == "register":
            # registers come with the library's own Register.__eq__ (class check + data): use IT, not a copy of it
            del ns["__eq__"], ns["__hash__"]
        return type(name, bases, ns)

    K0 = mk(fam + "K0", (Base,))
    K1 = mk(fam + "K1", (K0,))
    K2 = mk(fam + "K2", (Base,))
    K3 = mk(fam + "K3", (Base,))
    _cache[fam] = [K0, K1, K2, K3]
    return _cache[fam]


# issubclass table of the hierarchy above: SUB[c][d] = issubclass(Kc, Kd)
SUB = [[1, 0, 0, 0], [1, 1, 0, 0], [0, 0, 1, 0], [0, 0, 0, 1]]
