"""Python date format string -> model token list (fail closed), datetime <-> 7-tuple."""
import datetime

DIRECTIVES = {"Y": 0, "m": 1, "d": 2, "H": 3, "M": 4, "S": 5, "f": 6}


class Unsupported(Exception):
    pass


def tokens(fmt):
    out = []
    i = 0
    seen = set()
    while i < len(fmt):
        c = fmt[i]
        if c == "%":
            if i + 1 >= len(fmt):
                raise Unsupported(fmt)
            d = fmt[i + 1]
            if d == "%":
                out.append([7, 37])
            elif d in DIRECTIVES:
                if d in seen:
                    raise Unsupported("duplicate directive")
                seen.add(d)
                out.append([DIRECTIVES[d]])
            else:
                raise Unsupported(fmt)
            i += 2
        elif c.isspace():
            j = i
            while j < len(fmt) and fmt[j].isspace():
                j += 1
            out.append([8, fmt[i:j]])
            i = j
        else:
            if c.isalpha() or c.isdigit() or ord(c) > 127 or c in "\\":
                raise Unsupported("letter literal")
            out.append([7, ord(c)])
            i += 1
    return out


def dt_tuple(d):
    return [d.year, d.month, d.day, d.hour, d.minute, d.second, d.microsecond]


def tuple_dt(t):
    return datetime.datetime(*t)
