#!/venv/bin/python
"""Regenerates MANIFEST.json from harness/manifest_meta.py (single source of truth)."""
import json, os, sys
HERE = os.path.dirname(os.path.abspath(__file__))
sys.path.insert(0, os.path.dirname(HERE))
from harness.manifest_meta import CLAIMED, NOT_APPLICABLE, NOTES

props = [json.loads(l) for l in open(os.path.join(os.path.dirname(HERE), "properties.jsonl"))]
ids = [p["id"] for p in props]
checks = []
for pid in ids:
    if pid not in CLAIMED:
        continue
    m = CLAIMED[pid]
    checks.append({
        "property_id": pid,
        "quick_cmd": "./check %s --tier quick" % pid,
        "thorough_cmd": "./check %s --tier thorough" % pid,
        "evidence_file": "/verif/evidence/%s.json" % pid,
        "replay_cmd_template": "./check %s --replay {path}" % pid,
        "engine": "coq-model+correspondence",
        "level_claimed": {"category": "proof", "text": m["text"], "design_ref": m.get("design_ref", "DESIGN.md section 6, " + pid)},
        "level_note": m["note"],
        "technique": m["technique"],
    })
na = [{"property_id": pid, "reason": NOT_APPLICABLE.get(pid, "check not built yet in this session (work in progress)")}
      for pid in ids if pid not in CLAIMED]
man = {
    "version": 1,
    "setup_cmd": "make setup",
    "hooks": {
        "guard": "RJMALVES_CFI_VERIF",
        "enable": "no instrumentation in /repo is needed: every observation goes through the public API, a wrapping open(), or harness-side counters; the guard name is reserved and set to 1 by the checks",
        "baseline_off_cmd": "cd /repo && env -u RJMALVES_CFI_VERIF /venv/bin/python -m pytest -q -p no:cacheprovider --timeout=900",
        "source_commits": [],
        "add_only": True,
    },
    "engines": [{
        "name": "coq-model+correspondence",
        "path": "/verif/coq (model, proofs, property theorems), /verif/ocaml/driver.ml, /verif/harness",
        "serves_properties": [c["property_id"] for c in checks],
        "kind_free_text": "machine-checked proof in Coq 8.16.1 about a hand-written Gallina model of cfinterface; the model is tied to /repo's working tree on every run by a differential correspondence check (extracted OCaml model vs the Python implementation on generated and enumerated inputs), a direct property oracle turns any mismatch into a replayable failing input",
    }],
    "checks": checks,
    "not_applicable": na,
    "notes": NOTES,
}
json.dump(man, open(os.path.join(os.path.dirname(HERE), "MANIFEST.json"), "w"), indent=1)
print("claimed:", [c["property_id"] for c in checks])
