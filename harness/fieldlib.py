"""Field / line descriptions shared by the property checks: JSON-able case <-> cfi objects <-> model sx."""
import datetime
import struct

from . import dates

NANBITS = 0x7FF8000000000000


def f2b(x):
    if x != x:
        return NANBITS
    return struct.unpack("<Q", struct.pack("<d", x))[0]


def b2f(b):
    return struct.unpack("<d", struct.pack("<Q", b))[0]


# ---- fields
def mk_field(fd, value=None):
    from cfinterface.components.literalfield import LiteralField
    from cfinterface.components.integerfield import IntegerField
    from cfinterface.components.floatfield import FloatField
    from cfinterface.components.datetimefield import DatetimeField
    k = fd["k"]
    if k == "lit":
        return LiteralField(fd["size"], fd["start"], value=value)
    if k == "int":
        return IntegerField(fd["size"], fd["start"], value=value)
    if k == "float":
        return FloatField(fd["size"], fd["start"], fd["dd"], fd["fmt"], fd["sep"], value=value)
    fm = fd["formats"]
    return DatetimeField(fd["size"], fd["start"], fm if fd.get("aslist", len(fm) != 1) else fm[0], value=value)


def field_sx(fd):
    k = fd["k"]
    if k == "lit":
        kind = [0]
    elif k == "int":
        kind = [1]
    elif k == "float":
        kind = [2, fd["dd"], fd["fmt"] in "Ee", fd["fmt"].isupper(), fd["sep"]]
    else:
        kind = [3, [dates.tokens(f) for f in fd["formats"]]]
    return [kind, fd["size"], fd["start"]]


# ---- values
def py_value(v):
    if v is None:
        return None
    t = v[0]
    if t == "nat":
        import pandas as pd
        return pd.NaT
    if t == "nan":
        return float("nan")
    if t == "int":
        return v[1]
    if t == "float":
        return b2f(v[1])
    if t == "str":
        return v[1]
    if t == "date":
        return datetime.datetime(*v[1])
    raise ValueError(v)


def py_value_typed(v, h):
    """the same abstract value as py_value, carried by another Python type chosen by the integer h: values reach the fields
    from numpy arrays, pandas cells and arithmetic, not only as int/float/datetime literals. Only exact carriers are used
    (an integral float for an integer, a float32 only when the double is a float32 value), so the expected behaviour is
    that of py_value(v)."""
    import numpy as np
    import pandas as pd
    x = py_value(v)
    if v is None and h % 6 == 5:
        return pd.NA            # pandas' missing-value singleton: pd.isnull(pd.NA) is True
    if v is None or v[0] in ("nat", "nan", "str"):
        return x
    k = h % 6
    if v[0] == "int":
        if k == 1 and -2 ** 63 <= x < 2 ** 63:
            return np.int64(x)
        if k == 2 and abs(x) < 2 ** 53:
            return float(x)
        if k == 3 and abs(x) < 2 ** 53:
            return np.float64(x)
        if k == 4 and -2 ** 31 <= x < 2 ** 31:
            return np.int32(x)
        if k == 5 and x in (0, 1):
            return bool(x)
        return x
    if v[0] == "float":
        if k == 1:
            return np.float64(x)
        if k == 2 and x == x and float(np.float32(x)) == x:
            return np.float32(x)
        if k == 3 and x == int(x) and abs(x) < 2 ** 53 and not (x == 0 and str(x).startswith("-")):
            return int(x)
        return x
    if v[0] == "date":
        if k in (1, 2):
            return pd.Timestamp(x)
        return x
    return x


def value_sx(v):
    if v is None:
        return []
    t = v[0]
    if t == "nat":
        return [1]
    if t == "nan":
        return [3, NANBITS]
    if t == "int":
        return [2, v[1]]
    if t == "float":
        return [3, v[1]]
    if t == "str":
        return [4, v[1]]
    return [5, v[1]]


def canon_value(x):
    """canonical JSON form of a value observed on the implementation"""
    if x is None:
        return None
    if isinstance(x, bool):
        return ["bool", x]
    if isinstance(x, int):
        return ["int", x]
    if isinstance(x, float):
        return ["float", f2b(x)]
    if isinstance(x, str):
        return ["str", x]
    if isinstance(x, datetime.datetime):
        return ["date", dates.dt_tuple(x)]
    try:
        import pandas as pd
        if x is pd.NaT:
            return ["nat"]
    except Exception:
        pass
    return ["other", repr(x)[:80]]


def canon_model_value(s):
    """canonical JSON form of a model Svalue"""
    if s == []:
        return None
    t = s[0]
    if t == 1:
        return ["nat"]
    if t == 2:
        return ["int", s[1]]
    if t == 3:
        return ["float", s[1]]
    if t == 4:
        return ["str", "".join(chr(c) for c in s[1])]
    return ["date", s[1]]


def ostr(s):
    """model option str -> str or None"""
    return None if s == [] else "".join(chr(c) for c in s[0])


def obytes(s):
    return None if s == [] else list(s[0])


# ---- generators
DATE_FORMATS = ["%Y/%m/%d", "%Y-%m-%d %H:%M:%S", "%d/%m/%Y", "%Y%m%d", "%d%m%Y %H%M", "%H:%M %d.%m.%Y", "%Y-%m-%d %H:%M:%S.%f",
                "%m/%Y", "%Y%m%d%H%M%S", "%d %m %Y"]


def date_width(fmt):
    return len(datetime.datetime(2000, 11, 22, 13, 44, 55, 123456).strftime(fmt))


def gen_field(rng, kinds=("lit", "int", "float", "date"), start=0, maxsize=24, sci=True):
    k = rng.choice(kinds)
    if k == "lit":
        return {"k": "lit", "size": rng.randint(1, min(12, maxsize)), "start": start}
    if k == "int":
        return {"k": "int", "size": rng.randint(16, 20) if rng.random() < 0.12 and maxsize >= 20 else rng.randint(1, min(12, maxsize)), "start": start}
    if k == "float":
        fmt = rng.choice("FFfEe" if sci else "FFf")
        dd = rng.randint(0, 8)
        size = rng.randint(7 + dd if fmt in "Ee" and rng.random() < 0.8 else 1, max(8 + dd, min(maxsize, 24)))
        return {"k": "float", "size": size, "start": start, "dd": dd, "fmt": fmt, "sep": rng.choice([".", ".", ","])}
    n = rng.choice([1, 1, 2, 3])
    fm = rng.sample(DATE_FORMATS, n)
    if rng.random() < 0.12:
        # a format list whose formats can parse the same text differently: the first declared format that parses decides
        fm = rng.choice([["%d/%m/%Y", "%m/%d/%Y"], ["%m/%d/%Y", "%d/%m/%Y"], ["%Y-%m-%d", "%Y-%d-%m"]])
    return {"k": "date", "size": date_width(fm[0]) + rng.randint(0, 3), "start": start, "formats": fm, "aslist": len(fm) != 1 or rng.random() < 0.3}


def gen_value(rng, fd, missing=0.12):
    """a value intended to fit (the model decides); boundary-biased"""
    import math
    r = rng.random()
    if r < missing:
        return rng.choice([None, None, ["nan"], ["nat"]])
    k, n = fd["k"], fd["size"]
    if k == "lit":
        ln = rng.randint(0, n)
        alpha = "abcXYZ019 .-_/éñ" if rng.random() < 0.3 else "abcXYZ019 .-_/"
        if rng.random() < 0.08:
            # characters that str.splitlines() / str.strip() treat specially but readline() does not end a line at
            alpha = alpha + "\x0c\x1c\x85\u2028\x0b"
        s = "".join(rng.choice(alpha) for _ in range(ln)).strip()
        return ["str", s]
    if k == "int":
        c = rng.random()
        if c < 0.3:
            return ["int", rng.choice([10 ** n - 1, -(10 ** (n - 1)) + 1 if n > 1 else 0, 0, 10 ** (n - 1), -1 if n > 1 else 1])]
        hi = 10 ** n - 1
        lo = -(10 ** (n - 1)) + 1 if n > 1 else 0
        return ["int", rng.randint(lo, hi)]
    if k == "float":
        dd = fd["dd"]
        c = rng.random()
        if fd["fmt"] in "Ee":
            if c < 0.2:
                x = rng.choice([0.0, -0.0, 1.0, 9.9996, 9.99995e10, 1e-5, 123456.789, -2.5e-7, 9.5, 0.95])
            elif c < 0.5:
                m = rng.randint(10 ** dd, 10 ** (dd + 1) - 1) * 10 + 5
                x = m * 10.0 ** rng.randint(-12, 12) * rng.choice([1, -1])
            elif c < 0.9:
                x = rng.uniform(-1, 1) * 10.0 ** rng.randint(-15, 15)
            else:
                x = sci_boundary_value(rng, dd)
                if abs(x) < 2.3e-308 or sci_rounding_overflows(x, dd):
                    x = 2.5   # subnormals / overflow on rounding: C01's own stream (recorded findings there)
            return ["float", f2b(x)]
        intw = max(1, n - dd - 2)
        if c < 0.25:
            d = rng.randint(0, dd)
            t = rng.randint(0, 10 ** min(intw + d, 12))
            x = (2 * t + 1) / (2 * 10 ** d)
            x = rng.choice([x, math.nextafter(x, 0), math.nextafter(x, 1e18)])
        elif c < 0.45:
            x = float("9" * rng.randint(1, max(1, n - 1)) + "." + "9" * rng.randint(1, 9))
            x = rng.choice([x, math.nextafter(x, 0), x / 10, x / 100])
        elif c < 0.55:
            x = rng.choice([0.0, -0.0, -0.04, -0.0004, 0.5, 1e-9, -1e-9, 0.05])
        else:
            x = rng.uniform(0, 10 ** rng.randint(0, max(1, n - 1)))
        if rng.random() < 0.25:
            x = -x
        return ["float", f2b(x)]
    d = datetime.datetime(rng.choice([1000, 1999, 2000, 2024, 9999, rng.randint(1000, 9999)]), rng.randint(1, 12), rng.randint(1, 28),
                          rng.randint(0, 23), rng.randint(0, 59), rng.randint(0, 59), rng.choice([0, 0, 5, 123456, 999999]))
    if rng.random() < 0.1:
        d = d.replace(month=2, day=29, year=rng.choice([2000, 2024, 1604]))
    return ["date", dates.dt_tuple(d)]



def exact_lg(x):
    """floor(log10|x|) exactly (x finite, non-zero)"""
    from fractions import Fraction
    import math
    f = Fraction(abs(x))
    k = int(math.floor(math.log10(abs(x))))
    while Fraction(10) ** k > f:
        k -= 1
    while Fraction(10) ** (k + 1) <= f:
        k += 1
    return k


def libm_log10_exact(x):
    """the C library's log10 is not modelled: just below a power of ten it may round up to the integer, and then
    FloatField's E branch rounds to one digit fewer. True when floor(math.log10|x|) is the exact floor."""
    import math
    if x == 0 or x != x or abs(x) == math.inf:
        return True
    return int(math.floor(math.log10(abs(x)))) == exact_lg(x)


def sci_rounding_overflows(x, dd):
    """x rounded to dd+1 significant digits exceeds the largest double (CPython's own formatting as the reference)"""
    import math
    if x == 0 or x != x or abs(x) == math.inf:
        return False
    return abs(float("%.*e" % (dd, x))) == math.inf


def sci_boundary_value(rng, dd):
    """E-notation stress values: subnormals, neighbours of powers of ten and of dd-digit decimals, the top of the range"""
    import math
    k = rng.random()
    if k < 0.2:
        x = rng.randint(1, 2 ** rng.randint(1, 52)) * 5e-324
    elif k < 0.5:
        x = float("1e%d" % rng.randint(-323, 308))
        for _ in range(rng.choice([0, 1, 1, 2, 3, 7, 40, 400])):
            x = math.nextafter(x, rng.choice([0.0, math.inf]))
    elif k < 0.6:
        x = 1.7976931348623157e308
        for _ in range(rng.randint(0, 5)):
            x = math.nextafter(x, 0.0)
        x *= rng.choice([1.0, 0.99, 0.5])
    elif k < 0.9:
        d2 = rng.choice([dd, dd, max(dd - 1, 0), dd + 1])
        x = float("%d.%se%d" % (rng.randint(1, 9), "".join(rng.choice("0599") for _ in range(d2)) + rng.choice(["", "5", "49999", "50001"]),
                                rng.randint(-320, 307)))
    else:
        x = b2f(rng.getrandbits(64))
    if x != x or abs(x) == math.inf or x == 0:
        x = 1.5
    return x * rng.choice([1, 1, -1])


def gen_layout(rng, nmax=6, kinds=("lit", "int", "float", "date"), sci=True, gaps=True):
    n = rng.randint(1, nmax)
    fs = []
    pos = rng.randint(0, 3) if gaps else 0
    for _ in range(n):
        fd = gen_field(rng, kinds, pos, sci=sci)
        fs.append(fd)
        pos = fd["start"] + fd["size"] + (rng.choice([0, 0, 1, 3]) if gaps else 0)
    rng.shuffle(fs)
    return fs
