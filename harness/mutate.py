#!/venv/bin/python
"""Mutation run: small syntactic mutants of cfinterface (comparison / boolean / arithmetic operator swaps, constant
changes, negated or constant conditions), each in a scratch worktree. A mutant that still passes the repository's test
suite is run against all twenty quick checks; the table says which checks raise VIOLATION. Mutants that pass the tests AND
all checks are listed for review (equivalent mutants or blind spots). Informational; not part of any registered check.

usage: harness/mutate.py <max_mutants> <seed> <out.json>"""
import ast, copy, json, os, random, subprocess, sys, shutil

VERIF = os.path.dirname(os.path.dirname(os.path.abspath(__file__)))
WT = "/tmp/mut_wt"
SCR = "/tmp/mut_scratch"
SWAP = {ast.Eq: ast.NotEq, ast.NotEq: ast.Eq, ast.Lt: ast.LtE, ast.LtE: ast.Lt, ast.Gt: ast.GtE, ast.GtE: ast.Gt,
        ast.Is: ast.IsNot, ast.IsNot: ast.Is, ast.In: ast.NotIn, ast.NotIn: ast.In}


def sh(cmd, cwd=None, env=None, timeout=3600):
    e = dict(os.environ)
    if env:
        e.update(env)
    try:
        p = subprocess.run(cmd, shell=True, cwd=cwd, env=e, stdout=subprocess.PIPE, stderr=subprocess.STDOUT, timeout=timeout)
    except subprocess.TimeoutExpired:
        return 124, "timeout"
    return p.returncode, p.stdout.decode(errors="replace")


def sites(tree):
    out = []
    for node in ast.walk(tree):
        if isinstance(node, ast.Compare):
            for i, op in enumerate(node.ops):
                if type(op) in SWAP:
                    out.append(("cmp", node, i))
        elif isinstance(node, ast.BoolOp):
            out.append(("bool", node, 0))
        elif isinstance(node, ast.BinOp) and isinstance(node.op, (ast.Add, ast.Sub)):
            out.append(("arith", node, 0))
        elif isinstance(node, ast.Constant) and isinstance(node.value, bool):
            out.append(("const_bool", node, 0))
        elif isinstance(node, ast.Constant) and isinstance(node.value, int) and 0 <= node.value <= 4:
            out.append(("const_int", node, 0))
        elif isinstance(node, ast.UnaryOp) and isinstance(node.op, ast.Not):
            out.append(("not", node, 0))
        elif isinstance(node, (ast.If, ast.While)) and not isinstance(node.test, ast.Constant):
            out.append(("cond_true", node, 0))
            out.append(("cond_false", node, 0))
    return out


def apply(kind, node, i):
    if kind == "cmp":
        node.ops[i] = SWAP[type(node.ops[i])]()
    elif kind == "bool":
        node.op = ast.Or() if isinstance(node.op, ast.And) else ast.And()
    elif kind == "arith":
        node.op = ast.Sub() if isinstance(node.op, ast.Add) else ast.Add()
    elif kind == "const_bool":
        node.value = not node.value
    elif kind == "const_int":
        node.value = node.value + 1
    elif kind == "not":
        node.op = ast.UAdd()    # `not x` -> `+x` is wrong for non-numbers; replace the node's operand semantics instead
        return "skip"
    elif kind == "cond_true":
        node.test = ast.Constant(True)
    elif kind == "cond_false":
        node.test = ast.Constant(False)
    return None


def main():
    maxn, seed, outp = int(sys.argv[1]), int(sys.argv[2]), sys.argv[3]
    rng = random.Random(seed)
    sh("git -C /repo worktree remove --force %s" % WT)
    sh("git -C /repo worktree add -q --detach %s HEAD" % WT)
    files = []
    for d, _, fs in os.walk(os.path.join(WT, "cfinterface")):
        for f in fs:
            if f.endswith(".py") and f != "__init__.py":
                files.append(os.path.join(d, f))
    allsites = []
    for f in sorted(files):
        tree = ast.parse(open(f).read())
        for k, (kind, node, i) in enumerate(sites(tree)):
            if kind == "not":
                continue
            allsites.append((f, k, kind, getattr(node, "lineno", 0)))
    rng.shuffle(allsites)
    man = json.load(open(os.path.join(VERIF, "MANIFEST.json")))
    ids = [c["property_id"] for c in man["checks"]]
    results = []
    if os.path.exists(outp):
        results = json.load(open(outp))
    done = {(r["file"], r["site"]) for r in results}
    for f, k, kind, line in allsites[:maxn]:
        rel = os.path.relpath(f, WT)
        if (rel, k) in done:
            continue
        src = open(f).read()
        tree = ast.parse(src)
        kind2, node, i = [s for s in sites(tree)][k]
        apply(kind2, node, i)
        try:
            new = ast.unparse(tree)
        except Exception:
            continue
        open(f, "w").write(new + "\n")
        rec = {"file": rel, "site": k, "kind": kind, "line": line, "orig": src.splitlines()[line - 1].strip() if line else ""}
        rc, out = sh("timeout -k 5 120 /venv/bin/python -m pytest -q -x -p no:cacheprovider 2>&1 | tail -1", cwd=WT, env={"PYTHONPATH": WT, "PYTHONDONTWRITEBYTECODE": "1"}, timeout=600)
        rec["tests"] = out.strip()[-60:]
        if "180 passed" in out:
            import concurrent.futures

            def one(pid):
                rc, o = sh("timeout -k 5 900 ./check %s --tier quick" % pid, cwd=VERIF, timeout=3000,
                           env={"CFI_REPO": WT, "VERIF_SCRATCH": SCR, "VERIF_EVIDENCE_DIR": SCR + "/ev", "VERIF_JOBS": "2"})
                v = [l for l in o.splitlines() if l.startswith("VIOLATION")]
                return pid, rc, bool(v) and all("no-failing-input-found" in l for l in v)
            with concurrent.futures.ThreadPoolExecutor(max_workers=10) as ex:
                res = list(ex.map(one, ids))
            rec["survived_tests"] = True
            rec["caught_by"] = [p for p, rc, _ in res if rc != 0]
            rec["only_nfif"] = [p for p, rc, nf in res if rc != 0 and nf]
        else:
            rec["survived_tests"] = False
        open(f, "w").write(src)
        results.append(rec)
        json.dump(results, open(outp, "w"), indent=1)
        print(rel, line, kind, "tests:", "pass" if rec["survived_tests"] else "fail", "caught_by:", rec.get("caught_by"), flush=True)
    sh("git -C /repo worktree remove --force %s" % WT)
    shutil.rmtree(SCR, ignore_errors=True)


if __name__ == "__main__":
    main()
