"""The per-property check protocol (DESIGN.md section 3.5), shared by all properties.

A property module defines a subclass of Check with:
  pid, entry (model entry-point name), theorems (names in coq/Properties/<pid>.v)
  gen(tier, rng)        -> iterable of cases (JSON-able dicts); corpus cases come first
  impl(case)            -> canonical observation of the implementation (JSON-able)
  model_arg(case)       -> sx-encodable argument for the model entry point
  model_obs(case, res)  -> canonical observation decoded from the model's result
  oracle(case, obs)     -> None if the property (as stated in properties.jsonl) holds on this
                           observation of the implementation, else a short reason string
  nontrivial(case, obs) -> bool
  neighbours(case, rng) -> iterable of cases around a differing case (for the failing-input search)
  shrink(case)          -> iterable of smaller candidate cases
  signature(case, why)  -> string identifying the kind of failure (for known_findings.json)
  classify(case)        -> dict of counters describing the input distribution
"""
import json
import os
import random
import subprocess
import sys
import time
import traceback
import re
import glob

from . import lib

ALLOWED_AXIOMS = {
    # standard-library axioms the development may depend on (named in DESIGN.md section 5)
    "ClassicalDedekindReals.sig_not_dec",
    "ClassicalDedekindReals.sig_forall_dec",
    "FunctionalExtensionality.functional_extensionality_dep",
    "Classical_Prop.classic",
}

FORBIDDEN = re.compile(
    r"\bAdmitted\b|\badmit\b|\bAxiom\b|\bAxioms\b|\bParameter\b|\bParameters\b|\bConjecture\b|"
    r"Unset\s+Guard|bypass_check|type-in-type|impredicative-set|Admit\s+Obligations|Unset\s+Universe|Unset\s+Positivity"
)


def strip_coq_comments(src):
    out = []
    depth = 0
    i = 0
    n = len(src)
    while i < n:
        if src.startswith("(*", i):
            depth += 1
            i += 2
        elif src.startswith("*)", i) and depth > 0:
            depth -= 1
            i += 2
        else:
            if depth == 0:
                out.append(src[i])
            i += 1
    return "".join(out)


class Check:
    pid = None
    entry = None
    theorems = []
    level = "proof"
    rule = ""
    assumptions = []
    not_exhibited = []
    exhaustive = False

    # ---- defaults
    def nontrivial(self, case, obs):
        return True

    def neighbours(self, case, rng):
        return []

    def shrink(self, case):
        return []

    def signature(self, case, why):
        return why

    def classify(self, case):
        return {}

    def model_obs(self, case, res):
        return res

    def compare(self, case, iobs, mobs):
        """None if implementation and model agree on this case, else a description."""
        if iobs == mobs:
            return None
        return "impl=%s model=%s" % (json.dumps(iobs)[:300], json.dumps(mobs)[:300])

    def entry_of(self, case):
        return self.entry

    def extra(self, tier, seed):
        """additional tie between the model and the runtime; returns {"evaluations": n, "problems": [...], "what": str}"""
        return None

    def comparable(self, case):
        """False when the case is inside the property's domain but outside the MODEL's (an unmodelled external such as the C
        library's log10 decides the behaviour): the direct oracle still judges it, the model comparison is skipped (counted)."""
        return True

    def in_domain(self, case, mobs):
        """False when the model says the case is outside the property's domain (counted, skipped)."""
        return True


# ------------------------------------------------------------------ proof gate
def coqchk_gate(pid):
    """thorough tier: independent re-check of the compiled property file and everything it depends on"""
    t0 = time.time()
    try:
        q = subprocess.run(["coqchk", "-silent", "-o", "-R", lib.COQDIR, "Cfi", "Cfi.Properties." + pid],
                           stdout=subprocess.PIPE, stderr=subprocess.STDOUT, timeout=3000, cwd=lib.COQDIR)
    except Exception as e:
        return {"ok": False, "summary": "coqchk failed to run: %s" % e, "wall_s": round(time.time() - t0, 1)}
    out = q.stdout.decode(errors="replace")
    i = out.find("CONTEXT SUMMARY")
    summary = out[i:] if i >= 0 else out[-800:]
    axioms = re.findall(r"^\s{4,}([A-Za-z_][A-Za-z0-9_.']*)\s*$", summary.split("* Axioms:")[1].split("* Constants")[0], flags=re.M) if "* Axioms:" in summary else []
    # coqchk lists the axioms of EVERY loaded library (e.g. the primitive-float specifications pulled in by Flocq), used or not;
    # what the theorems actually depend on is what Print Assumptions reports. Here the gate is: nothing declared by this
    # development, and none of the kernel's checks switched off.
    bad = [a for a in axioms if a.startswith("Cfi.")]
    ok = q.returncode == 0 and not bad and "type-in-type: <none>" in summary and "unsafe (co)fixpoints: <none>" in summary \
        and "positivity is assumed: <none>" in summary
    return {"ok": ok, "summary": summary.strip()[:400], "axioms_of_loaded_libraries": axioms, "declared_by_this_development": bad, "wall_s": round(time.time() - t0, 1)}


def proof_gate(pid, theorems, files=None):
    """A. of the protocol (a property may spread its statements over several files, e.g. C01.v and C01real.v)."""
    files = files or [pid]
    if len(files) == 1:
        return proof_gate1(files[0], theorems)
    merged = {"ok": True, "problems": [], "obligations": len(theorems), "discharged": 0, "axioms": {}, "wall_s": 0}
    import re as _re
    for fn in files:
        vfile = os.path.join(lib.COQDIR, "Properties", fn + ".v")
        src = strip_coq_comments(open(vfile).read()) if os.path.exists(vfile) else ""
        stated = _re.findall(r"^\s*(?:Theorem|Lemma|Corollary)\s+([A-Za-z0-9_']+)", src, flags=_re.M)
        g = proof_gate1(fn, [t for t in theorems if t in stated])
        merged["ok"] = merged["ok"] and g["ok"]
        merged["problems"] += g["problems"]
        merged["discharged"] += g["discharged"]
        merged["axioms"].update(g["axioms"])
        merged["wall_s"] += g["wall_s"]
        theorems_here = set(stated)
    all_stated = set()
    for fn in files:
        vfile = os.path.join(lib.COQDIR, "Properties", fn + ".v")
        if os.path.exists(vfile):
            all_stated.update(_re.findall(r"^\s*(?:Theorem|Lemma|Corollary)\s+([A-Za-z0-9_']+)", strip_coq_comments(open(vfile).read()), flags=_re.M))
    for t in theorems:
        if t not in all_stated:
            merged["ok"] = False
            merged["problems"].append("theorem %s not stated in any of %s" % (t, files))
    return merged


def proof_gate1(pid, theorems):
    """A. of the protocol: the property file is compiled against the current model sources, its
    Print Assumptions output lists only allow-listed axioms, the sources contain no escape hatch."""
    t0 = time.time()
    problems = []
    vfile = os.path.join(lib.COQDIR, "Properties", pid + ".v")
    vo = vfile + "o"
    if not os.path.exists(vfile):
        return {"ok": False, "problems": ["missing " + vfile], "obligations": 0, "discharged": 0, "axioms": {}, "wall_s": 0}
    # up to date?  (make is a no-op when nothing changed)
    p = subprocess.run(
        ["make", "-s", "-C", lib.VERIF, "coq", "J=16"], stdout=subprocess.PIPE, stderr=subprocess.STDOUT, timeout=3000
    )
    if p.returncode != 0:
        problems.append("coq build failed: " + p.stdout.decode()[-600:])
    if not os.path.exists(vo):
        problems.append("not compiled: " + vo)
    # assumptions (re-captured when stale)
    adir = os.path.join(lib.WORK, "assumptions")
    os.makedirs(adir, exist_ok=True)
    afile = os.path.join(adir, pid + ".txt")
    if os.path.exists(vo) and (not os.path.exists(afile) or os.path.getmtime(afile) < os.path.getmtime(vo)):
        q = subprocess.run(
            ["coqc", "-R", lib.COQDIR, "Cfi", "-o", os.path.join(adir, pid + ".vo"), vfile],
            stdout=subprocess.PIPE, stderr=subprocess.PIPE, timeout=1500, cwd=adir,
        )
        if q.returncode == 0:
            with open(afile, "w") as f:
                f.write(q.stdout.decode())
        else:
            problems.append("Print Assumptions run failed: " + q.stderr.decode()[-400:])
        for ext in (".vo", ".glob", ".vok", ".vos"):
            try:
                os.remove(os.path.join(adir, pid + ext))
            except OSError:
                pass
    axioms = {}
    discharged = 0
    src = strip_coq_comments(open(vfile).read())
    stated = re.findall(r"^\s*(?:Theorem|Lemma|Corollary)\s+([A-Za-z0-9_']+)", src, flags=re.M)
    printed = re.findall(r"Print\s+Assumptions\s+([A-Za-z0-9_']+)\s*\.", src)
    for t in theorems:
        if t not in stated:
            problems.append("theorem %s not stated in %s" % (t, vfile))
        if t not in printed:
            problems.append("no Print Assumptions for %s" % t)
    if os.path.exists(afile):
        txt = open(afile).read()
        # blocks are printed in order of the Print Assumptions commands
        blocks = re.split(r"(?=^Closed under the global context|^Axioms:)", txt, flags=re.M)
        blocks = [b for b in blocks if b.startswith("Closed") or b.startswith("Axioms:")]
        if len(blocks) != len(printed):
            problems.append("expected %d assumption blocks, found %d" % (len(printed), len(blocks)))
        for name, b in zip(printed, blocks):
            if b.startswith("Closed"):
                axioms[name] = []
            else:
                names = re.findall(r"^([A-Za-z_][A-Za-z0-9_.']*)\s*:", b, flags=re.M)
                names = [n for n in names if n != "Axioms"]
                axioms[name] = names
                for n in names:
                    if n not in ALLOWED_AXIOMS and not n.startswith(("PrimInt63.", "PrimFloat.", "Uint63.", "Sint63.")):
                        problems.append("theorem %s depends on non-allow-listed axiom %s" % (name, n))
            if name in theorems:
                discharged += 1
    else:
        problems.append("no assumptions file")
    # source scan over the whole development
    for f in glob.glob(os.path.join(lib.COQDIR, "**", "*.v"), recursive=True):
        s = strip_coq_comments(open(f).read())
        m = FORBIDDEN.search(s)
        if m:
            problems.append("forbidden construct %r in %s" % (m.group(0), os.path.relpath(f, lib.VERIF)))
    return {
        "ok": not problems,
        "problems": problems,
        "obligations": len(theorems),
        "discharged": discharged if not problems else min(discharged, max(0, len(theorems) - 1)),
        "axioms": axioms,
        "wall_s": round(time.time() - t0, 2),
    }


# ------------------------------------------------------------------ known findings
def load_known():
    p = os.path.join(lib.VERIF, "known_findings.json")
    if not os.path.exists(p):
        return []
    return json.load(open(p)).get("findings", [])


def is_known(pid, sig):
    for k in load_known():
        if k.get("property") == pid and k.get("status") == "known" and k.get("signature") == sig:
            return k
    return None


# ------------------------------------------------------------------ runner
def _safe_impl(chk, case):
    try:
        return chk.impl(case)
    except Exception as e:  # an exception the runner did not canonicalise
        return {"harness_exception": type(e).__name__ + ": " + str(e)[:200], "tb": traceback.format_exc()[-600:]}


def judge(chk, case, obs):
    """the property oracle, fail-closed: an exception the implementation runner did not expect is a failure of the case (on the
    unchanged tree that would be a bug of the harness, and must be seen), and so is an oracle that cannot judge"""
    if isinstance(obs, dict) and "harness_exception" in obs:
        return "the call raised an exception the runner does not expect: %s" % obs["harness_exception"]
    try:
        return chk.oracle(case, obs)
    except Exception as e:
        return "the oracle could not judge the observation (%s: %s)" % (type(e).__name__, str(e)[:120])


def write_replay(pid, kind, case, extra):
    d = os.path.join(lib.SCRATCH, "replay")
    os.makedirs(d, exist_ok=True)
    h = lib.hashlib.sha1(json.dumps([kind, case, extra.get("why")], sort_keys=True, default=str).encode()).hexdigest()[:12]
    path = os.path.join(d, "%s-%s.json" % (pid, h))
    with open(path, "w") as f:
        json.dump({"property": pid, "kind": kind, "case": case, **extra}, f, indent=1, default=str)
    return path


def run_check(chk, tier, seed, replay=None, max_report=5):
    t0 = time.time()
    lib.pin_environment()
    pid = chk.pid
    rng = random.Random("%s-%d-%s" % (pid, seed, tier))
    out_lines = []
    violations = 0
    known_hits = []

    if replay:
        data = json.load(open(replay))
        case = data["case"]
        iobs = _safe_impl(chk, case)
        print("case:", json.dumps(case)[:2000])
        print("implementation:", json.dumps(iobs, default=str)[:2000])
        if chk.entry and not chk.comparable(case):
            print("model: not run (the case is outside the model's input language; judged by the oracle only)")
        elif chk.entry:
            res = lib.run_model(chk.entry_of(case), [chk.model_arg(case)])[0]
            mobs = chk.model_obs(case, res)
            print("model:", json.dumps(mobs, default=str)[:2000])
            print("correspondence:", chk.compare(case, iobs, mobs) or "agree")
        why = chk.oracle(case, iobs)
        print("oracle:", why or "property holds on this case")
        return 1 if why else 0

    for old in glob.glob(os.path.join(lib.SCRATCH, "replay", pid + "-*.json")):
        try:
            os.remove(old)
        except OSError:
            pass
    pfiles = getattr(chk, "property_files", None) or [pid]
    gate = proof_gate(pid, chk.theorems, pfiles)
    chk_res = None
    if tier == "thorough":
        gate["coqchk"] = {}
        for fn in pfiles:
            chk_res = coqchk_gate(fn)
            gate["coqchk"][fn] = chk_res
            if not chk_res["ok"]:
                gate["ok"] = False
                gate["problems"].append("coqchk %s: %s" % (fn, chk_res["summary"][:300]))

    # ---- cases
    cases = list(chk.gen(tier, rng))
    dist = {}
    for c in cases:
        for k, v in chk.classify(c).items():
            dist[k] = dist.get(k, 0) + (1 if v is True else int(v))
    iobs = [_safe_impl(chk, c) for c in cases]
    model_error = None
    mobs = [None] * len(cases)
    if chk.entry:
        try:
            # cases outside the model's input language (comparable() false) are judged by the oracle only: no model run for them
            midx = [i for i, c in enumerate(cases) if chk.comparable(c)]
            res = lib.run_model([chk.entry_of(cases[i]) for i in midx], [chk.model_arg(cases[i]) for i in midx])
            for i, r in zip(midx, res):
                mobs[i] = chk.model_obs(cases[i], r)
        except Exception as e:
            model_error = "%s: %s" % (type(e).__name__, str(e)[:400])

    skipped = 0
    outside_model = 0
    diffs = []
    oracle_fail = []
    seen = set()
    distinct_nt = 0
    for i, c in enumerate(cases):
        if mobs[i] is not None and not chk.in_domain(c, mobs[i]):
            skipped += 1
            continue
        h = lib.hashlib.sha1(json.dumps(c, sort_keys=True, default=str).encode()).hexdigest()
        if h not in seen:
            seen.add(h)
            if chk.nontrivial(c, iobs[i]):
                distinct_nt += 1
        why = judge(chk, c, iobs[i])
        if why:
            oracle_fail.append((i, why))
        if chk.entry and model_error is None:
            if not chk.comparable(c):
                outside_model += 1
                continue
            d = chk.compare(c, iobs[i], mobs[i])
            if d:
                diffs.append((i, d))

    # ---- in-kernel cross-check of extraction + driver (sample)
    kernel_checked = 0
    kernel_problem = None
    if chk.entry and model_error is None and cases:
        k = 200 if tier == "thorough" else 24
        pool = [i for i in range(len(cases)) if mobs[i] is not None]
        idx = sorted(rng.sample(pool, min(k, len(pool))))
        try:
            kres = lib.run_model_in_coq([chk.entry_of(cases[i]) for i in idx], [chk.model_arg(cases[i]) for i in idx], pid)
            for i, r in zip(idx, kres):
                kernel_checked += 1
                if chk.model_obs(cases[i], r) != mobs[i]:
                    kernel_problem = "vm_compute and extracted driver differ on case %d" % i
                    break
        except Exception as e:
            kernel_problem = "%s: %s" % (type(e).__name__, str(e)[:300])

    # ---- extra ties (e.g. primitive-level correspondence of the model's CPython/numpy primitives)
    extra = None
    try:
        extra = chk.extra(tier, seed)
    except Exception as e:
        extra = {"evaluations": 0, "problems": ["%s: %s" % (type(e).__name__, str(e)[:200])], "what": "extra tie failed to run"}

    # ---- C. failing-input search
    reported = set()

    def report_failure(case, why, obs):
        nonlocal violations
        # shrink
        cur, cur_why, cur_obs = case, why, obs
        improved = True
        steps = 0
        while improved and steps < 400:
            improved = False
            for cand in chk.shrink(cur):
                steps += 1
                o = _safe_impl(chk, cand)
                w = judge(chk, cand, o)
                if w and chk.signature(cand, w) == chk.signature(cur, cur_why):
                    cur, cur_why, cur_obs = cand, w, o
                    improved = True
                    break
                if steps >= 400:
                    break
        sig = chk.signature(cur, cur_why)
        if sig in reported:
            return
        reported.add(sig)
        k = is_known(pid, sig)
        if k:
            known_hits.append(sig)
            out_lines.append("KNOWN-FINDING: property=%s %s" % (pid, k.get("description", sig)))
            return
        violations += 1
        if violations <= max_report:
            path = write_replay(pid, "failing-input", cur, {"why": cur_why, "implementation": cur_obs, "signature": sig,
                                                           "contradicts": chk.theorems})
            out_lines.append("VIOLATION property=%s replay=%s" % (pid, path))

    for i, why in oracle_fail:
        report_failure(cases[i], why, iobs[i])

    searched = 0
    if (diffs or not gate["ok"] or model_error or kernel_problem) and violations == 0:
        # neighbourhood search around the differing cases
        for i, d in diffs[:50]:
            for cand in chk.neighbours(cases[i], rng):
                searched += 1
                o = _safe_impl(chk, cand)
                w = judge(chk, cand, o)
                if w:
                    report_failure(cand, w, o)
                    break
            if violations:
                break
    unresolved = None
    if violations == 0:
        # differing cases all explained by known findings?  (a diff whose case triggers a known signature)
        if not gate["ok"]:
            unresolved = ("proof-gate", {"theorems": chk.theorems, "problems": gate["problems"]})
        elif model_error:
            unresolved = ("model-run", {"error": model_error})
        elif kernel_problem:
            unresolved = ("kernel-crosscheck", {"error": kernel_problem})
        elif extra and extra.get("problems"):
            unresolved = ("primitive-correspondence", {"what": extra.get("what"), "problems": extra["problems"][:5]})
        elif diffs:
            i, d = diffs[0]
            unresolved = ("correspondence", {"first_differing_case": cases[i], "difference": d,
                                             "differing_cases": len(diffs), "entry": chk.entry})
        # a recorded finding never explains a model/implementation difference: the model reproduces every recorded finding
        # (its *_refuted theorem), so a differing case is something else
        if unresolved:
            violations += 1
            path = write_replay(pid, unresolved[0], unresolved[1].get("first_differing_case"),
                                {"why": "no failing input found; the %s no longer checks" % unresolved[0],
                                 "detail": unresolved[1], "theorems": chk.theorems})
            out_lines.append("VIOLATION property=%s replay=%s no-failing-input-found" % (pid, path))

    # ---- evidence
    samples = []
    for i in list(range(min(2, len(cases)))) + ([len(cases) // 2, len(cases) - 1] if len(cases) > 4 else []):
        samples.append({"case": cases[i], "implementation": iobs[i], "model": mobs[i]})
    ev = {
        "property_id": pid,
        "tier": tier,
        "seed": seed,
        "level": chk.level,
        "coverage": {
            "obligations": gate["obligations"],
            "discharged": gate["discharged"],
            "checker_cmd": "make -C /verif coq  (coq_makefile full .vo build, coqc 8.16.1) ; coqc coq/Properties/{%s}.v with Print Assumptions" % ",".join(pfiles),
            "trusted_base": [
                "Coq 8.16.1 kernel incl. vm_compute (no native_compute)",
                "axioms per theorem as printed by Print Assumptions: " + json.dumps(gate["axioms"]),
                "hand-written Gallina model of the code (coq/Model, coq/Py), tied to /repo by the correspondence check of this run",
                "extraction (ExtrOcamlBasic only, no Extract Constant) + ocaml/driver.ml, cross-checked in-kernel on %d cases this run" % kernel_checked,
                "Python harness: generators, implementation runner (public API), canonicaliser, property oracle",
            ],
            "theorems": chk.theorems,
            "coqchk": gate.get("coqchk"),
            "proof_gate_ok": gate["ok"],
            "proof_gate_problems": gate["problems"],
            "evaluations": len(cases),
            "distinct_nontrivial": distinct_nt,
            "rule": chk.rule,
            "samples": samples,
            "skipped_out_of_domain": skipped,
            "judged_by_oracle_only_outside_model": outside_model,
            "correspondence_differences": len(diffs),
            "oracle_failures": len(oracle_fail),
            "kernel_crosschecked": kernel_checked,
            "neighbourhood_searched": searched,
            "extra_tie": extra,
            "input_distribution": dist,
            "known_findings_hit": known_hits,
            "exhaustive": bool(chk.exhaustive),
            "not_exhibited_by_model": chk.not_exhibited,
        },
        "assumptions": chk.assumptions,
        "wall_s": round(time.time() - t0, 2),
        "violations": violations,
    }
    os.makedirs(lib.EVIDENCE, exist_ok=True)
    with open(os.path.join(lib.EVIDENCE, pid + ".json"), "w") as f:
        json.dump(ev, f, indent=1, default=str)
    for l in out_lines:
        print(l)
    print("%s tier=%s seed=%d cases=%d distinct_nontrivial=%d skipped=%d diffs=%d oracle_failures=%d gate=%s kernel=%d wall=%.1fs"
          % (pid, tier, seed, len(cases), distinct_nt, skipped, len(diffs), len(oracle_fail),
             "ok" if gate["ok"] else "FAILED", kernel_checked, time.time() - t0))
    return 1 if violations else 0
