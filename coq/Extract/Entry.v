(* Dispatch table of the model entry points used by the correspondence check. *)
From Coq Require Import ZArith NArith List String.
From Cfi Require Import Py.PyStr Py.PyCodec Py.PyRe.
From Cfi Require Import Glue.Sx Model.Version Model.Dll Model.DllRun Py.PrimEntry Model.LineRun Model.ReaderRun Model.IO Model.View Model.World.
Import ListNotations.
Open Scope string_scope.

(* C16: (encoding text) -> what is on disk after writing text with the declared encoding, and what a text-mode read of those
   bytes returns (decoded, newlines translated) *)
Definition run_C16 (arg : sx) : sx :=
  match encoding_of_Z (sxZ (sxnth 0 arg)) with
  | Some e =>
      let b := encode_with e (sxS (sxnth 1 arg)) in
      L [Sopt (fun l => L (map SN l)) b;
         Sopt Sstr (match b with Some bs => option_map translate_nl (decode_with e bs) | None => None end)]
  | None => L [I (-998)%Z]
  end.

Definition entries : list (string * (sx -> sx)) :=
  [ ("C19", run_C19);
    ("C19seq", fun a => L (map run_C19 (sxL a)));
    ("C07", run_C07); ("C08", run_C08); ("C15", run_C15);
    ("PRIM", run_prim); ("RE", run_RE); ("CODEC", run_codec); ("C16", run_C16);
    ("FIELD", run_field); ("LINE", run_line);
    ("REGFILE", run_regfile); ("REGSTREAM", run_regstream); ("BLOCKFILE", run_blockfile); ("SECTIONFILE", run_sectionfile);
    ("C17", run_C17); ("C20", run_C20); ("C14", run_C14) ].

Fixpoint find_entry (name : str) (es : list (string * (sx -> sx))) : option (sx -> sx) :=
  match es with
  | [] => None
  | (n, f) :: r => if str_eqb name (s2l n) then Some f else find_entry name r
  end.

(* unknown entry: distinguished error value *)
Definition dispatch (name : str) (arg : sx) : sx :=
  match find_entry name entries with
  | Some f => f arg
  | None => L [I (-999)%Z]
  end.
