(* Extraction of the executable model. ExtrOcamlBasic only: Z, N, positive, nat, ascii and
   string stay the extracted Coq inductives; no Extract Constant. *)
Require Extraction.
Require Import ExtrOcamlBasic.
From Cfi Require Import Glue.Sx Extract.Entry.
Extraction Blacklist List String Int.
Extraction "model.ml" dispatch.
