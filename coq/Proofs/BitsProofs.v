(* Proofs about the binary encodings: C09. *)
From Coq Require Import ZArith NArith List Bool Arith Lia.
From Coq Require Import Floats.SpecFloat.
From Cfi Require Import Glue.Sx Py.PyStr Py.PyNum Py.PyBits Py.PyDate Model.Field Model.Line.
Import ListNotations.

Definition is_byte (b : N) : Prop := (b < 256)%N.

(* ===================================================================== *)
(* little-endian bytes                                                    *)
(* ===================================================================== *)

Lemma bp_pow8_succ : forall n : nat,
  (2 ^ (8 * Z.of_nat (S n)) = 256 * 2 ^ (8 * Z.of_nat n))%Z.
Proof.
  intros n.
  replace (8 * Z.of_nat (S n))%Z with (8 + 8 * Z.of_nat n)%Z by lia.
  rewrite Z.pow_add_r by lia.
  replace (2 ^ 8)%Z with 256%Z by reflexivity.
  reflexivity.
Qed.

Lemma bp_pow8_pos : forall n : nat, (0 < 2 ^ (8 * Z.of_nat n))%Z.
Proof.
  intros n. apply Z.pow_pos_nonneg; lia.
Qed.

Theorem le_bytes_length : forall n z, length (le_bytes n z) = n.
Proof.
  intros n. induction n as [|n IHn]; intros z.
  - reflexivity.
  - cbn [le_bytes length]. rewrite IHn. reflexivity.
Qed.

Theorem le_bytes_bytes : forall n z, Forall is_byte (le_bytes n z).
Proof.
  intros n. induction n as [|n IHn]; intros z.
  - constructor.
  - cbn [le_bytes]. constructor.
    + unfold is_byte.
      assert (Hm : (0 <= z mod 256 < 256)%Z) by (apply Z.mod_pos_bound; lia).
      lia.
    + apply IHn.
Qed.

Theorem le_value_le_bytes : forall n z, (0 <= z < 2 ^ (8 * Z.of_nat n))%Z -> le_value (le_bytes n z) = z.
Proof.
  intros n. induction n as [|n IHn]; intros z Hz.
  - cbn [le_bytes le_value].
    replace (8 * Z.of_nat 0)%Z with 0%Z in Hz by lia.
    replace (2 ^ 0)%Z with 1%Z in Hz by reflexivity. lia.
  - cbn [le_bytes le_value].
    rewrite bp_pow8_succ in Hz.
    assert (Hm : (0 <= z mod 256 < 256)%Z) by (apply Z.mod_pos_bound; lia).
    assert (Hdm : (z = 256 * (z / 256) + z mod 256)%Z) by (apply Z.div_mod; lia).
    assert (Hq : (0 <= z / 256 < 2 ^ (8 * Z.of_nat n))%Z).
    { split.
      - apply Z.div_pos; lia.
      - apply Z.div_lt_upper_bound; lia. }
    rewrite IHn by exact Hq.
    rewrite Z2N.id by lia. lia.
Qed.

Theorem le_value_range : forall bs, Forall is_byte bs -> (0 <= le_value bs < 2 ^ (8 * Z.of_nat (length bs)))%Z.
Proof.
  intros bs Hbs. induction Hbs as [|b r Hb Hr IH].
  - cbn [le_value length].
    replace (8 * Z.of_nat 0)%Z with 0%Z by lia.
    replace (2 ^ 0)%Z with 1%Z by reflexivity. lia.
  - cbn [le_value length]. rewrite bp_pow8_succ.
    unfold is_byte in Hb. lia.
Qed.

Theorem le_bytes_le_value : forall bs, Forall is_byte bs -> le_bytes (length bs) (le_value bs) = bs.
Proof.
  intros bs Hbs. induction Hbs as [|b r Hb Hr IH].
  - reflexivity.
  - cbn [le_value length le_bytes].
    unfold is_byte in Hb.
    assert (Hb' : (0 <= Z.of_N b < 256)%Z) by lia.
    replace (Z.of_N b + 256 * le_value r)%Z with (Z.of_N b + le_value r * 256)%Z by lia.
    rewrite Z.mod_add by lia.
    rewrite Z.div_add by lia.
    rewrite Z.mod_small by exact Hb'.
    rewrite Z.div_small by exact Hb'.
    rewrite Z.add_0_l. rewrite N2Z.id. rewrite IH. reflexivity.
Qed.

(* ===================================================================== *)
(* integers                                                               *)
(* ===================================================================== *)

Lemma bp_pow_half : forall w, (0 < w)%Z -> (2 ^ w = 2 * 2 ^ (w - 1))%Z.
Proof.
  intros w Hw.
  replace w with (Z.succ (w - 1)) at 1 by lia.
  apply Z.pow_succ_r. lia.
Qed.

Lemma bp_firstn_length_all : forall (A : Type) (l : list A), firstn (length l) l = l.
Proof.
  intros A l. apply firstn_all.
Qed.

Lemma bp_ltb_refl_false : forall n, Nat.ltb n n = false.
Proof.
  intros n. apply Nat.ltb_irrefl.
Qed.

(* the signed value an n-byte pattern denotes, decoded from the unsigned value *)
Lemma bp_int_dec_exact : forall bs,
  int_dec (length bs) bs =
  Some (if (le_value bs <? 2 ^ (8 * Z.of_nat (length bs) - 1))%Z then le_value bs
        else (le_value bs - 2 ^ (8 * Z.of_nat (length bs)))%Z).
Proof.
  intros bs. unfold int_dec.
  rewrite bp_ltb_refl_false. rewrite bp_firstn_length_all. reflexivity.
Qed.

Theorem int_bin_roundtrip : forall n z, (0 < n)%nat ->
  (- 2 ^ (8 * Z.of_nat n - 1) <= z < 2 ^ (8 * Z.of_nat n - 1))%Z ->
  exists bs, int_enc n z = Some bs /\ length bs = n /\ Forall is_byte bs /\ int_dec n bs = Some z.
Proof.
  intros n z Hn Hz.
  exists (le_bytes n (z mod 2 ^ (8 * Z.of_nat n))).
  assert (Hw : (0 < 8 * Z.of_nat n)%Z) by lia.
  assert (Hhalf : (2 ^ (8 * Z.of_nat n) = 2 * 2 ^ (8 * Z.of_nat n - 1))%Z)
    by (apply bp_pow_half; exact Hw).
  assert (Hpos : (0 < 2 ^ (8 * Z.of_nat n - 1))%Z) by (apply Z.pow_pos_nonneg; lia).
  assert (Hm : (0 <= z mod 2 ^ (8 * Z.of_nat n) < 2 ^ (8 * Z.of_nat n))%Z)
    by (apply Z.mod_pos_bound; lia).
  split; [|split; [|split]].
  - unfold int_enc.
    assert (H1 : (- 2 ^ (8 * Z.of_nat n - 1) <=? z)%Z = true) by (apply Z.leb_le; lia).
    assert (H2 : (z <? 2 ^ (8 * Z.of_nat n - 1))%Z = true) by (apply Z.ltb_lt; lia).
    rewrite H1, H2. reflexivity.
  - apply le_bytes_length.
  - apply le_bytes_bytes.
  - pose proof (bp_int_dec_exact (le_bytes n (z mod 2 ^ (8 * Z.of_nat n)))) as Hd.
    rewrite le_bytes_length in Hd. rewrite Hd.
    rewrite le_value_le_bytes by exact Hm.
    f_equal.
    destruct (Z_lt_le_dec z 0) as [Hneg|Hnn].
    + assert (Hmz : (z mod 2 ^ (8 * Z.of_nat n) = z + 2 ^ (8 * Z.of_nat n))%Z).
      { symmetry. apply Z.mod_unique with (q := (-1)%Z); lia. }
      rewrite Hmz.
      assert (Hf : (z + 2 ^ (8 * Z.of_nat n) <? 2 ^ (8 * Z.of_nat n - 1))%Z = false)
        by (apply Z.ltb_ge; lia).
      rewrite Hf. lia.
    + rewrite Z.mod_small by lia.
      assert (Ht : (z <? 2 ^ (8 * Z.of_nat n - 1))%Z = true) by (apply Z.ltb_lt; lia).
      rewrite Ht. reflexivity.
Qed.

Theorem int_bin_patterns : forall bs, bs <> [] -> Forall is_byte bs ->
  exists z, int_dec (length bs) bs = Some z /\ int_enc (length bs) z = Some bs.
Proof.
  intros bs Hne Hbs.
  assert (Hn : (0 < length bs)%nat).
  { destruct bs as [|b r]; [congruence|cbn [length]; lia]. }
  pose proof (le_value_range bs Hbs) as Hr.
  assert (Hw : (0 < 8 * Z.of_nat (length bs))%Z) by lia.
  assert (Hhalf : (2 ^ (8 * Z.of_nat (length bs)) = 2 * 2 ^ (8 * Z.of_nat (length bs) - 1))%Z)
    by (apply bp_pow_half; exact Hw).
  assert (Hpos : (0 < 2 ^ (8 * Z.of_nat (length bs) - 1))%Z) by (apply Z.pow_pos_nonneg; lia).
  rewrite bp_int_dec_exact.
  eexists. split; [reflexivity|].
  unfold int_enc.
  destruct (le_value bs <? 2 ^ (8 * Z.of_nat (length bs) - 1))%Z eqn:Hlt.
  - apply Z.ltb_lt in Hlt.
    assert (H1 : (- 2 ^ (8 * Z.of_nat (length bs) - 1) <=? le_value bs)%Z = true)
      by (apply Z.leb_le; lia).
    assert (H2 : (le_value bs <? 2 ^ (8 * Z.of_nat (length bs) - 1))%Z = true)
      by (apply Z.ltb_lt; lia).
    rewrite H1, H2. cbn [andb].
    rewrite Z.mod_small by lia.
    rewrite le_bytes_le_value by exact Hbs. reflexivity.
  - apply Z.ltb_ge in Hlt.
    assert (H1 : (- 2 ^ (8 * Z.of_nat (length bs) - 1) <=?
                  le_value bs - 2 ^ (8 * Z.of_nat (length bs)))%Z = true)
      by (apply Z.leb_le; lia).
    assert (H2 : (le_value bs - 2 ^ (8 * Z.of_nat (length bs)) <?
                  2 ^ (8 * Z.of_nat (length bs) - 1))%Z = true)
      by (apply Z.ltb_lt; lia).
    rewrite H1, H2. cbn [andb].
    assert (Hmz : ((le_value bs - 2 ^ (8 * Z.of_nat (length bs))) mod 2 ^ (8 * Z.of_nat (length bs))
                   = le_value bs)%Z).
    { symmetry. apply Z.mod_unique with (q := (-1)%Z); lia. }
    rewrite Hmz.
    rewrite le_bytes_le_value by exact Hbs. reflexivity.
Qed.

Theorem int_enc_overflow : forall n z,
  ~ (- 2 ^ (8 * Z.of_nat n - 1) <= z < 2 ^ (8 * Z.of_nat n - 1))%Z -> int_enc n z = None.
Proof.
  intros n z Hz. unfold int_enc.
  destruct ((- 2 ^ (8 * Z.of_nat n - 1) <=? z)%Z && (z <? 2 ^ (8 * Z.of_nat n - 1))%Z) eqn:Hc.
  - exfalso. apply Hz.
    apply andb_true_iff in Hc. destruct Hc as [H1 H2].
    apply Z.leb_le in H1. apply Z.ltb_lt in H2. split; assumption.
  - reflexivity.
Qed.

Theorem int_dec_short : forall n bs, (length bs < n)%nat -> int_dec n bs = None.
Proof.
  intros n bs Hlt. unfold int_dec.
  assert (H : Nat.ltb (length bs) n = true) by (apply Nat.ltb_lt; exact Hlt).
  rewrite H. reflexivity.
Qed.

Lemma bp_firstn_app_exact : forall (A : Type) (a b : list A) n,
  length a = n -> firstn n (a ++ b) = a.
Proof.
  intros A a. induction a as [|x a IHa]; intros b n Hn.
  - cbn [length] in Hn. subst n. reflexivity.
  - cbn [length] in Hn. destruct n as [|n]; [lia|].
    cbn [app firstn]. f_equal. apply IHa. lia.
Qed.

Theorem int_dec_prefix : forall n bs extra, length bs = n -> int_dec n (bs ++ extra) = int_dec n bs.
Proof.
  intros n bs extra Hlen. unfold int_dec.
  assert (H1 : Nat.ltb (length (bs ++ extra)) n = false).
  { apply Nat.ltb_ge. rewrite app_length. lia. }
  assert (H2 : Nat.ltb (length bs) n = false).
  { apply Nat.ltb_ge. lia. }
  rewrite H1, H2.
  rewrite bp_firstn_app_exact by exact Hlen.
  subst n. rewrite bp_firstn_length_all. reflexivity.
Qed.

(* ===================================================================== *)
(* floats                                                                 *)
(* ===================================================================== *)

Theorem float_enc_length : forall n x, length (float_enc n x) = n.
Proof.
  intros n x. unfold float_enc.
  destruct (fmt_of_width n) as [mw ew]. apply le_bytes_length.
Qed.

Theorem float_enc_bytes : forall n x, Forall is_byte (float_enc n x).
Proof.
  intros n x. unfold float_enc.
  destruct (fmt_of_width n) as [mw ew]. apply le_bytes_bytes.
Qed.

Definition fmt_ok (mw ew : Z) : Prop := (mw, ew) = (10, 5)%Z \/ (mw, ew) = (23, 8)%Z \/ (mw, ew) = (52, 11)%Z.
Definition non_nan_bits (mw ew b : Z) : Prop :=
  (0 <= b < 2 ^ (mw + ew + 1))%Z /\ ~ ((b / 2 ^ mw) mod 2 ^ ew = 2 ^ ew - 1 /\ b mod 2 ^ mw <> 0)%Z.

(* the field decomposition of a bit pattern: b = s * 2^(mw+ew) + ex * 2^mw + mant *)
Lemma bp_bits_decompose : forall mw ew b, (0 <= mw)%Z -> (0 <= ew)%Z ->
  (0 <= b < 2 ^ (mw + ew + 1))%Z ->
  (0 <= b mod 2 ^ mw < 2 ^ mw)%Z /\
  (0 <= (b / 2 ^ mw) mod 2 ^ ew < 2 ^ ew)%Z /\
  (0 <= b / 2 ^ (mw + ew) < 2)%Z /\
  (b = (b / 2 ^ (mw + ew)) * 2 ^ (mw + ew) + ((b / 2 ^ mw) mod 2 ^ ew) * 2 ^ mw + b mod 2 ^ mw)%Z.
Proof.
  intros mw ew b Hmw Hew Hb.
  assert (Pm : (0 < 2 ^ mw)%Z) by (apply Z.pow_pos_nonneg; lia).
  assert (Pe : (0 < 2 ^ ew)%Z) by (apply Z.pow_pos_nonneg; lia).
  assert (Hadd : (2 ^ (mw + ew) = 2 ^ mw * 2 ^ ew)%Z) by (apply Z.pow_add_r; lia).
  assert (Hadd1 : (2 ^ (mw + ew + 1) = 2 ^ (mw + ew) * 2)%Z).
  { rewrite (Z.pow_add_r 2 (mw + ew) 1) by lia. reflexivity. }
  assert (Pme : (0 < 2 ^ (mw + ew))%Z) by (apply Z.pow_pos_nonneg; lia).
  assert (Hdiv : (b / 2 ^ (mw + ew) = b / 2 ^ mw / 2 ^ ew)%Z).
  { rewrite Hadd. symmetry. apply Z.div_div; lia. }
  assert (H1 : (0 <= b mod 2 ^ mw < 2 ^ mw)%Z) by (apply Z.mod_pos_bound; exact Pm).
  assert (H2 : (0 <= (b / 2 ^ mw) mod 2 ^ ew < 2 ^ ew)%Z) by (apply Z.mod_pos_bound; exact Pe).
  assert (H3 : (0 <= b / 2 ^ (mw + ew) < 2)%Z).
  { split.
    - apply Z.div_pos; lia.
    - apply Z.div_lt_upper_bound; lia. }
  split; [exact H1|]. split; [exact H2|]. split; [exact H3|].
  pose proof (Z.div_mod b (2 ^ mw)) as E1.
  pose proof (Z.div_mod (b / 2 ^ mw) (2 ^ ew)) as E2.
  assert (E1' : (b = 2 ^ mw * (b / 2 ^ mw) + b mod 2 ^ mw)%Z) by (apply E1; lia).
  assert (E2' : (b / 2 ^ mw = 2 ^ ew * (b / 2 ^ mw / 2 ^ ew) + (b / 2 ^ mw) mod 2 ^ ew)%Z)
    by (apply E2; lia).
  rewrite Hdiv. rewrite Hadd.
  rewrite E1' at 1. rewrite E2' at 1. ring.
Qed.

Lemma bp_sign_bit_of : forall mw ew s, (0 <= s < 2)%Z ->
  sign_bit mw ew ((s mod 2 =? 1)%Z) = (s * 2 ^ (mw + ew))%Z.
Proof.
  intros mw ew s Hs. unfold sign_bit.
  rewrite Z.mod_small by exact Hs.
  destruct (Z.eq_dec s 1) as [E|E].
  - subst s. cbn [Z.eqb Pos.eqb]. lia.
  - assert (E0 : s = 0%Z) by lia. subst s. cbn [Z.eqb]. lia.
Qed.

(* the statement holds for every nonnegative mantissa/exponent width *)
Lemma bp_bits_roundtrip_gen : forall mw ew b, (0 <= mw)%Z -> (0 <= ew)%Z ->
  non_nan_bits mw ew b -> bits_of_sf mw ew (sf_of_bits mw ew b) = b.
Proof.
  intros mw ew b Hmw Hew [Hb Hnan].
  destruct (bp_bits_decompose mw ew b Hmw Hew Hb) as [Hmant [Hex [Hs Hdec]]].
  pose proof (bp_sign_bit_of mw ew (b / 2 ^ (mw + ew))%Z Hs) as Hsign.
  unfold sf_of_bits.
  set (sb := ((b / 2 ^ (mw + ew)) mod 2 =? 1)%Z) in *.
  set (s := (b / 2 ^ (mw + ew))%Z) in *.
  set (ex := ((b / 2 ^ mw) mod 2 ^ ew)%Z) in *.
  set (mant := (b mod 2 ^ mw)%Z) in *.
  assert (Pm : (0 < 2 ^ mw)%Z) by (apply Z.pow_pos_nonneg; lia).
  destruct (ex =? 0)%Z eqn:Eex0.
  - apply Z.eqb_eq in Eex0.
    destruct mant as [|p|p] eqn:Emant.
    + cbn [bits_of_sf]. rewrite Hsign. lia.
    + cbn [bits_of_sf].
      assert (Hlt : (Z.pos p <? 2 ^ mw)%Z = true) by (apply Z.ltb_lt; lia).
      rewrite Hlt. rewrite Hsign. lia.
    + lia.
  - apply Z.eqb_neq in Eex0.
    destruct (ex =? 2 ^ ew - 1)%Z eqn:Eexm.
    + apply Z.eqb_eq in Eexm.
      destruct (mant =? 0)%Z eqn:Em0.
      * apply Z.eqb_eq in Em0. cbn [bits_of_sf]. rewrite Hsign.
        rewrite Eexm, Em0 in Hdec. lia.
      * apply Z.eqb_neq in Em0. exfalso. apply Hnan. split; assumption.
    + apply Z.eqb_neq in Eexm.
      destruct (mant + 2 ^ mw)%Z as [|p|p] eqn:Esum.
      * lia.
      * cbn [bits_of_sf].
        assert (Hge : (Z.pos p <? 2 ^ mw)%Z = false) by (apply Z.ltb_ge; lia).
        rewrite Hge. rewrite Hsign.
        replace (ex + femin mw ew - 1 - femin mw ew + 1)%Z with ex by lia.
        rewrite <- Esum. lia.
      * lia.
Qed.

Theorem bits_roundtrip : forall mw ew b, fmt_ok mw ew -> non_nan_bits mw ew b ->
  bits_of_sf mw ew (sf_of_bits mw ew b) = b.
Proof.
  intros mw ew b Hfmt Hnn.
  assert (Hw : (0 <= mw)%Z /\ (0 <= ew)%Z).
  { destruct Hfmt as [E|[E|E]]; inversion E; subst; lia. }
  destruct Hw as [Hmw Hew].
  apply bp_bits_roundtrip_gen; assumption.
Qed.

(* ===================================================================== *)
(* binary fields                                                          *)
(* ===================================================================== *)

Lemma bp_le_bytes_zero : forall n, le_bytes n 0 = repeat 0%N n.
Proof.
  intros n. induction n as [|n IHn].
  - reflexivity.
  - cbn [le_bytes repeat].
    replace (0 mod 256)%Z with 0%Z by reflexivity.
    replace (0 / 256)%Z with 0%Z by reflexivity.
    rewrite IHn. reflexivity.
Qed.

Lemma bp_int_enc_zero : forall n, (0 < n)%nat -> int_enc n 0 = Some (repeat 0%N n).
Proof.
  intros n Hn. unfold int_enc.
  assert (Hpos : (0 < 2 ^ (8 * Z.of_nat n - 1))%Z) by (apply Z.pow_pos_nonneg; lia).
  assert (H1 : (- 2 ^ (8 * Z.of_nat n - 1) <=? 0)%Z = true) by (apply Z.leb_le; lia).
  assert (H2 : (0 <? 2 ^ (8 * Z.of_nat n - 1))%Z = true) by (apply Z.ltb_lt; lia).
  rewrite H1, H2. cbn [andb].
  rewrite Z.mod_0_l by (pose proof (bp_pow8_pos n); lia).
  rewrite bp_le_bytes_zero. reflexivity.
Qed.

Lemma bp_num_width_pos : forall f, (0 < num_width f)%nat.
Proof.
  intros f. unfold num_width.
  destruct (size f) as [|[|[|[|[|[|[|[|[|k]]]]]]]]]; lia.
Qed.

Lemma bp_num_width_size : forall f, (size f = 2 \/ size f = 4 \/ size f = 8)%nat ->
  num_width f = size f.
Proof.
  intros f Hs. unfold num_width.
  destruct Hs as [E|[E|E]]; rewrite E; reflexivity.
Qed.

Theorem render_bin_missing_int : forall f v, kind f = KInt -> missing v = true ->
  render_bin f v = Some (repeat 0%N (num_width f)).
Proof.
  intros f v Hk Hm. unfold render_bin. rewrite Hk, Hm.
  apply bp_int_enc_zero. apply bp_num_width_pos.
Qed.

Lemma bp_float_enc_zero : forall n, float_enc n (S754_zero false) = repeat 0%N n.
Proof.
  intros n. unfold float_enc.
  destruct (fmt_of_width n) as [mw ew].
  cbn [sf_round bits_of_sf sign_bit].
  apply bp_le_bytes_zero.
Qed.

Theorem render_bin_missing_float : forall f v dd sci up sep, kind f = KFloat dd sci up sep -> missing v = true ->
  render_bin f v = Some (repeat 0%N (num_width f)).
Proof.
  intros f v dd sci up sep Hk Hm. unfold render_bin. rewrite Hk, Hm.
  rewrite bp_float_enc_zero. reflexivity.
Qed.

Theorem render_bin_missing_text : forall f v, (kind f = KLit \/ exists fm, kind f = KDate fm) -> missing v = true ->
  render_bin f v = Some (pad (size f)).
Proof.
  intros f v Hk Hm. unfold render_bin.
  destruct Hk as [Hk|[fm Hk]]; rewrite Hk, Hm; reflexivity.
Qed.

Lemma bp_int_enc_length : forall n z t, int_enc n z = Some t -> length t = n.
Proof.
  intros n z t H. unfold int_enc in H.
  destruct ((- 2 ^ (8 * Z.of_nat n - 1) <=? z)%Z && (z <? 2 ^ (8 * Z.of_nat n - 1))%Z).
  - inversion H; subst. apply le_bytes_length.
  - discriminate.
Qed.

Theorem render_bin_numeric_width : forall f v t, (kind f = KInt \/ exists dd sci up sep, kind f = KFloat dd sci up sep) ->
  render_bin f v = Some t -> length t = num_width f.
Proof.
  intros f v t Hk Hr. unfold render_bin in Hr.
  destruct Hk as [Hk|[dd [sci [up [sep Hk]]]]]; rewrite Hk in Hr.
  - destruct (missing v).
    + apply bp_int_enc_length with (z := 0%Z). exact Hr.
    + destruct v as [| |z|x|s|d]; try discriminate.
      apply bp_int_enc_length with (z := z). exact Hr.
  - destruct (missing v).
    + inversion Hr; subst. apply float_enc_length.
    + destruct v as [| |z|x|s|d]; try discriminate.
      inversion Hr; subst. apply float_enc_length.
Qed.

Theorem fits_bin_numeric : forall f v t, (size f = 2 \/ size f = 4 \/ size f = 8)%nat ->
  (kind f = KInt \/ exists dd sci up sep, kind f = KFloat dd sci up sep) ->
  render_bin f v = Some t -> fits_bin f v = true.
Proof.
  intros f v t Hs Hk Hr.
  pose proof (render_bin_numeric_width f v t Hk Hr) as Hlen.
  unfold fits_bin. rewrite Hr. rewrite Hlen.
  rewrite bp_num_width_size by exact Hs.
  apply Nat.eqb_refl.
Qed.

Theorem int_field_bin_roundtrip : forall f z t, kind f = KInt -> (size f = 2 \/ size f = 4 \/ size f = 8)%nat ->
  render_bin f (VInt z) = Some t -> interp_bin f t = VInt z.
Proof.
  intros f z t Hk Hs Hr.
  unfold render_bin in Hr. rewrite Hk in Hr. cbn [missing] in Hr.
  unfold interp_bin. rewrite Hk.
  destruct (Z_le_dec (- 2 ^ (8 * Z.of_nat (num_width f) - 1)) z) as [Hlo|Hlo];
    [destruct (Z_lt_dec z (2 ^ (8 * Z.of_nat (num_width f) - 1))) as [Hhi|Hhi]|].
  - destruct (int_bin_roundtrip (num_width f) z (bp_num_width_pos f) (conj Hlo Hhi))
      as [bs [He [_ [_ Hd]]]].
    rewrite Hr in He. inversion He; subst bs.
    rewrite Hd. reflexivity.
  - rewrite int_enc_overflow in Hr by lia. discriminate.
  - rewrite int_enc_overflow in Hr by lia. discriminate.
Qed.

Print Assumptions le_bytes_length.
Print Assumptions le_bytes_bytes.
Print Assumptions le_value_le_bytes.
Print Assumptions le_value_range.
Print Assumptions le_bytes_le_value.
Print Assumptions int_bin_roundtrip.
Print Assumptions int_bin_patterns.
Print Assumptions int_enc_overflow.
Print Assumptions int_dec_short.
Print Assumptions int_dec_prefix.
Print Assumptions float_enc_length.
Print Assumptions float_enc_bytes.
Print Assumptions bits_roundtrip.
Print Assumptions render_bin_missing_int.
Print Assumptions render_bin_missing_float.
Print Assumptions render_bin_missing_text.
Print Assumptions render_bin_numeric_width.
Print Assumptions fits_bin_numeric.
Print Assumptions int_field_bin_roundtrip.
