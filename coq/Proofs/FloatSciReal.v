(* E-notation float fields in real numbers (Flocq).
   - fmtE of a finite double as a function of its value (fmtE_char, fmtE_unique);
   - idempotence of the dd+1 digit rounding through the nearest double (sci_idem_core, under a
     precision hypothesis; sci_image_idem, without, for values that round() returns);
   - Python's round() as used by the E branch (py_round_R, sci_val_spec), absorption of round()
     by the format when the precision suffices (fmtE_round_absorb) and the half-unit bound;
   - text stability of E-notation fields on the faithful model, whenever the text fits
     (stable_float_sci_faithful), and the refutations of the half-unit bound for subnormal
     doubles and for 16 digits.
   Imports Flocq and Reals through Proofs.FloatReal. *)
From Coq Require Import ZArith NArith List Bool Arith Lia Reals Lra.
From Coq Require Import Floats.SpecFloat.
From Flocq Require Import Core.Core IEEE754.BinarySingleNaN IEEE754.PrimFloat.
From Cfi Require Import Glue.Sx Py.PyStr Py.PyNum Model.Field.
From Cfi Require Import Proofs.FieldProofs Proofs.NumText Proofs.LineProofs.
From Cfi Require Import Proofs.FloatSci Proofs.FloatReal.
Import ListNotations.

Local Open Scope R_scope.

Local Instance Hprec53' : FLX.Prec_gt_0 53 := eq_refl _.
Local Instance Hmax1024' : Prec_lt_emax 53 1024 := eq_refl _.

(* ===================================================================== *)
(* Stage 0: the real-number meaning of scaled / round_dec / ilog10        *)
(* ===================================================================== *)

Lemma bpow10_1 : bpow radix10 1 = 10.
Proof. rewrite bpow_1. reflexivity. Qed.

Lemma bpow10_succ : forall k, bpow radix10 (k + 1) = 10 * bpow radix10 k.
Proof. intros k. rewrite bpow_plus, bpow10_1. ring. Qed.

Lemma sX_R_pos : forall m e, 0 < IZR (sX m e).
Proof. intros m e. apply IZR_lt. apply sX_pos. Qed.

Lemma sY_R_pos : forall e, 0 < IZR (sY e).
Proof. intros e. apply IZR_lt. apply sY_pos. Qed.

(* a finite double as the fraction sX / sY *)
Lemma magR_sXY : forall m e, magR m e * IZR (sY e) = IZR (sX m e).
Proof.
  intros m e. unfold magR, F2R, sX, sY. cbn [Fnum Fexp].
  destruct (0 <=? e)%Z eqn:Ee.
  - apply Z.leb_le in Ee. rewrite mult_IZR. rewrite <- (IZR_Zpower radix2 e Ee).
    change (Z.pow radix2 e) with (2 ^ e)%Z. cbn [IZR IPR]. ring.
  - apply Z.leb_gt in Ee.
    replace e with (- (- e))%Z at 1 by lia. rewrite bpow_opp.
    rewrite <- (IZR_Zpower radix2 (- e)) by lia.
    change (Z.pow radix2 (- e)) with (2 ^ (- e))%Z.
    assert (H2 : IZR (2 ^ (- e)) <> 0).
    { apply not_0_IZR. assert (0 < 2 ^ (- e))%Z by (apply Z.pow_pos_nonneg; lia). lia. }
    field. exact H2.
Qed.

(* round_dec with an arbitrary (possibly negative) number of decimals *)
Lemma round_dec_ZnE_gen : forall m e k,
  round_dec m e k = ZnearestE (magR m e * bpow radix10 k).
Proof.
  intros m e k. pose proof (scaled_pos m e k) as HP. unfold round_dec.
  destruct (scaled m e k) as [num den] eqn:Es. destruct HP as [Hn Hd].
  rewrite half_even_ZnE by lia. f_equal.
  rewrite scaled_unfold in Es.
  pose proof (f_equal fst Es) as Hnum. pose proof (f_equal snd Es) as Hden.
  cbn [fst snd] in Hnum, Hden. clear Es.
  pose proof (magR_sXY m e) as HM. pose proof (sY_R_pos e) as HY.
  assert (HdR : IZR den <> 0) by (apply not_0_IZR; lia).
  destruct (0 <=? k)%Z eqn:Ek.
  - apply Z.leb_le in Ek. rewrite <- Hnum, <- Hden. rewrite !mult_IZR.
    rewrite (pow10_IZR k Ek). rewrite <- HM. cbn [IZR IPR]. field. lra.
  - apply Z.leb_gt in Ek. rewrite <- Hnum, <- Hden. rewrite !mult_IZR.
    rewrite (pow10_IZR (- k)) by lia. rewrite <- HM.
    replace k with (- (- k))%Z at 2 by lia. rewrite (bpow_opp radix10 (- k)).
    pose proof (bpow_gt_0 radix10 (- k)) as Hb.
    cbn [IZR IPR]. field. split; lra.
Qed.

(* ilog10 is the decimal exponent of the value *)
Lemma ilog10_R : forall m e,
  bpow radix10 (ilog10 (sX m e) (sY e)) <= magR m e < bpow radix10 (ilog10 (sX m e) (sY e) + 1).
Proof.
  intros m e.
  pose proof (sX_pos m e) as HX. pose proof (sY_pos e) as HY.
  pose proof (ilog10_spec (sX m e) (sY e) HX HY) as HL. cbv zeta in HL.
  set (lg := ilog10 (sX m e) (sY e)) in *.
  pose proof (magR_sXY m e) as HM. pose proof (sY_R_pos e) as HYR.
  set (M := magR m e) in *. set (X := sX m e) in *. set (Y := sY e) in *.
  destruct (0 <=? lg)%Z eqn:El.
  - apply Z.leb_le in El. destruct HL as [H1 H2].
    apply IZR_le in H1. apply IZR_lt in H2. rewrite mult_IZR in H1, H2.
    rewrite pow10_IZR in H1 by lia. rewrite pow10_IZR in H2 by lia.
    rewrite <- HM in H1, H2. split.
    + apply Rmult_le_reg_r with (IZR Y); [exact HYR | lra].
    + apply Rmult_lt_reg_r with (IZR Y); [exact HYR | lra].
  - apply Z.leb_gt in El. destruct HL as [H1 H2].
    apply Z.ge_le in H1. apply IZR_le in H1. apply IZR_lt in H2. rewrite mult_IZR in H1, H2.
    rewrite pow10_IZR in H1 by lia. rewrite pow10_IZR in H2 by lia.
    rewrite <- HM in H1, H2.
    pose proof (bpow_gt_0 radix10 lg) as Hb1. pose proof (bpow_gt_0 radix10 (lg + 1)) as Hb2.
    assert (E1 : bpow radix10 lg * bpow radix10 (- lg) = 1).
    { rewrite <- bpow_plus. replace (lg + - lg)%Z with 0%Z by lia. reflexivity. }
    assert (E2 : bpow radix10 (lg + 1) * bpow radix10 (- lg - 1) = 1).
    { rewrite <- bpow_plus. replace (lg + 1 + (- lg - 1))%Z with 0%Z by lia. reflexivity. }
    pose proof (bpow_gt_0 radix10 (- lg)) as Hc1. pose proof (bpow_gt_0 radix10 (- lg - 1)) as Hc2.
    set (B1 := bpow radix10 (- lg)) in *. set (B2 := bpow radix10 (- lg - 1)) in *.
    (* Y <= M * Y * B1 ; M * Y * B2 < Y *)
    assert (G1 : 1 <= M * B1).
    { apply Rmult_le_reg_r with (IZR Y); [exact HYR | lra]. }
    assert (G2 : M * B2 < 1).
    { apply Rmult_lt_reg_r with (IZR Y); [exact HYR | lra]. }
    split.
    + apply Rmult_le_reg_r with B1; [exact Hc1 | lra].
    + apply Rmult_lt_reg_r with B2; [exact Hc2 | lra].
Qed.

Lemma log10_unique : forall v a b,
  bpow radix10 a <= v < bpow radix10 (a + 1) -> bpow radix10 b <= v < bpow radix10 (b + 1) -> a = b.
Proof.
  intros v a b [Ha1 Ha2] [Hb1 Hb2].
  assert (H1 : bpow radix10 a < bpow radix10 (b + 1)) by lra.
  assert (H2 : bpow radix10 b < bpow radix10 (a + 1)) by lra.
  apply lt_bpow in H1. apply lt_bpow in H2. lia.
Qed.

(* ===================================================================== *)
(* Stage (a): fmtE of a finite double as a function of its value          *)
(* ===================================================================== *)

(* the digits n and the exponent e10 printed for the value v, whose decimal exponent is lg *)
Definition sciN (v : R) (dd : nat) (lg : Z) : Z * Z :=
  let N := ZnearestE (v * bpow radix10 (Z.of_nat dd - lg)) in
  if (N =? 10 ^ (Z.of_nat dd + 1))%Z then ((10 ^ Z.of_nat dd)%Z, (lg + 1)%Z) else (N, lg).

Theorem fmtE_char : forall up s m e dd lg,
  bpow radix10 lg <= magR m e < bpow radix10 (lg + 1) ->
  fmtE up (S754_finite s m e) dd =
    sci_text up s (fst (sciN (magR m e) dd lg)) dd (snd (sciN (magR m e) dd lg)).
Proof.
  intros up s m e dd lg Hlg.
  rewrite fmtE_finite_unfold.
  rewrite <- (log10_unique _ _ _ Hlg (ilog10_R m e)).
  rewrite round_dec_ZnE_gen. unfold sciN.
  destruct (ZnearestE (magR m e * bpow radix10 (Z.of_nat dd - lg)) =? 10 ^ (Z.of_nat dd + 1))%Z;
    reflexivity.
Qed.

(* ===================================================================== *)
(* Stage (b): the real-number core of idempotence                         *)
(* ===================================================================== *)

(* dd + 1 significant decimal digits are within the precision of x:
   15 * 10^dd units in the last place of x do not exceed x *)
Definition sci_precise (dd : nat) (x : R) : Prop :=
  15 * bpow radix10 (Z.of_nat dd) * ulp radix2 fexp64 x <= x.

Lemma even_pow10_succ : forall d, (0 <= d)%Z -> Z.even (10 ^ (d + 1)) = true.
Proof.
  intros d Hd. rewrite Z.pow_add_r by lia. rewrite Z.pow_1_r. rewrite Z.even_mul.
  apply orb_true_r.
Qed.

(* The only case in which the digits printed for y can differ from those printed for x is
   y < 10^lg <= x with N = 10^dd (y is then the rounding of 10^lg): the hypothesis Hcut asks
   that y is then so close to 10^lg that it prints as 10^dd at exponent lg as well. *)
Lemma sci_idem_core_gen : forall x (dd : nat) lg lgy, fmt64 x -> 0 < x ->
  bpow radix10 lg <= x < bpow radix10 (lg + 1) ->
  let p := bpow radix10 (Z.of_nat dd - lg) in
  let N := ZnearestE (x * p) in
  let y := rnd64 (IZR N / p) in
  forall (Hcut : y < bpow radix10 lg -> IZR N = bpow radix10 (Z.of_nat dd) ->
                 bpow radix10 (Z.of_nat dd) - y * p <= / 20),
  bpow radix10 lgy <= y < bpow radix10 (lgy + 1) ->
  sciN y dd lgy = sciN x dd lg.
Proof.
  intros x dd lg lgy Hx Hx0 [Hlg1 Hlg2] p N y Hcut [Hy1 Hy2].
  set (d := Z.of_nat dd) in *.
  assert (Hd : (0 <= d)%Z) by (unfold d; lia).
  set (P := bpow radix10 d) in *.
  assert (Hp : 0 < p) by apply bpow_gt_0.
  assert (HP1 : 1 <= P).
  { unfold P. change 1 with (bpow radix10 0). apply bpow_le. exact Hd. }
  assert (Hk : forall j, bpow radix10 (lg + j) * p = bpow radix10 (d + j)).
  { intros j. unfold p. rewrite <- bpow_plus. f_equal. lia. }
  assert (Hk0 : bpow radix10 lg * p = P).
  { replace lg with (lg + 0)%Z at 1 by lia. rewrite Hk. unfold P. f_equal. lia. }
  assert (Hk1 : bpow radix10 (lg + 1) * p = 10 * P).
  { rewrite Hk. apply bpow10_succ. }
  assert (HPZ : P = IZR (10 ^ d)) by (unfold P; rewrite pow10_IZR by lia; reflexivity).
  assert (HP10 : 10 * P = IZR (10 ^ (d + 1))).
  { rewrite pow10_IZR by lia. rewrite bpow10_succ. reflexivity. }
  set (v := x * p) in *.
  assert (Hv1 : P <= v).
  { rewrite <- Hk0. unfold v. apply Rmult_le_compat_r; lra. }
  assert (Hv2 : v < 10 * P).
  { rewrite <- Hk1. unfold v. apply Rmult_lt_compat_r; lra. }
  assert (HNlo : (10 ^ d <= N)%Z).
  { rewrite <- (ZnE_IZR (10 ^ d)). apply ZnE_le. rewrite <- HPZ. exact Hv1. }
  assert (HNhi : (N <= 10 ^ (d + 1))%Z).
  { rewrite <- (ZnE_IZR (10 ^ (d + 1))). apply ZnE_le. rewrite <- HP10. lra. }
  destruct (dec_idem_core x p Hp Hx) as [H1 H2]. fold v in H1, H2. fold N in H1, H2. fold y in H1, H2.
  pose proof (ZnE_half v) as Hh. fold N in Hh.
  set (w := y * p) in *.
  pose proof (Rabs_le_inv _ _ Hh) as Hh'.
  assert (Hw : Rabs (w - IZR N) <= / 2) by lra.
  pose proof (Rabs_le_inv _ _ Hw) as Hw'.
  assert (Hwy_le : forall k, bpow radix10 k * p <= w -> bpow radix10 k <= y).
  { intros k Hle. apply Rmult_le_reg_r with p; [exact Hp | exact Hle]. }
  assert (Hwy_lt : forall k, w < bpow radix10 k * p -> y < bpow radix10 k).
  { intros k Hlt. apply Rmult_lt_reg_r with p; [exact Hp | exact Hlt]. }
  apply IZR_le in HNlo. apply IZR_le in HNhi. rewrite <- HPZ in HNlo. rewrite <- HP10 in HNhi.
  unfold sciN. fold d. fold p. fold v. fold N.
  destruct (Z.eqb_spec N (10 ^ (d + 1))) as [HN | HN].
  - (* the rounding of x reaches 10^(dd+1): exponent lg + 1 *)
    assert (HNR : IZR N = 10 * P) by (rewrite HN; symmetry; exact HP10).
    assert (HD : IZR N / p = bpow radix10 (lg + 1)).
    { rewrite HNR, <- Hk1. field. lra. }
    assert (Hxy : x <= y).
    { unfold y. apply round_ge_generic; auto with typeclass_instances. rewrite HD. lra. }
    destruct (Rle_or_lt (bpow radix10 (lg + 1)) y) as [Hc | Hc].
    + (* y = 10^(lg+1) or above *)
      assert (Hw1 : 10 * P <= w).
      { rewrite <- Hk1. unfold w. apply Rmult_le_compat_r; lra. }
      assert (Hlgy : lgy = (lg + 1)%Z).
      { apply (log10_unique y); [split; assumption|]. split; [exact Hc|].
        apply Hwy_lt. replace (lg + 1 + 1)%Z with (lg + 2)%Z by lia. rewrite Hk.
        replace (d + 2)%Z with (d + 1 + 1)%Z by lia. rewrite !bpow10_succ. fold P. lra. }
      subst lgy.
      set (q := bpow radix10 (d - (lg + 1))).
      assert (Hq : q * 10 = p).
      { unfold q, p. rewrite <- bpow10_1. rewrite <- bpow_plus. f_equal. lia. }
      assert (Hyq : y * q * 10 = w) by (unfold w; rewrite <- Hq; ring).
      assert (HZ : ZnearestE (y * q) = (10 ^ d)%Z).
      { apply Znearest_imp. rewrite <- HPZ.
        apply Rabs_lt. split; lra. }
      rewrite HZ.
      assert (Hne : (10 ^ d =? 10 ^ (d + 1))%Z = false).
      { apply Z.eqb_neq. assert (10 ^ d < 10 ^ (d + 1))%Z by (apply Z.pow_lt_mono_r; lia). lia. }
      rewrite Hne. reflexivity.
    + (* y < 10^(lg+1) *)
      assert (Hlgy : lgy = lg).
      { apply (log10_unique y); [split; assumption|]. split; [lra | exact Hc]. }
      subst lgy. fold p. fold w. rewrite H2. destruct (Z.eqb_spec N (10 ^ (d + 1))); [reflexivity | contradiction].
  - (* no renormalisation for x *)
    assert (HNR : IZR N <= 10 * P - 1).
    { assert (HNz : (N <= 10 ^ (d + 1) - 1)%Z).
      { assert (HNz' : (N <= 10 ^ (d + 1))%Z) by (apply le_IZR; rewrite <- HP10; exact HNhi). lia. }
      apply IZR_le in HNz. rewrite minus_IZR in HNz. rewrite <- HP10 in HNz. exact HNz. }
    assert (Hw2 : w < 10 * P) by lra.
    assert (Hy3 : y < bpow radix10 (lg + 1)) by (apply Hwy_lt; rewrite Hk1; exact Hw2).
    destruct (Rle_or_lt (bpow radix10 lg) y) as [Hc | Hc].
    + assert (Hlgy : lgy = lg).
      { apply (log10_unique y); [split; assumption|]. split; assumption. }
      subst lgy. fold p. fold w. rewrite H2.
      destruct (Z.eqb_spec N (10 ^ (d + 1))); [contradiction | reflexivity].
    + (* y < 10^lg <= x: then N = 10^dd and y is the rounding of 10^lg *)
      assert (Hw3 : w < P).
      { rewrite <- Hk0. unfold w. apply Rmult_lt_compat_r; lra. }
      assert (Hvw : IZR N - w <= v - IZR N).
      { rewrite (Rabs_left (w - IZR N)) in H1 by lra.
        destruct (Rle_or_lt v (IZR N)) as [Hvn | Hvn].
        - rewrite (Rabs_left1 (v - IZR N)) in H1 by lra. lra.
        - rewrite (Rabs_pos_eq (v - IZR N)) in H1 by lra. lra. }
      assert (HN10 : N = (10 ^ d)%Z).
      { assert (Hlt : (N < 10 ^ d + 1)%Z).
        { apply lt_IZR. rewrite plus_IZR. rewrite <- HPZ. lra. }
        assert (Hge : (10 ^ d <= N)%Z) by (apply le_IZR; rewrite <- HPZ; exact HNlo). lia. }
      assert (HNP : IZR N = P) by (rewrite HN10; symmetry; exact HPZ).
      assert (HD : IZR N / p = bpow radix10 lg).
      { rewrite HNP, <- Hk0. field. lra. }
      assert (Hw4 : P - w <= / 20) by (apply Hcut; [exact Hc | exact HNP]).
      assert (Hlgy : lgy = (lg - 1)%Z).
      { apply (log10_unique y); [split; assumption|]. split.
        - apply Hwy_le. replace (lg - 1)%Z with (lg + -1)%Z by lia. rewrite Hk.
          assert (Hb : 10 * bpow radix10 (d + -1) = P).
          { rewrite <- bpow10_succ. unfold P. f_equal. lia. }
          lra.
        - replace (lg - 1 + 1)%Z with lg by lia. exact Hc. }
      subst lgy.
      assert (Hq : bpow radix10 (d - (lg - 1)) = 10 * p).
      { replace (d - (lg - 1))%Z with (d - lg + 1)%Z by lia. apply bpow10_succ. }
      rewrite Hq.
      assert (HZ : ZnearestE (y * (10 * p)) = (10 ^ (d + 1))%Z).
      { apply ZnE_char.
        - rewrite <- HP10. replace (y * (10 * p)) with (10 * w) by (unfold w; ring).
          apply Rabs_le. lra.
        - intros _. apply even_pow10_succ. exact Hd. }
      rewrite HZ. rewrite Z.eqb_refl. rewrite HN10.
      replace (lg - 1 + 1)%Z with lg by lia. reflexivity.
Qed.

Lemma sci_idem_core : forall x (dd : nat) lg lgy, fmt64 x -> 0 < x ->
  bpow radix10 lg <= x < bpow radix10 (lg + 1) ->
  sci_precise dd x ->
  let p := bpow radix10 (Z.of_nat dd - lg) in
  let N := ZnearestE (x * p) in
  let y := rnd64 (IZR N / p) in
  bpow radix10 lgy <= y < bpow radix10 (lgy + 1) ->
  sciN y dd lgy = sciN x dd lg.
Proof.
  intros x dd lg lgy Hx Hx0 Hlg Hprec p N y Hy.
  pose proof (sci_idem_core_gen x dd lg lgy Hx Hx0 Hlg) as G. cbv zeta in G.
  apply G; [|exact Hy]. clear G. fold p. fold N. fold y. intros Hc HNP.
  destruct Hlg as [Hlg1 Hlg2]. unfold sci_precise in Hprec.
  set (P := bpow radix10 (Z.of_nat dd)) in *.
  assert (Hp : 0 < p) by apply bpow_gt_0.
  assert (HP1 : 1 <= P).
  { unfold P. change 1 with (bpow radix10 0). apply bpow_le. lia. }
  assert (Hk0 : bpow radix10 lg * p = P).
  { unfold p, P. rewrite <- bpow_plus. f_equal. lia. }
  assert (HD : IZR N / p = bpow radix10 lg).
  { rewrite HNP, <- Hk0. field. lra. }
  pose proof (ZnE_half (x * p)) as Hh. fold N in Hh. rewrite HNP in Hh. apply Rabs_le_inv in Hh.
  pose proof (error_le_half_ulp radix2 fexp64 (fun t => negb (Z.even t)) (bpow radix10 lg)) as Herr.
  fold (ZnearestE) in Herr. rewrite <- HD in Herr. fold y in Herr. rewrite HD in Herr.
  assert (Hulp : ulp radix2 fexp64 (bpow radix10 lg) <= ulp radix2 fexp64 x).
  { apply ulp_le_pos; [typeclasses eauto | typeclasses eauto | apply bpow_ge_0 | exact Hlg1]. }
  apply Rabs_le_inv in Herr.
  set (u := ulp radix2 fexp64 x) in *.
  assert (Hu0 : 0 <= u) by apply ulp_ge_0.
  assert (Hup : u * p <= / 10).
  { assert (Hq1 : 15 * P * u * p <= x * p) by (apply Rmult_le_compat_r; lra).
    apply Rmult_le_reg_l with P; [lra|].
    replace (P * (u * p)) with (15 * P * u * p * / 15) by field. lra. }
  replace (P - y * p) with ((bpow radix10 lg - y) * p) by (rewrite <- Hk0; ring).
  apply Rle_trans with (/ 2 * u * p).
  - apply Rmult_le_compat_r; lra.
  - lra.
Qed.

(* ===================================================================== *)
(* Overflow: a finite result of sf_of_dec means the rounding did not overflow *)
(* ===================================================================== *)

Lemma rn64_overflow : forall neg n d,
  Rlt_bool (Rabs (rnd64 (sgnR neg * IZR (Zpos n) / IZR (Zpos d)))) (bpow radix2 1024) = false ->
  is_finite_SF (rn64 neg n d) = false.
Proof.
  intros neg n d Hov.
  pose proof (Bdiv_correct_aux 53 1024 Hprec53' Hmax1024' mode_NE neg n 0 false d 0) as H.
  cbv zeta in H. rewrite !F2R_int in H.
  change (sgnR false) with 1 in H. rewrite Rmult_1_l in H.
  change (round radix2 (SpecFloat.fexp 53 1024) (round_mode mode_NE)) with rnd64 in H.
  rewrite Hov in H.
  unfold rn64, SFdiv.
  destruct (SFdiv_core_binary 53 1024 (Zpos n) 0 (Zpos d) 0) as [[mz ez] lz].
  rewrite binary_round_aux_equiv.
  destruct H as [_ H].
  change FloatOps.prec with 53%Z. change FloatOps.emax with 1024%Z.
  rewrite H. reflexivity.
Qed.

Lemma normalize64_overflow : forall z szero,
  Rlt_bool (Rabs (rnd64 (IZR z))) (bpow radix2 1024) = false ->
  is_finite_SF (SpecFloat.binary_normalize 53 1024 z 0 szero) = false.
Proof.
  intros z szero Hov.
  pose proof (binary_normalize_equiv z 0 szero) as E.
  change FloatOps.prec with 53%Z in E. change FloatOps.emax with 1024%Z in E.
  rewrite E. clear E.
  pose proof (binary_normalize_correct 53 1024 Hprec Hmax mode_NE z 0 szero) as H.
  cbv zeta in H.
  assert (HF : F2R (Float radix2 z 0) = IZR z).
  { unfold F2R. cbn [Fnum Fexp bpow]. ring. }
  rewrite HF in H.
  change (round radix2 (SpecFloat.fexp 53 1024) (round_mode mode_NE)) with rnd64 in H.
  rewrite Hov in H. rewrite H. reflexivity.
Qed.

Theorem sf_of_dec_finite_inv : forall neg n k, (0 < n)%Z ->
  (-400 <= Z.of_nat (length (dec_digits n)) + k <= 400)%Z ->
  is_finite_SF (sf_of_dec neg n k) = true ->
  Rabs (rnd64 (decR neg n k)) < bpow radix2 1024.
Proof.
  intros neg n k Hn Hmag Hfin.
  destruct (Rlt_bool_spec (Rabs (rnd64 (decR neg n k))) (bpow radix2 1024)) as [Hlt | Hge];
    [exact Hlt | exfalso].
  assert (Hov : Rlt_bool (Rabs (rnd64 (decR neg n k))) (bpow radix2 1024) = false)
    by (apply Rlt_bool_false; exact Hge).
  destruct n as [|p|p]; try lia.
  unfold sf_of_dec in Hfin.
  assert (E1 : (400 <? Z.of_nat (length (dec_digits (Zpos p))) + k)%Z = false) by (apply Z.ltb_ge; lia).
  assert (E2 : (Z.of_nat (length (dec_digits (Zpos p))) + k <? -400)%Z = false) by (apply Z.ltb_ge; lia).
  rewrite E1, E2 in Hfin.
  destruct (0 <=? k)%Z eqn:Ek.
  - apply Z.leb_le in Ek.
    set (z := (if neg then (- (Zpos p * 10 ^ k))%Z else (Zpos p * 10 ^ k)%Z)) in *.
    assert (Hz : IZR z = decR neg (Zpos p) k).
    { unfold z, decR. rewrite <- (pow10_IZR k Ek). destruct neg; unfold sgnR.
      - rewrite opp_IZR, mult_IZR. ring.
      - rewrite mult_IZR. ring. }
    rewrite <- Hz in Hov.
    rewrite (normalize64_overflow z neg Hov) in Hfin. discriminate Hfin.
  - apply Z.leb_gt in Ek.
    assert (Hp : (0 < 10 ^ (- k))%Z) by (apply Z.pow_pos_nonneg; lia).
    destruct (10 ^ (- k))%Z as [|d|d] eqn:Ed; try lia.
    assert (Hq : (sgnR neg * IZR (Zpos p) / IZR (Zpos d))%R = decR neg (Zpos p) k).
    { unfold decR. rewrite <- Ed. rewrite pow10_IZR by lia.
      replace k with (- (- k))%Z at 2 by lia. rewrite (bpow_opp radix10 (- k)). reflexivity. }
    rewrite <- Hq in Hov.
    rewrite (rn64_overflow neg p d Hov) in Hfin. discriminate Hfin.
Qed.

(* ===================================================================== *)
(* Stage (b), model level: what float() gives on the emitted text         *)
(* ===================================================================== *)

Lemma pow10_digits : forall n d, (0 <= d)%Z -> (10 ^ d <= n < 10 ^ (d + 1))%Z ->
  Z.of_nat (length (dec_digits n)) = (d + 1)%Z.
Proof.
  intros n d Hd [H1 H2].
  assert (Hp : (0 < 10 ^ d)%Z) by (apply Z.pow_pos_nonneg; lia).
  assert (Hn1 : (1 <= n)%Z) by lia.
  destruct (dec_digits_bounds n Hn1) as [Hl [Hlo Hhi]].
  set (len := Z.of_nat (length (dec_digits n))) in *.
  assert (A : (10 ^ (len - 1) < 10 ^ (d + 1))%Z) by lia.
  assert (B : (10 ^ d < 10 ^ len)%Z) by lia.
  apply Z.pow_lt_mono_r_iff in A; [|lia|lia].
  apply Z.pow_lt_mono_r_iff in B; [|lia|lia]. lia.
Qed.

(* the decimal exponent of a finite double *)
Lemma log10_range : forall m e lg, SpecFloat.bounded 53 1024 m e = true ->
  bpow radix10 lg <= magR m e < bpow radix10 (lg + 1) -> (-401 <= lg <= 398)%Z.
Proof.
  intros m e lg Hb [H1 H2].
  pose proof (bounded_ge m e Hb) as Hge. pose proof (bounded_le m e Hb) as Hle.
  set (x := magR m e) in *.
  split.
  - destruct (Z_lt_ge_dec lg (-401)) as [Hc | Hc]; [exfalso | lia].
    assert (Ha : bpow radix10 (lg + 1) <= bpow radix10 (-401)) by (apply bpow_le; lia).
    assert (EA : bpow radix10 (-401) * bpow radix10 401 = 1).
    { rewrite <- bpow_plus. reflexivity. }
    assert (EU : bpow radix2 (-1074) * bpow radix2 1074 = 1).
    { rewrite <- bpow_plus. reflexivity. }
    pose proof num_fact_lo as Hf. apply IZR_lt in Hf. rewrite mult_IZR in Hf.
    rewrite <- (bpow2_IZR 1074) in Hf by lia. rewrite (pow10_IZR 401) in Hf by lia.
    pose proof (bpow_gt_0 radix10 401) as HA0. pose proof (bpow_gt_0 radix2 (-1074)) as Hu0.
    set (a := bpow radix10 (-401)) in *. set (A := bpow radix10 401) in *.
    set (u := bpow radix2 (-1074)) in *. set (U := bpow radix2 1074) in *.
    assert (G1 : u * A < a * A) by (apply Rmult_lt_compat_r; lra).
    assert (G2 : u * (2 * U) < u * A) by (apply Rmult_lt_compat_l; lra).
    lra.
  - destruct (Z_le_gt_dec lg 398) as [Hc | Hc]; [lia | exfalso].
    assert (Ha : bpow radix10 399 <= bpow radix10 lg) by (apply bpow_le; lia).
    assert (Hb2 : bpow radix10 309 <= bpow radix10 399) by (apply bpow_le; lia).
    pose proof num_fact_hi as Hf. apply IZR_lt in Hf.
    rewrite <- (bpow2_IZR 1024) in Hf by lia. rewrite (pow10_IZR 309) in Hf by lia.
    pose proof (bpow_gt_0 radix2 971) as H971.
    lra.
Qed.

Lemma sci_N_range : forall x (dd : nat) lg, bpow radix10 lg <= x < bpow radix10 (lg + 1) ->
  (10 ^ Z.of_nat dd <= ZnearestE (x * bpow radix10 (Z.of_nat dd - lg)) <= 10 ^ (Z.of_nat dd + 1))%Z.
Proof.
  intros x dd lg [H1 H2].
  set (d := Z.of_nat dd). assert (Hd : (0 <= d)%Z) by (unfold d; lia).
  set (p := bpow radix10 (d - lg)).
  assert (Hp : 0 < p) by apply bpow_gt_0.
  assert (Hk0 : bpow radix10 lg * p = IZR (10 ^ d)).
  { unfold p. rewrite <- bpow_plus. rewrite pow10_IZR by lia. f_equal. lia. }
  assert (Hk1 : bpow radix10 (lg + 1) * p = IZR (10 ^ (d + 1))).
  { unfold p. rewrite <- bpow_plus. rewrite pow10_IZR by lia. f_equal. lia. }
  split.
  - rewrite <- (ZnE_IZR (10 ^ d)). apply ZnE_le. rewrite <- Hk0. apply Rmult_le_compat_r; lra.
  - rewrite <- (ZnE_IZR (10 ^ (d + 1))). apply ZnE_le. rewrite <- Hk1. apply Rmult_le_compat_r; lra.
Qed.

(* the digits and the exponent printed for the finite double (m, e) with dd decimals *)
Definition sci_digits (m : positive) (e : Z) (dd : nat) : Z :=
  fst (sciN (magR m e) dd (ilog10 (sX m e) (sY e))).
Definition sci_exp (m : positive) (e : Z) (dd : nat) : Z :=
  snd (sciN (magR m e) dd (ilog10 (sX m e) (sY e))).
(* the exact decimal value printed, as the fraction N / p *)
Definition sci_value (m : positive) (e : Z) (dd : nat) : R :=
  IZR (ZnearestE (magR m e * bpow radix10 (Z.of_nat dd - ilog10 (sX m e) (sY e)))) /
  bpow radix10 (Z.of_nat dd - ilog10 (sX m e) (sY e)).

Theorem fmtE_digits : forall up s m e dd,
  fmtE up (S754_finite s m e) dd = sci_text up s (sci_digits m e dd) dd (sci_exp m e dd).
Proof. intros up s m e dd. apply fmtE_char. apply ilog10_R. Qed.

Lemma sci_reparse : forall s m e (dd : nat), SpecFloat.bounded 53 1024 m e = true ->
  (10 ^ Z.of_nat dd <= sci_digits m e dd < 10 ^ (Z.of_nat dd + 1))%Z /\
  decR s (sci_digits m e dd) (sci_exp m e dd - Z.of_nat dd) = sgnR s * sci_value m e dd /\
  (-400 <= Z.of_nat (length (dec_digits (sci_digits m e dd))) + (sci_exp m e dd - Z.of_nat dd) <= 400)%Z.
Proof.
  intros s m e dd Hb. unfold sci_digits, sci_exp, sci_value.
  pose proof (ilog10_R m e) as Hlg.
  pose proof (log10_range m e _ Hb Hlg) as Hrange.
  pose proof (sci_N_range (magR m e) dd _ Hlg) as HN.
  set (lg := ilog10 (sX m e) (sY e)) in *. set (x := magR m e) in *.
  set (d := Z.of_nat dd) in *. assert (Hd : (0 <= d)%Z) by (unfold d; lia).
  unfold sciN. fold d.
  set (p := bpow radix10 (d - lg)) in *. set (N := ZnearestE (x * p)) in *.
  assert (Hp : 0 < p) by apply bpow_gt_0.
  assert (Hpow : (10 ^ d < 10 ^ (d + 1))%Z) by (apply Z.pow_lt_mono_r; lia).
  assert (Hrng : forall n e10, (10 ^ d <= n < 10 ^ (d + 1))%Z -> (lg <= e10 <= lg + 1)%Z ->
            (-400 <= Z.of_nat (length (dec_digits n)) + (e10 - d) <= 400)%Z).
  { intros n e10 Hn He. rewrite (pow10_digits n d Hd Hn). lia. }
  destruct (Z.eqb_spec N (10 ^ (d + 1))) as [HN1 | HN1]; cbn [fst snd].
  - split; [lia|]. split; [|apply Hrng; lia].
    unfold decR. rewrite HN1. rewrite !pow10_IZR by lia.
    assert (E : bpow radix10 (d + 1) = bpow radix10 d * bpow radix10 (lg + 1 - d) * p).
    { unfold p. rewrite <- !bpow_plus. f_equal. lia. }
    rewrite E. field. lra.
  - split; [lia|]. split; [|apply Hrng; lia].
    unfold decR. replace (lg - d)%Z with (- (d - lg))%Z by lia. rewrite bpow_opp. fold p.
    field. lra.
Qed.

Lemma sci_value_core : forall m e (dd : nat), SpecFloat.bounded 53 1024 m e = true ->
  0 < rnd64 (sci_value m e dd).
Proof.
  intros m e dd Hb. unfold sci_value.
  pose proof (ilog10_R m e) as Hlg.
  pose proof (sci_N_range (magR m e) dd _ Hlg) as HN.
  set (lg := ilog10 (sX m e) (sY e)) in *. set (x := magR m e) in *.
  set (p := bpow radix10 (Z.of_nat dd - lg)) in *.
  assert (Hp : 0 < p) by apply bpow_gt_0.
  pose proof (bounded_fmt m e Hb) as Hx. fold x in Hx.
  destruct (dec_idem_core x p Hp Hx) as [Hc1 _].
  pose proof (ZnE_half (x * p)) as Hh.
  set (N := ZnearestE (x * p)) in *.
  assert (HN1 : 1 <= IZR N).
  { apply IZR_le. assert (0 < 10 ^ Z.of_nat dd)%Z by (apply Z.pow_pos_nonneg; lia). lia. }
  set (r := rnd64 (IZR N / p)) in *.
  assert (Hq : Rabs (r * p - IZR N) <= / 2) by lra. apply Rabs_le_inv in Hq.
  assert (Hrp : 0 < r * p) by lra.
  destruct (Rle_or_lt r 0) as [Hr | Hr]; [exfalso | exact Hr].
  assert (r * p <= 0 * p) by (apply Rmult_le_compat_r; lra). lra.
Qed.

(* without overflow, float() of the emitted text is the finite double nearest to the emitted value *)
Lemma sci_reparse_finite : forall s m e (dd : nat), SpecFloat.bounded 53 1024 m e = true ->
  Rabs (rnd64 (sci_value m e dd)) < bpow radix2 1024 ->
  exists m' e', sf_of_dec s (sci_digits m e dd) (sci_exp m e dd - Z.of_nat dd) = S754_finite s m' e' /\
    SpecFloat.bounded 53 1024 m' e' = true /\ magR m' e' = rnd64 (sci_value m e dd).
Proof.
  intros s m e dd Hb Hov.
  destruct (sci_reparse s m e dd Hb) as [Hn [Hdec Hmag]].
  pose proof (sci_value_core m e dd Hb) as Hr.
  set (n := sci_digits m e dd) in *. set (k := (sci_exp m e dd - Z.of_nat dd)%Z) in *.
  set (r := rnd64 (sci_value m e dd)) in *.
  assert (Hn0 : (0 < n)%Z).
  { assert (0 < 10 ^ Z.of_nat dd)%Z by (apply Z.pow_pos_nonneg; lia). lia. }
  assert (Hov' : Rabs (rnd64 (decR s n k)) < bpow radix2 1024).
  { rewrite Hdec, rnd64_sgn. fold r. rewrite Rabs_mult, sgnR_abs, Rmult_1_l. exact Hov. }
  destruct (sf_of_dec_spec s n k Hn0 Hmag Hov') as [H1 [H2 [H3 H4]]].
  rewrite Hdec, rnd64_sgn in H1. fold r in H1.
  destruct (sf_of_dec s n k) as [s' | s' | | s' m' e'] eqn:Ey; try discriminate H3.
  - exfalso. unfold sfR in H1. cbn [SF2R] in H1.
    pose proof (sgnR_neq0 s) as Hs.
    assert (sgnR s * r <> 0) by (apply Rmult_integral_contrapositive_currified; lra).
    lra.
  - cbn [sign_SF] in H4. subst s'. exists m', e'. split; [reflexivity|]. split; [exact H2|].
    rewrite sfR_finite in H1.
    apply Rmult_eq_reg_l with (sgnR s); [exact H1 | apply sgnR_neq0].
Qed.

(* (b) the E-notation text of the re-parsed value is the text of the value *)
Theorem fmtE_idempotent_R : forall up s m e dd, SpecFloat.bounded 53 1024 m e = true ->
  sci_precise dd (magR m e) ->
  Rabs (rnd64 (sci_value m e dd)) < bpow radix2 1024 ->
  fmtE up (sf_of_dec s (sci_digits m e dd) (sci_exp m e dd - Z.of_nat dd)) dd =
  fmtE up (S754_finite s m e) dd.
Proof.
  intros up s m e dd Hb Hprec Hov.
  destruct (sci_reparse_finite s m e dd Hb Hov) as [m' [e' [Hy [Hb' Hm']]]].
  rewrite Hy. rewrite (fmtE_char up s m' e' dd _ (ilog10_R m' e')).
  rewrite fmtE_digits. unfold sci_digits, sci_exp.
  pose proof (ilog10_R m' e') as Hlgy. rewrite Hm' in Hlgy |- *.
  pose proof (sci_idem_core (magR m e) dd (ilog10 (sX m e) (sY e)) (ilog10 (sX m' e') (sY e')) (bounded_fmt m e Hb) (magR_pos m e) (ilog10_R m e) Hprec) as HC.
  cbv zeta in HC. unfold sci_value in Hlgy |- *.
  rewrite (HC Hlgy). reflexivity.
Qed.

Theorem fmtE_idempotent : forall up s m e dd, SpecFloat.bounded 53 1024 m e = true ->
  sci_precise dd (magR m e) ->
  is_finite_SF (sf_of_dec s (sci_digits m e dd) (sci_exp m e dd - Z.of_nat dd)) = true ->
  fmtE up (sf_of_dec s (sci_digits m e dd) (sci_exp m e dd - Z.of_nat dd)) dd =
  fmtE up (S754_finite s m e) dd.
Proof.
  intros up s m e dd Hb Hprec Hfin.
  apply fmtE_idempotent_R; [exact Hb | exact Hprec |].
  destruct (sci_reparse s m e dd Hb) as [Hn [Hdec Hmag]].
  assert (Hn0 : (0 < sci_digits m e dd)%Z).
  { assert (0 < 10 ^ Z.of_nat dd)%Z by (apply Z.pow_pos_nonneg; lia). lia. }
  pose proof (sf_of_dec_finite_inv s _ _ Hn0 Hmag Hfin) as H.
  rewrite Hdec, rnd64_sgn, Rabs_mult, sgnR_abs, Rmult_1_l in H. exact H.
Qed.

(* ===================================================================== *)
(* Sufficient conditions for the precision and the no-overflow hypotheses *)
(* ===================================================================== *)

(* normal doubles and at most 15 significant digits *)
Lemma sci_precise_normal : forall (dd : nat) x, (dd <= 14)%nat -> bpow radix2 (-1022) <= x ->
  sci_precise dd x.
Proof.
  intros dd x Hdd Hnorm. unfold sci_precise.
  assert (Hx0 : 0 < x).
  { apply Rlt_le_trans with (2 := Hnorm). apply bpow_gt_0. }
  pose proof (ulp_FLT_le radix2 (-1074) 53 x) as Hu.
  assert (Hpre : bpow radix2 (-1074 + 53 - 1) <= Rabs x).
  { rewrite Rabs_pos_eq by lra. exact Hnorm. }
  specialize (Hu Hpre). rewrite Rabs_pos_eq in Hu by lra.
  set (u := ulp radix2 fexp64 x) in *.
  assert (Hu0 : 0 <= u) by apply ulp_ge_0.
  set (b := bpow radix2 (1 - 53)) in *.
  assert (Hb0 : 0 < b) by apply bpow_gt_0.
  assert (HbT : b * IZR (2 ^ 52) = 1).
  { rewrite <- (bpow2_IZR 52) by lia. unfold b. rewrite <- bpow_plus. reflexivity. }
  assert (Hz : (15 * 10 ^ 14 <= 2 ^ 52)%Z) by (apply Z.leb_le; vm_compute; reflexivity).
  apply IZR_le in Hz. rewrite mult_IZR in Hz.
  assert (HP : bpow radix10 (Z.of_nat dd) <= IZR (10 ^ 14)).
  { rewrite (pow10_IZR 14) by lia. apply bpow_le. lia. }
  pose proof (bpow_gt_0 radix10 (Z.of_nat dd)) as HP0.
  set (P := bpow radix10 (Z.of_nat dd)) in *. set (P14 := IZR (10 ^ 14)) in *.
  set (T := IZR (2 ^ 52)) in *.
  assert (S1 : 15 * P * u <= 15 * P14 * (x * b)).
  { apply Rmult_le_compat; lra. }
  assert (S2 : 15 * P14 * (x * b) <= T * (x * b)).
  { apply Rmult_le_compat_r; [|exact Hz]. apply Rmult_le_pos; lra. }
  replace (T * (x * b)) with (x * (b * T)) in S2 by ring. rewrite HbT in S2. lra.
Qed.

Lemma normal_R : forall m e, SpecFloat.bounded 53 1024 m e = true -> (2 ^ 52 <= Zpos m)%Z ->
  bpow radix2 (-1022) <= magR m e.
Proof.
  intros m e Hb Hm.
  assert (He : (-1074 <= e)%Z).
  { pose proof (canonical_bounded 53 1024 false m e Hb) as Hc.
    unfold canonical, cexp in Hc. cbn [Fexp cond_Zopp] in Hc.
    rewrite fexp64_eq in Hc. unfold FLT_exp in Hc. lia. }
  unfold magR, F2R. cbn [Fnum Fexp].
  replace (-1022)%Z with (52 + -1074)%Z by lia. rewrite bpow_plus.
  apply Rmult_le_compat.
  - apply bpow_ge_0.
  - apply bpow_ge_0.
  - rewrite (bpow2_IZR 52) by lia. apply IZR_le. exact Hm.
  - apply bpow_le. exact He.
Qed.

(* values below 10^308 do not overflow, whatever dd *)
Lemma sci_value_no_overflow : forall m e (dd : nat), SpecFloat.bounded 53 1024 m e = true ->
  magR m e < bpow radix10 308 ->
  Rabs (rnd64 (sci_value m e dd)) < bpow radix2 1024.
Proof.
  intros m e dd Hb Hlt. apply rnd64_no_overflow. unfold sci_value.
  pose proof (ilog10_R m e) as Hlg.
  pose proof (sci_N_range (magR m e) dd _ Hlg) as HN.
  set (lg := ilog10 (sX m e) (sY e)) in *. set (x := magR m e) in *.
  set (d := Z.of_nat dd) in *. assert (Hd : (0 <= d)%Z) by (unfold d; lia).
  set (p := bpow radix10 (d - lg)) in *. set (N := ZnearestE (x * p)) in *.
  assert (Hp : 0 < p) by apply bpow_gt_0.
  assert (Hip : 0 < / p) by (apply Rinv_0_lt_compat; exact Hp).
  destruct HN as [HN1 HN2].
  assert (HN0 : 0 <= IZR N).
  { apply IZR_le. assert (0 < 10 ^ d)%Z by (apply Z.pow_pos_nonneg; lia). lia. }
  apply IZR_le in HN2. rewrite pow10_IZR in HN2 by lia.
  assert (E : bpow radix10 (d + 1) = bpow radix10 (lg + 1) * p).
  { unfold p. rewrite <- bpow_plus. f_equal. lia. }
  assert (Hlg308 : (lg + 1 <= 308)%Z).
  { assert (H : bpow radix10 lg < bpow radix10 308) by lra. apply lt_bpow in H. lia. }
  assert (Hle : bpow radix10 (lg + 1) <= bpow radix10 308) by (apply bpow_le; exact Hlg308).
  assert (Hz : (10 ^ 308 <= 2 ^ 1024 - 2 ^ 971)%Z) by (apply Z.leb_le; vm_compute; reflexivity).
  apply IZR_le in Hz. rewrite minus_IZR in Hz. rewrite (pow10_IZR 308) in Hz by lia.
  rewrite <- (bpow2_IZR 1024) in Hz by lia. rewrite <- (bpow2_IZR 971) in Hz by lia.
  assert (Hq0 : 0 <= IZR N / p) by (unfold Rdiv; apply Rmult_le_pos; lra).
  rewrite Rabs_pos_eq by exact Hq0.
  assert (Hq1 : IZR N / p <= bpow radix10 (lg + 1)).
  { apply Rmult_le_reg_r with p; [exact Hp|].
    replace (IZR N / p * p) with (IZR N) by (field; lra). rewrite <- E. exact HN2. }
  lra.
Qed.


(* ===================================================================== *)
(* The decimal exponent of a finite double; the spacing of doubles        *)
(* ===================================================================== *)

Lemma num_fact_tiny : (2 ^ 1074 < 10 ^ 324)%Z.
Proof. apply Z.ltb_lt. vm_compute. reflexivity. Qed.

Lemma bpow10_m324_lt : bpow radix10 (-324) < bpow radix2 (-1074).
Proof.
  assert (EA : bpow radix10 (-324) * bpow radix10 324 = 1).
  { rewrite <- bpow_plus. reflexivity. }
  assert (EU : bpow radix2 (-1074) * bpow radix2 1074 = 1).
  { rewrite <- bpow_plus. reflexivity. }
  pose proof num_fact_tiny as Hf. apply IZR_lt in Hf.
  rewrite <- (bpow2_IZR 1074) in Hf by lia. rewrite (pow10_IZR 324) in Hf by lia.
  pose proof (bpow_gt_0 radix10 324) as HA0. pose proof (bpow_gt_0 radix2 (-1074)) as Hu0.
  set (a := bpow radix10 (-324)) in *. set (A := bpow radix10 324) in *.
  set (u := bpow radix2 (-1074)) in *. set (U := bpow radix2 1074) in *.
  destruct (Rlt_or_le a u) as [H | H]; [exact H | exfalso].
  assert (G1 : u * A <= a * A) by (apply Rmult_le_compat_r; lra).
  assert (G2 : u * U < u * A) by (apply Rmult_lt_compat_l; lra).
  lra.
Qed.

Lemma log10_range_tight : forall m e lg, SpecFloat.bounded 53 1024 m e = true ->
  bpow radix10 lg <= magR m e < bpow radix10 (lg + 1) -> (-324 <= lg <= 308)%Z.
Proof.
  intros m e lg Hb [H1 H2].
  pose proof (bounded_ge m e Hb) as Hge. pose proof (bounded_le m e Hb) as Hle.
  set (x := magR m e) in *.
  split.
  - destruct (Z_lt_ge_dec lg (-324)) as [Hc | Hc]; [exfalso | lia].
    assert (Ha : bpow radix10 (lg + 1) <= bpow radix10 (-324)) by (apply bpow_le; lia).
    pose proof bpow10_m324_lt. lra.
  - destruct (Z_le_gt_dec lg 308) as [Hc | Hc]; [lia | exfalso].
    assert (Ha : bpow radix10 309 <= bpow radix10 lg) by (apply bpow_le; lia).
    pose proof num_fact_hi as Hf. apply IZR_lt in Hf.
    rewrite <- (bpow2_IZR 1024) in Hf by lia. rewrite (pow10_IZR 309) in Hf by lia.
    pose proof (bpow_gt_0 radix2 971) as H971.
    lra.
Qed.

(* every double is a multiple of the smallest positive double *)
Lemma fmt64_multiple : forall a, fmt64 a -> exists k, a = IZR k * bpow radix2 (-1074).
Proof.
  intros a Ha. unfold generic_format in Ha.
  set (c := cexp radix2 fexp64 a) in *.
  assert (Hc : (-1074 <= c)%Z) by (unfold c, cexp, FLT_exp; lia).
  set (t := Ztrunc (scaled_mantissa radix2 fexp64 a)) in *.
  exists (t * 2 ^ (c + 1074))%Z.
  etransitivity; [exact Ha|]. unfold F2R. cbn [Fnum Fexp].
  rewrite mult_IZR. rewrite <- (bpow2_IZR (c + 1074)) by lia.
  rewrite Rmult_assoc, <- bpow_plus. f_equal. f_equal. lia.
Qed.

Lemma fmt64_spacing : forall a b, fmt64 a -> fmt64 b -> a <> b ->
  bpow radix2 (-1074) <= Rabs (a - b).
Proof.
  intros a b Ha Hb Hab.
  destruct (fmt64_multiple a Ha) as [ka Eka]. destruct (fmt64_multiple b Hb) as [kb Ekb].
  pose proof (bpow_gt_0 radix2 (-1074)) as Hu.
  set (u := bpow radix2 (-1074)) in *.
  assert (Hk : ka <> kb) by (intros E; apply Hab; rewrite Eka, Ekb, E; reflexivity).
  replace (a - b) with (IZR (ka - kb) * u) by (rewrite minus_IZR, Eka, Ekb; ring).
  rewrite Rabs_mult, (Rabs_pos_eq u) by lra. rewrite <- abs_IZR.
  assert (H1 : 1 <= IZR (Z.abs (ka - kb))) by (apply IZR_le; lia).
  apply Rle_trans with (1 * u); [lra|]. apply Rmult_le_compat_r; lra.
Qed.

(* a double closer to D than half the smallest spacing is the rounding of D *)
Lemma rnd64_unique_near : forall x D, fmt64 x -> Rabs (x - D) < bpow radix2 (-1074) / 2 ->
  rnd64 D = x.
Proof.
  intros x D Hx Hn.
  destruct (Req_dec (rnd64 D) x) as [E | E]; [exact E | exfalso].
  assert (Hr : fmt64 (rnd64 D)) by (apply generic_format_round; auto with typeclass_instances).
  pose proof (fmt64_spacing _ _ Hr Hx E) as Hs.
  pose proof (rnd64_nearest D x Hx) as Hnear.
  replace (rnd64 D - x) with ((rnd64 D - D) + (D - x)) in Hs by ring.
  pose proof (Rabs_triang (rnd64 D - D) (D - x)) as Ht.
  rewrite (Rabs_minus_sym D x) in Ht. lra.
Qed.

(* the value printed for v with dd decimals at decimal exponent lg *)
Definition sciV (v : R) (dd : nat) (lg : Z) : R :=
  IZR (ZnearestE (v * bpow radix10 (Z.of_nat dd - lg))) / bpow radix10 (Z.of_nat dd - lg).

Lemma sci_value_sciV : forall m e dd, sci_value m e dd = sciV (magR m e) dd (ilog10 (sX m e) (sY e)).
Proof. intros m e dd. reflexivity. Qed.

Lemma sciV_half : forall v dd lg,
  Rabs (v - sciV v dd lg) <= / 2 * bpow radix10 (lg - Z.of_nat dd).
Proof.
  intros v dd lg. unfold sciV.
  set (p := bpow radix10 (Z.of_nat dd - lg)).
  assert (Hp : 0 < p) by apply bpow_gt_0.
  assert (Hip : bpow radix10 (lg - Z.of_nat dd) = / p).
  { unfold p. rewrite <- bpow_opp. f_equal. lia. }
  rewrite Hip.
  pose proof (ZnE_half (v * p)) as Hh. set (N := ZnearestE (v * p)) in *.
  replace (v - IZR N / p) with ((v * p - IZR N) * / p) by (field; lra).
  rewrite Rabs_mult. rewrite (Rabs_pos_eq (/ p)) by (left; apply Rinv_0_lt_compat; lra).
  apply Rmult_le_compat_r; [left; apply Rinv_0_lt_compat; lra | exact Hh].
Qed.

(* beyond 323 decimals the printed value reads back as the double itself *)
Lemma sciV_far : forall x dd lg, fmt64 x -> (323 < Z.of_nat dd - lg)%Z -> rnd64 (sciV x dd lg) = x.
Proof.
  intros x dd lg Hx Hfar. apply rnd64_unique_near; [exact Hx|].
  pose proof (sciV_half x dd lg) as Hh.
  assert (Hb : bpow radix10 (lg - Z.of_nat dd) <= bpow radix10 (-324)) by (apply bpow_le; lia).
  pose proof bpow10_m324_lt. lra.
Qed.

(* ===================================================================== *)
(* round() makes the printed value a fixed point                          *)
(* ===================================================================== *)

(* w is the double nearest to the dd+1 digit rounding of x (what round() returns); z is the double
   nearest to the dd+1 digit rounding of w (what float() returns on the text of w).  Then z prints
   with the same digits and exponent as w, without any hypothesis on the precision. *)
Lemma sci_image_idem : forall x (dd : nat) lg lgw lgz, fmt64 x -> 0 < x ->
  bpow radix10 lg <= x < bpow radix10 (lg + 1) ->
  let w := rnd64 (sciV x dd lg) in
  bpow radix10 lgw <= w < bpow radix10 (lgw + 1) ->
  let z := rnd64 (sciV w dd lgw) in
  z <= w /\ (bpow radix10 lgz <= z < bpow radix10 (lgz + 1) -> sciN z dd lgz = sciN w dd lgw).
Proof.
  intros x dd lg lgw lgz Hx Hx0 [Hlg1 Hlg2] w [Hw1 Hw2] z.
  set (d := Z.of_nat dd) in *.
  assert (Hd : (0 <= d)%Z) by (unfold d; lia).
  set (P := bpow radix10 d).
  set (p := bpow radix10 (d - lg)).
  assert (Hp : 0 < p) by apply bpow_gt_0.
  assert (HP1 : 1 <= P).
  { unfold P. change 1 with (bpow radix10 0). apply bpow_le. exact Hd. }
  assert (Hk : forall j, bpow radix10 (lg + j) * p = bpow radix10 (d + j)).
  { intros j. unfold p. rewrite <- bpow_plus. f_equal. lia. }
  assert (Hk0 : bpow radix10 lg * p = P).
  { replace lg with (lg + 0)%Z at 1 by lia. rewrite Hk. unfold P. f_equal. lia. }
  assert (Hk1 : bpow radix10 (lg + 1) * p = 10 * P).
  { rewrite Hk. apply bpow10_succ. }
  assert (HPZ : P = IZR (10 ^ d)) by (unfold P; rewrite pow10_IZR by lia; reflexivity).
  assert (HP10 : 10 * P = IZR (10 ^ (d + 1))).
  { rewrite pow10_IZR by lia. rewrite bpow10_succ. reflexivity. }
  set (N := ZnearestE (x * p)).
  assert (Ew : w = rnd64 (IZR N / p)) by reflexivity.
  set (v := x * p) in *.
  assert (Hv1 : P <= v).
  { rewrite <- Hk0. unfold v. apply Rmult_le_compat_r; lra. }
  assert (Hv2 : v < 10 * P).
  { rewrite <- Hk1. unfold v. apply Rmult_lt_compat_r; lra. }
  assert (HNlo : (10 ^ d <= N)%Z).
  { rewrite <- (ZnE_IZR (10 ^ d)). apply ZnE_le. rewrite <- HPZ. exact Hv1. }
  assert (HNhi : (N <= 10 ^ (d + 1))%Z).
  { rewrite <- (ZnE_IZR (10 ^ (d + 1))). apply ZnE_le. rewrite <- HP10. lra. }
  destruct (dec_idem_core x p Hp Hx) as [H1 H2]. fold v in H1, H2. fold N in H1, H2.
  rewrite <- Ew in H1, H2.
  pose proof (ZnE_half v) as Hh. fold N in Hh.
  set (t := w * p) in *.
  pose proof (Rabs_le_inv _ _ Hh) as Hh'.
  assert (Ht : Rabs (t - IZR N) <= / 2) by lra.
  pose proof (Rabs_le_inv _ _ Ht) as Ht'.
  assert (HNloR : P <= IZR N) by (rewrite HPZ; apply IZR_le; exact HNlo).
  assert (HNhiR : IZR N <= 10 * P) by (rewrite HP10; apply IZR_le; exact HNhi).
  assert (Hfw : fmt64 w) by (apply generic_format_round; auto with typeclass_instances).
  assert (Hw0 : 0 < w).
  { destruct (Rle_or_lt w 0) as [Hc | Hc]; [exfalso | exact Hc].
    assert (t <= 0 * p) by (unfold t; apply Rmult_le_compat_r; lra). lra. }
  assert (Hwt_le : forall k, bpow radix10 k <= w -> bpow radix10 k * p <= t).
  { intros k Hle. unfold t. apply Rmult_le_compat_r; lra. }
  assert (Hwt_lt : forall k, w < bpow radix10 k -> t < bpow radix10 k * p).
  { intros k Hlt. unfold t. apply Rmult_lt_compat_r; lra. }
  assert (Htw_le : forall k, bpow radix10 k * p <= t -> bpow radix10 k <= w).
  { intros k Hle. apply Rmult_le_reg_r with p; [exact Hp | exact Hle]. }
  assert (Htw_lt : forall k, t < bpow radix10 k * p -> w < bpow radix10 k).
  { intros k Hlt. apply Rmult_lt_reg_r with p; [exact Hp | exact Hlt]. }
  assert (Hb2 : bpow radix10 (lg + 2) * p = 100 * P).
  { rewrite Hk. replace (d + 2)%Z with (d + 1 + 1)%Z by lia. rewrite !bpow10_succ. fold P. ring. }
  assert (Hbm : 10 * (bpow radix10 (lg - 1) * p) = P).
  { replace (lg - 1)%Z with (lg + -1)%Z by lia. rewrite Hk. rewrite <- bpow10_succ.
    unfold P. f_equal. lia. }
  assert (Hcase : lgw = lg \/ lgw = (lg + 1)%Z \/ lgw = (lg - 1)%Z).
  { assert (A1 : (lgw < lg + 2)%Z).
    { apply (lt_bpow radix10). apply Rle_lt_trans with (1 := Hw1). apply Htw_lt. rewrite Hb2. lra. }
    assert (A2 : (lg - 1 < lgw + 1)%Z).
    { apply (lt_bpow radix10). apply Rle_lt_trans with (2 := Hw2). apply Htw_le. lra. }
    lia. }
  destruct Hcase as [Hc | [Hc | Hc]]; subst lgw.
  - (* same decade: the same digits, z = w *)
    assert (Ez : z = w).
    { unfold z, sciV. fold d. fold p. fold t. rewrite H2. symmetry. exact Ew. }
    split; [rewrite Ez; lra|]. intros Hz. rewrite Ez in Hz |- *.
    rewrite (log10_unique w lgz lg Hz (conj Hw1 Hw2)). reflexivity.
  - (* w reached 10^(lg+1): N = 10^(dd+1), the same value, z = w *)
    assert (Ht1 : 10 * P <= t) by (rewrite <- Hk1; apply Hwt_le; exact Hw1).
    assert (HN : N = (10 ^ (d + 1))%Z).
    { assert (Hgt : (10 ^ (d + 1) - 1 < N)%Z).
      { apply lt_IZR. rewrite minus_IZR. rewrite <- HP10. lra. }
      lia. }
    assert (HNR : IZR N = 10 * P) by (rewrite HN; symmetry; exact HP10).
    set (q := bpow radix10 (d - (lg + 1))).
    assert (Hq0 : 0 < q) by apply bpow_gt_0.
    assert (Hq : q * 10 = p).
    { unfold q, p. rewrite <- bpow10_1. rewrite <- bpow_plus. f_equal. lia. }
    assert (Hwq : w * q * 10 = t) by (unfold t; rewrite <- Hq; ring).
    assert (HZ : ZnearestE (w * q) = (10 ^ d)%Z).
    { apply Znearest_imp. rewrite <- HPZ. apply Rabs_lt. split; lra. }
    assert (EV : sciV w dd (lg + 1) = IZR N / p).
    { unfold sciV. fold d. fold q. rewrite HZ, <- HPZ, HNR, <- Hq. field. lra. }
    assert (Ez : z = w).
    { unfold z. rewrite EV. symmetry. exact Ew. }
    split; [rewrite Ez; lra|]. intros Hz. rewrite Ez in Hz |- *.
    rewrite (log10_unique w lgz (lg + 1) Hz (conj Hw1 Hw2)). reflexivity.
  - (* w < 10^lg <= x: N = 10^dd and w is far from the bottom of its decade *)
    replace (lg - 1 + 1)%Z with lg in Hw2 by lia.
    assert (Ht3 : t < P) by (rewrite <- Hk0; apply Hwt_lt; exact Hw2).
    assert (Hvt : IZR N - t <= v - IZR N).
    { rewrite (Rabs_left (t - IZR N)) in H1 by lra.
      destruct (Rle_or_lt v (IZR N)) as [Hvn | Hvn].
      - rewrite (Rabs_left1 (v - IZR N)) in H1 by lra. lra.
      - rewrite (Rabs_pos_eq (v - IZR N)) in H1 by lra. lra. }
    assert (HN10 : N = (10 ^ d)%Z).
    { assert (Hlt : (N < 10 ^ d + 1)%Z).
      { apply lt_IZR. rewrite plus_IZR. rewrite <- HPZ. lra. }
      lia. }
    assert (HNP : IZR N = P) by (rewrite HN10; symmetry; exact HPZ).
    set (p' := bpow radix10 (d - (lg - 1))).
    assert (Hq : p' = 10 * p).
    { unfold p'. replace (d - (lg - 1))%Z with (d - lg + 1)%Z by lia. apply bpow10_succ. }
    assert (Hp' : 0 < p') by apply bpow_gt_0.
    set (N' := ZnearestE (w * p')).
    assert (HN'hi : IZR N' <= 10 * P).
    { rewrite HP10. apply IZR_le. rewrite <- (ZnE_IZR (10 ^ (d + 1))). apply ZnE_le.
      rewrite <- HP10, Hq. replace (w * (10 * p)) with (10 * t) by (unfold t; ring). lra. }
    split.
    + assert (Hle : sciV w dd (lg - 1) <= IZR N / p).
      { unfold sciV. fold d. fold p'. fold N'.
        apply Rmult_le_reg_r with p'; [exact Hp'|].
        replace (IZR N' / p' * p') with (IZR N') by (field; lra).
        replace (IZR N / p * p') with (10 * IZR N) by (rewrite Hq; field; lra).
        lra. }
      apply Rle_trans with (rnd64 (IZR N / p)); [|rewrite <- Ew; apply Rle_refl].
      unfold z. apply round_le; auto with typeclass_instances.
    + intros Hz.
      assert (Hwb : bpow radix10 (lg - 1) <= w < bpow radix10 (lg - 1 + 1)).
      { split; [exact Hw1|]. replace (lg - 1 + 1)%Z with lg by lia. exact Hw2. }
      pose proof (sci_idem_core_gen w dd (lg - 1) lgz Hfw Hw0 Hwb) as G. cbv zeta in G.
      apply G; [|exact Hz]. clear G. intros _ HNP'. exfalso.
      fold d in HNP'. fold p' in HNP'. fold N' in HNP'. fold P in HNP'.
      pose proof (ZnE_half (w * p')) as Hh2. fold N' in Hh2. rewrite HNP' in Hh2.
      apply Rabs_le_inv in Hh2. rewrite Hq in Hh2.
      replace (w * (10 * p)) with (10 * t) in Hh2 by (unfold t; ring). lra.
Qed.

(* ===================================================================== *)
(* round() (py_round) in real numbers                                     *)
(* ===================================================================== *)

Lemma sci_nd_eq : forall m e dd, sci_nd m e dd = (Z.of_nat dd - ilog10 (sX m e) (sY e))%Z.
Proof. intros m e dd. unfold sci_nd. rewrite scaled_0. reflexivity. Qed.

(* the number of decimals handed to round() by the E branch: never below -308; it exceeds 323
   for tiny values printed with many digits, and round() then returns its argument *)
Lemma sci_nd_range : forall m e dd, SpecFloat.bounded 53 1024 m e = true ->
  (-308 <= sci_nd m e dd <= Z.of_nat dd + 324)%Z.
Proof.
  intros m e dd Hb. rewrite sci_nd_eq.
  pose proof (log10_range_tight m e _ Hb (ilog10_R m e)). lia.
Qed.

Lemma magR_lt_1e309 : forall m e, SpecFloat.bounded 53 1024 m e = true -> magR m e < bpow radix10 309.
Proof.
  intros m e Hb. pose proof (bounded_le m e Hb) as Hle.
  pose proof num_fact_hi as Hf. apply IZR_lt in Hf.
  rewrite <- (bpow2_IZR 1024) in Hf by lia. rewrite (pow10_IZR 309) in Hf by lia.
  pose proof (bpow_gt_0 radix2 971). lra.
Qed.

(* float.__round__ : the double nearest to the exact half-even decimal rounding *)
Theorem py_round_R : forall s m e nd y, SpecFloat.bounded 53 1024 m e = true ->
  (-308 <= nd <= 323)%Z -> py_round (S754_finite s m e) nd = Some y ->
  sfR y = sgnR s * rnd64 (IZR (round_dec m e nd) * bpow radix10 (- nd)) /\
  valid64 y = true /\ is_finite_SF y = true /\
  (y = S754_zero s \/ exists m' e', y = S754_finite s m' e').
Proof.
  intros s m e nd y Hb Hnd Hpr. unfold py_round in Hpr.
  assert (E1 : (323 <? nd)%Z = false) by (apply Z.ltb_ge; lia).
  assert (E2 : (nd <? -308)%Z = false) by (apply Z.ltb_ge; lia).
  rewrite E1, E2 in Hpr.
  pose proof (round_dec_nonneg m e nd) as HN0.
  set (N := round_dec m e nd) in *.
  destruct (Z.eq_dec N 0) as [HNz | HNz].
  - rewrite HNz in Hpr. rewrite sf_of_dec_zero in Hpr. injection Hpr as <-.
    rewrite HNz. rewrite Rmult_0_l. rewrite round_0 by auto with typeclass_instances.
    split; [unfold sfR; cbn [SF2R]; ring|]. split; [reflexivity|]. split; [reflexivity|].
    left. reflexivity.
  - assert (HN : (0 < N)%Z) by lia.
    (* the magnitude clamps of sf_of_dec are not reached *)
    assert (Hmag : (-400 <= Z.of_nat (length (dec_digits N)) + - nd <= 400)%Z).
    { assert (HN1 : (1 <= N)%Z) by lia.
      destruct (dec_digits_bounds N HN1) as [Hl [Hlo Hhi]].
      set (len := Z.of_nat (length (dec_digits N))) in *.
      assert (HNle : (N <= 10 ^ (309 + nd))%Z).
      { unfold N. rewrite round_dec_ZnE_gen. rewrite <- (ZnE_IZR (10 ^ (309 + nd))). apply ZnE_le.
        rewrite pow10_IZR by lia. rewrite bpow_plus.
        apply Rmult_le_compat_r; [apply bpow_ge_0|]. left. apply magR_lt_1e309. exact Hb. }
      assert (Hlt : (10 ^ (len - 1) < 10 ^ (310 + nd))%Z).
      { apply Z.le_lt_trans with (1 := Hlo). apply Z.le_lt_trans with (1 := HNle).
        apply Z.pow_lt_mono_r; lia. }
      apply Z.pow_lt_mono_r_iff in Hlt; lia. }
    assert (Ey : y = sf_of_dec s N (- nd)).
    { destruct (sf_of_dec s N (- nd)); try (injection Hpr as <-; reflexivity). discriminate Hpr. }
    assert (Hshape : y = S754_zero s \/ exists m' e', y = S754_finite s m' e').
    { rewrite Ey. destruct (sf_of_dec_shape s N (- nd)) as [Hs | [[m' [e' Hs]] | Hs]].
      - left. exact Hs.
      - right. exists m', e'. exact Hs.
      - rewrite Hs in Hpr. discriminate Hpr. }
    assert (Hfin : is_finite_SF y = true).
    { destruct Hshape as [Hs | [m' [e' Hs]]]; rewrite Hs; reflexivity. }
    rewrite Ey in Hfin.
    pose proof (sf_of_dec_finite_inv s N (- nd) HN Hmag Hfin) as Hov.
    destruct (sf_of_dec_spec s N (- nd) HN Hmag Hov) as [H1 [H2 [H3 _]]].
    rewrite <- Ey in H1, H2, H3.
    split; [|split; [exact H2 | split; [exact H3 | exact Hshape]]].
    rewrite H1. unfold decR. rewrite Rmult_assoc. apply rnd64_sgn.
Qed.

Lemma sci_round_value : forall m e dd,
  IZR (round_dec m e (sci_nd m e dd)) * bpow radix10 (- sci_nd m e dd) = sci_value m e dd.
Proof.
  intros m e dd. rewrite sci_nd_eq, round_dec_ZnE_gen. unfold sci_value. rewrite bpow_opp. reflexivity.
Qed.

(* what the E branch hands to format: a finite double of the same sign; the double nearest to the
   dd+1 digit rounding of the value, or the value itself beyond 323 decimals *)
Theorem sci_val_spec : forall s m e dd, SpecFloat.bounded 53 1024 m e = true ->
  sci_raises (S754_finite s m e) dd = false ->
  exists m' e', sci_val (S754_finite s m e) dd = S754_finite s m' e' /\
    SpecFloat.bounded 53 1024 m' e' = true /\
    (((323 < sci_nd m e dd)%Z /\ m' = m /\ e' = e) \/
     ((sci_nd m e dd <= 323)%Z /\ magR m' e' = rnd64 (sci_value m e dd))).
Proof.
  intros s m e dd Hb Hnr. unfold sci_raises in Hnr. unfold sci_val.
  destruct (py_round (S754_finite s m e) (sci_nd m e dd)) as [y|] eqn:Hpr; [|discriminate Hnr].
  destruct (Z_lt_ge_dec 323 (sci_nd m e dd)) as [Hfar | Hnear].
  - unfold py_round in Hpr. rewrite (proj2 (Z.ltb_lt _ _) Hfar) in Hpr. injection Hpr as <-.
    exists m, e. split; [reflexivity|]. split; [exact Hb|]. left. auto.
  - pose proof (sci_nd_range m e dd Hb) as Hr.
    assert (Hnd : (-308 <= sci_nd m e dd <= 323)%Z) by lia.
    destruct (py_round_R s m e _ y Hb Hnd Hpr) as [H1 [H2 [H3 Hshape]]].
    rewrite sci_round_value in H1.
    pose proof (sci_value_core m e dd Hb) as Hpos.
    pose proof (sgnR_neq0 s) as Hs0.
    destruct Hshape as [Hs | [m' [e' Hs]]]; subst y.
    + exfalso. unfold sfR in H1. cbn [SF2R] in H1.
      assert (sgnR s * rnd64 (sci_value m e dd) <> 0)
        by (apply Rmult_integral_contrapositive_currified; lra).
      lra.
    + exists m', e'. split; [reflexivity|]. split; [exact H2|]. right. split; [lia|].
      rewrite sfR_finite in H1. apply Rmult_eq_reg_l with (sgnR s); [exact H1 | exact Hs0].
Qed.

(* round() never returns a zero on a finite double in the E branch *)
Corollary sci_val_finite : forall s m e dd, SpecFloat.bounded 53 1024 m e = true ->
  sci_raises (S754_finite s m e) dd = false ->
  exists m' e', sci_val (S754_finite s m e) dd = S754_finite s m' e'.
Proof.
  intros s m e dd Hb Hnr. destruct (sci_val_spec s m e dd Hb Hnr) as [m' [e' [H _]]].
  exists m', e'. exact H.
Qed.

(* the write does not raise when the rounding of the printed value does not overflow *)
Lemma sci_not_raises : forall s m e dd, SpecFloat.bounded 53 1024 m e = true ->
  Rabs (rnd64 (sci_value m e dd)) < bpow radix2 1024 ->
  sci_raises (S754_finite s m e) dd = false.
Proof.
  intros s m e dd Hb Hov. unfold sci_raises, py_round.
  destruct (323 <? sci_nd m e dd)%Z; [reflexivity|].
  destruct (sci_nd m e dd <? -308)%Z; [reflexivity|].
  pose proof (sci_round_value m e dd) as Hval.
  pose proof (ilog10_R m e) as Hlg.
  pose proof (log10_range_tight m e _ Hb Hlg) as Hrange.
  pose proof (sci_N_range (magR m e) dd _ Hlg) as HN.
  rewrite <- round_dec_ZnE_gen in HN. rewrite <- sci_nd_eq in HN.
  pose proof (sci_nd_eq m e dd) as End.
  set (nd := sci_nd m e dd) in *. set (N := round_dec m e nd) in *.
  set (d := Z.of_nat dd) in *. assert (Hd : (0 <= d)%Z) by (unfold d; lia).
  assert (Hp : (0 < 10 ^ d)%Z) by (apply Z.pow_pos_nonneg; lia).
  assert (HN0 : (0 < N)%Z) by lia.
  assert (Hlen : (d + 1 <= Z.of_nat (length (dec_digits N)) <= d + 2)%Z).
  { destruct (Z_lt_ge_dec N (10 ^ (d + 1))) as [Hc | Hc].
    - rewrite (pow10_digits N d Hd) by lia. lia.
    - assert (HNe : N = (10 ^ (d + 1))%Z) by lia.
      assert (H2 : (10 ^ (d + 1) < 10 ^ (d + 1 + 1))%Z) by (apply Z.pow_lt_mono_r; lia).
      rewrite (pow10_digits N (d + 1)) by lia. lia. }
  assert (Hmag : (-400 <= Z.of_nat (length (dec_digits N)) + - nd <= 400)%Z) by lia.
  assert (Hdec : decR s N (- nd) = sgnR s * sci_value m e dd).
  { unfold decR. rewrite Rmult_assoc. rewrite Hval. reflexivity. }
  assert (Hov' : Rabs (rnd64 (decR s N (- nd))) < bpow radix2 1024).
  { rewrite Hdec, rnd64_sgn, Rabs_mult, sgnR_abs, Rmult_1_l. exact Hov. }
  destruct (sf_of_dec_spec s N (- nd) HN0 Hmag Hov') as [_ [_ [H3 _]]].
  destruct (sf_of_dec s N (- nd)); try reflexivity. discriminate H3.
Qed.

(* fmtE depends on the sign and the value only *)
Lemma fmtE_value : forall up s m1 e1 m2 e2 dd, magR m1 e1 = magR m2 e2 ->
  fmtE up (S754_finite s m1 e1) dd = fmtE up (S754_finite s m2 e2) dd.
Proof.
  intros up s m1 e1 m2 e2 dd E.
  pose proof (ilog10_R m1 e1) as H1. pose proof H1 as H2. rewrite E in H2.
  rewrite (fmtE_char up s m1 e1 dd _ H1). rewrite (fmtE_char up s m2 e2 dd _ H2).
  rewrite E. reflexivity.
Qed.

(* ===================================================================== *)
(* Absorption: with enough precision round() does not change the text     *)
(* ===================================================================== *)

Theorem fmtE_round_absorb : forall up s m e dd, SpecFloat.bounded 53 1024 m e = true ->
  sci_precise dd (magR m e) -> sci_raises (S754_finite s m e) dd = false ->
  fmtE up (sci_val (S754_finite s m e) dd) dd = fmtE up (S754_finite s m e) dd.
Proof.
  intros up s m e dd Hb Hprec Hnr.
  destruct (sci_val_spec s m e dd Hb Hnr) as [m' [e' [Hv [Hb' [[_ [Em Ee]] | [_ Hm']]]]]]; rewrite Hv.
  - subst m' e'. reflexivity.
  - rewrite (fmtE_char up s m' e' dd _ (ilog10_R m' e')).
    rewrite (fmtE_char up s m e dd _ (ilog10_R m e)).
    pose proof (ilog10_R m' e') as Hlgy. rewrite Hm' in Hlgy |- *.
    pose proof (sci_idem_core (magR m e) dd (ilog10 (sX m e) (sY e)) (ilog10 (sX m' e') (sY e'))
                  (bounded_fmt m e Hb) (magR_pos m e) (ilog10_R m e) Hprec) as HC.
    cbv zeta in HC. unfold sci_value in Hlgy |- *.
    rewrite (HC Hlgy). reflexivity.
Qed.

Corollary fmtE_round_absorb_normal : forall up s m e dd, SpecFloat.bounded 53 1024 m e = true ->
  (dd <= 14)%nat -> (2 ^ 52 <= Zpos m)%Z -> sci_raises (S754_finite s m e) dd = false ->
  fmtE up (sci_val (S754_finite s m e) dd) dd = fmtE up (S754_finite s m e) dd.
Proof.
  intros up s m e dd Hb Hdd Hnorm Hnr. apply fmtE_round_absorb; [exact Hb | | exact Hnr].
  apply sci_precise_normal; [exact Hdd | apply normal_R; assumption].
Qed.

(* ===================================================================== *)
(* Stage (c): text stability of E-notation float fields (faithful model)  *)
(* ===================================================================== *)

(* the value read back is a finite float *)
Definition finite_value (v : value) : bool :=
  match v with VFloat x => is_finite_SF x | _ => false end.

(* what round() returns prints as a decimal that reads back as a double printing the same way *)
Lemma sci_fix : forall s m e dd, SpecFloat.bounded 53 1024 m e = true ->
  sci_raises (S754_finite s m e) dd = false ->
  exists mw ew, sci_val (S754_finite s m e) dd = S754_finite s mw ew /\
    SpecFloat.bounded 53 1024 mw ew = true /\
    rnd64 (sci_value mw ew dd) <= magR mw ew /\
    forall mz ez, magR mz ez = rnd64 (sci_value mw ew dd) ->
      sciN (magR mz ez) dd (ilog10 (sX mz ez) (sY ez)) = sciN (magR mw ew) dd (ilog10 (sX mw ew) (sY ew)).
Proof.
  intros s m e dd Hb Hnr.
  destruct (sci_val_spec s m e dd Hb Hnr) as [mw [ew [Hv [Hbw [[Hfar [Em Ee]] | [_ Hmw]]]]]];
    exists mw, ew; (split; [exact Hv|]); (split; [exact Hbw|]).
  - subst mw ew. rewrite sci_nd_eq in Hfar.
    pose proof (sciV_far (magR m e) dd _ (bounded_fmt m e Hb) Hfar) as Hz.
    rewrite <- sci_value_sciV in Hz. rewrite Hz. split; [apply Rle_refl|].
    intros mz ez Emz. pose proof (ilog10_R mz ez) as Hlz. rewrite Emz in Hlz |- *.
    rewrite (log10_unique _ _ _ Hlz (ilog10_R m e)). reflexivity.
  - pose proof (sci_image_idem (magR m e) dd (ilog10 (sX m e) (sY e)) (ilog10 (sX mw ew) (sY ew))) as G.
    assert (G' : forall lgz,
      rnd64 (sci_value mw ew dd) <= magR mw ew /\
      (bpow radix10 lgz <= rnd64 (sci_value mw ew dd) < bpow radix10 (lgz + 1) ->
       sciN (rnd64 (sci_value mw ew dd)) dd lgz = sciN (magR mw ew) dd (ilog10 (sX mw ew) (sY ew)))).
    { intros lgz. specialize (G lgz (bounded_fmt m e Hb) (magR_pos m e) (ilog10_R m e)).
      cbv zeta in G. rewrite <- sci_value_sciV in G. rewrite <- Hmw in G.
      rewrite <- sci_value_sciV in G. apply G. apply ilog10_R. }
    split; [exact (proj1 (G' 0%Z))|].
    intros mz ez Emz. pose proof (ilog10_R mz ez) as Hlz. rewrite Emz in Hlz |- *.
    exact (proj2 (G' _) Hlz).
Qed.

(* equal digits and exponent: equal printed values *)
Lemma sciN_sci_value : forall m1 e1 m2 e2 dd, SpecFloat.bounded 53 1024 m1 e1 = true ->
  SpecFloat.bounded 53 1024 m2 e2 = true ->
  sciN (magR m1 e1) dd (ilog10 (sX m1 e1) (sY e1)) = sciN (magR m2 e2) dd (ilog10 (sX m2 e2) (sY e2)) ->
  sci_value m1 e1 dd = sci_value m2 e2 dd.
Proof.
  intros m1 e1 m2 e2 dd Hb1 Hb2 E.
  destruct (sci_reparse false m1 e1 dd Hb1) as [_ [D1 _]].
  destruct (sci_reparse false m2 e2 dd Hb2) as [_ [D2 _]].
  unfold sci_digits, sci_exp in D1, D2. rewrite E in D1. rewrite D2 in D1.
  unfold sgnR in D1. lra.
Qed.

(* the heart of the matter: E notation on the faithful model is stable whenever the text fits *)
Theorem stable_float_sci_faithful : forall f dd up sep s m e, kind f = KFloat dd true up sep ->
  (sep = [DOT] \/ sep = [44%N]) ->
  SpecFloat.bounded 53 1024 m e = true -> fits f (VFloat (S754_finite s m e)) = true ->
  stable_field f (VFloat (S754_finite s m e)) /\
  finite_value (reread f (VFloat (S754_finite s m e))) = true.
Proof.
  intros f dd up sep s m e Hk Hsep Hb Hfits.
  pose proof (fits_not_raises f dd up sep _ Hk Hfits eq_refl) as Hnr.
  destruct (sci_fix s m e dd Hb Hnr) as [mw [ew [Hv [Hbw [Hzw Hsc]]]]].
  (* the text and what it reads back as *)
  assert (Htxt : fmtE up (sci_val (S754_finite s m e) dd) dd =
                 sci_text up s (sci_digits mw ew dd) dd (sci_exp mw ew dd)).
  { rewrite Hv. apply fmtE_digits. }
  destruct (sci_reparse s mw ew dd Hbw) as [Hrange _].
  assert (Hp : (0 < 10 ^ Z.of_nat dd)%Z) by (apply Z.pow_pos_nonneg; lia).
  assert (Hn : (0 <= sci_digits mw ew dd < 10 ^ (Z.of_nat dd + 1))%Z) by lia.
  destruct (reread_float_sci_of_text f dd up sep s m e _ _ Hk Hsep Hfits Hn Htxt) as [_ Hre].
  (* it is the finite double z nearest to the printed value *)
  pose proof (sci_value_core mw ew dd Hbw) as Hzpos.
  assert (Hovw : Rabs (rnd64 (sci_value mw ew dd)) < bpow radix2 1024).
  { rewrite Rabs_pos_eq by lra. pose proof (bounded_le mw ew Hbw). pose proof (bpow_gt_0 radix2 971). lra. }
  destruct (sci_reparse_finite s mw ew dd Hbw Hovw) as [mz [ez [Hy [Hbz Hmz]]]].
  rewrite Hy in Hre.
  pose proof (Hsc mz ez Hmz) as E1.
  pose proof (sciN_sci_value mz ez mw ew dd Hbz Hbw E1) as E2.
  (* writing z does not raise and round() leaves its value alone *)
  assert (Hovz : Rabs (rnd64 (sci_value mz ez dd)) < bpow radix2 1024) by (rewrite E2; exact Hovw).
  pose proof (sci_not_raises s mz ez dd Hbz Hovz) as Hnrz.
  destruct (sci_val_spec s mz ez dd Hbz Hnrz) as [m2 [e2 [Hv2 [Hb2 Hcase]]]].
  assert (Em2 : magR m2 e2 = magR mz ez).
  { destruct Hcase as [[_ [Em Ee]] | [_ Hm2]]; [subst; reflexivity|]. rewrite Hm2, E2. symmetry. exact Hmz. }
  assert (HE : fmtE up (sci_val (S754_finite s mz ez) dd) dd = fmtE up (sci_val (S754_finite s m e) dd) dd).
  { rewrite Hv2, Hv. rewrite (fmtE_value up s m2 e2 mz ez dd Em2).
    rewrite (fmtE_char up s mz ez dd _ (ilog10_R mz ez)).
    rewrite (fmtE_char up s mw ew dd _ (ilog10_R mw ew)). rewrite E1. reflexivity. }
  split.
  - unfold stable_field. rewrite Hre.
    rewrite (render_float f dd true up sep (S754_finite s mz ez) Hk eq_refl Hnrz).
    rewrite (render_float f dd true up sep (S754_finite s m e) Hk eq_refl Hnr).
    cbv zeta. unfold float_text, float_text_full. cbn [is_zero negb andb]. rewrite HE. reflexivity.
  - rewrite Hre. reflexivity.
Qed.

(* ---------- the theorems under their former names.  On the faithful model the three hypotheses
   that the model without round() needed (Hdigits, Hnormal / Hprecise, Hreread_finite / Hbelow)
   are no longer used: stability holds whenever the text fits (stable_float_sci_faithful), and the
   finiteness of the re-read value is a consequence.  They are kept so that the statements are the
   former ones; what dd <= 14 and normality still buy is the half-unit bound (float_sci_half_unit). *)
Theorem stable_float_sci_all : forall f dd up sep s m e, kind f = KFloat dd true up sep ->
  (sep = [DOT] \/ sep = [44%N]) ->
  SpecFloat.bounded 53 1024 m e = true -> fits f (VFloat (S754_finite s m e)) = true ->
  stable_field f (VFloat (S754_finite s m e)).
Proof.
  intros f dd up sep s m e Hk Hsep Hb Hfits.
  exact (proj1 (stable_float_sci_faithful f dd up sep s m e Hk Hsep Hb Hfits)).
Qed.

Theorem reread_float_sci_finite : forall f dd up sep s m e, kind f = KFloat dd true up sep ->
  (sep = [DOT] \/ sep = [44%N]) ->
  SpecFloat.bounded 53 1024 m e = true -> fits f (VFloat (S754_finite s m e)) = true ->
  finite_value (reread f (VFloat (S754_finite s m e))) = true.
Proof.
  intros f dd up sep s m e Hk Hsep Hb Hfits.
  exact (proj2 (stable_float_sci_faithful f dd up sep s m e Hk Hsep Hb Hfits)).
Qed.

Theorem stable_float_sci_gen : forall f dd up sep s m e, kind f = KFloat dd true up sep ->
  (sep = [DOT] \/ sep = [44%N]) ->
  SpecFloat.bounded 53 1024 m e = true -> fits f (VFloat (S754_finite s m e)) = true ->
  forall (Hprecise : sci_precise dd (magR m e))
         (Hreread_finite : finite_value (reread f (VFloat (S754_finite s m e))) = true),
  stable_field f (VFloat (S754_finite s m e)).
Proof.
  intros f dd up sep s m e Hk Hsep Hb Hfits _ _.
  exact (stable_float_sci_all f dd up sep s m e Hk Hsep Hb Hfits).
Qed.

Theorem stable_float_sci : forall f dd up sep s m e, kind f = KFloat dd true up sep ->
  (sep = [DOT] \/ sep = [44%N]) ->
  SpecFloat.bounded 53 1024 m e = true -> fits f (VFloat (S754_finite s m e)) = true ->
  forall (Hdigits : (dd <= 14)%nat)
         (Hnormal : (2 ^ 52 <= Zpos m)%Z)
         (Hreread_finite : finite_value (reread f (VFloat (S754_finite s m e))) = true),
  stable_field f (VFloat (S754_finite s m e)).
Proof.
  intros f dd up sep s m e Hk Hsep Hb Hfits _ _ _.
  exact (stable_float_sci_all f dd up sep s m e Hk Hsep Hb Hfits).
Qed.

Theorem stable_float_sci_below_1e308 : forall f dd up sep s m e, kind f = KFloat dd true up sep ->
  (sep = [DOT] \/ sep = [44%N]) ->
  SpecFloat.bounded 53 1024 m e = true -> fits f (VFloat (S754_finite s m e)) = true ->
  forall (Hdigits : (dd <= 14)%nat)
         (Hnormal : (2 ^ 52 <= Zpos m)%Z)
         (Hbelow : magR m e < bpow radix10 308),
  stable_field f (VFloat (S754_finite s m e)).
Proof.
  intros f dd up sep s m e Hk Hsep Hb Hfits _ _ _.
  exact (stable_float_sci_all f dd up sep s m e Hk Hsep Hb Hfits).
Qed.

(* signed zeros (rendered through the decreasing loop): no real numbers *)
Theorem stable_float_sci_zero : forall f dd up sep s, kind f = KFloat dd true up sep ->
  (sep = [DOT] \/ sep = [44%N]) ->
  fits f (VFloat (S754_zero s)) = true -> stable_field f (VFloat (S754_zero s)).
Proof.
  intros f dd up sep s Hk Hsep Hfits. unfold stable_field.
  rewrite (reread_float_sci_zero f dd up sep s Hk Hsep Hfits). reflexivity.
Qed.

(* values below 10^308 can always be written *)
Theorem sci_writes_below_1e308 : forall s m e dd, SpecFloat.bounded 53 1024 m e = true ->
  magR m e < bpow radix10 308 -> sci_raises (S754_finite s m e) dd = false.
Proof.
  intros s m e dd Hb Hlt. apply sci_not_raises; [exact Hb|].
  apply sci_value_no_overflow; assumption.
Qed.

(* ---------- the half-unit bound: with enough precision the text is that of the value itself,
   hence within half a unit of its last digit of the value (false without: see below) *)
Theorem float_sci_half_unit : forall f dd up sep s m e, kind f = KFloat dd true up sep ->
  (sep = [DOT] \/ sep = [44%N]) ->
  SpecFloat.bounded 53 1024 m e = true -> fits f (VFloat (S754_finite s m e)) = true ->
  forall (Hprecise : sci_precise dd (magR m e)),
  exists n e10, (10 ^ Z.of_nat dd <= n < 10 ^ (Z.of_nat dd + 1))%Z /\
    float_text true (size f) dd true up sep (S754_finite s m e) = replace [DOT] sep (sci_text up s n dd e10) /\
    (let (num, den) := scaled m e (Z.of_nat dd - e10) in (2 * Z.abs (n * den - num) <= den)%Z) /\
    reread f (VFloat (S754_finite s m e)) = VFloat (sf_of_dec s n (e10 - Z.of_nat dd)).
Proof.
  intros f dd up sep s m e Hk Hsep Hb Hfits Hprec.
  pose proof (fits_not_raises f dd up sep _ Hk Hfits eq_refl) as Hnr.
  destruct (fmtE_shape up s m e dd) as [n [e10 [Htxt0 [Hrange Hhalf]]]].
  exists n, e10. split; [exact Hrange|].
  assert (Hp : (0 < 10 ^ Z.of_nat dd)%Z) by (apply Z.pow_pos_nonneg; lia).
  assert (Hn : (0 <= n < 10 ^ (Z.of_nat dd + 1))%Z) by lia.
  assert (Htxt : fmtE up (sci_val (S754_finite s m e) dd) dd = sci_text up s n dd e10).
  { rewrite (fmtE_round_absorb up s m e dd Hb Hprec Hnr). exact Htxt0. }
  destruct (reread_float_sci_of_text f dd up sep s m e n e10 Hk Hsep Hfits Hn Htxt) as [H1 H2].
  split; [exact H1|]. split; [exact Hhalf | exact H2].
Qed.

Corollary float_sci_half_unit_normal : forall f dd up sep s m e, kind f = KFloat dd true up sep ->
  (sep = [DOT] \/ sep = [44%N]) ->
  SpecFloat.bounded 53 1024 m e = true -> fits f (VFloat (S754_finite s m e)) = true ->
  forall (Hdigits : (dd <= 14)%nat) (Hnormal : (2 ^ 52 <= Zpos m)%Z),
  exists n e10, (10 ^ Z.of_nat dd <= n < 10 ^ (Z.of_nat dd + 1))%Z /\
    float_text true (size f) dd true up sep (S754_finite s m e) = replace [DOT] sep (sci_text up s n dd e10) /\
    (let (num, den) := scaled m e (Z.of_nat dd - e10) in (2 * Z.abs (n * den - num) <= den)%Z) /\
    reread f (VFloat (S754_finite s m e)) = VFloat (sf_of_dec s n (e10 - Z.of_nat dd)).
Proof.
  intros f dd up sep s m e Hk Hsep Hb Hfits Hdd Hnorm.
  apply (float_sci_half_unit f dd up sep s m e Hk Hsep Hb Hfits).
  apply sci_precise_normal; [exact Hdd | apply normal_R; assumption].
Qed.

(* ===================================================================== *)
(* Stage (a), continued: which pairs (n, e10) are printed                 *)
(* ===================================================================== *)

(* The pair printed for a value is NOT determined by "n has dd+1 digits and n is the half-even
   rounding of v * 10^(dd - e10)" alone: 0.7 with dd = 0 rounds to n = 1 at e10 = 0, but prints as
   7E-01.  The pair is determined once the position of v relative to 10^e10 is known. *)
Theorem fmtE_unique : forall up s m e (dd : nat) n e10,
  (10 ^ Z.of_nat dd <= n < 10 ^ (Z.of_nat dd + 1))%Z ->
  (bpow radix10 e10 <= magR m e /\
   ZnearestE (magR m e * bpow radix10 (Z.of_nat dd - e10)) = n) \/
  (magR m e < bpow radix10 e10 /\ n = (10 ^ Z.of_nat dd)%Z /\
   ZnearestE (magR m e * bpow radix10 (Z.of_nat dd - e10 + 1)) = (10 ^ (Z.of_nat dd + 1))%Z) ->
  fmtE up (S754_finite s m e) dd = sci_text up s n dd e10.
Proof.
  intros up s m e dd n e10 Hn Hcase.
  set (x := magR m e) in *. set (d := Z.of_nat dd) in *.
  assert (Hd : (0 <= d)%Z) by (unfold d; lia).
  set (P := bpow radix10 d).
  assert (HP1 : 1 <= P).
  { unfold P. change 1 with (bpow radix10 0). apply bpow_le. exact Hd. }
  assert (HPZ : P = IZR (10 ^ d)) by (unfold P; rewrite pow10_IZR by lia; reflexivity).
  assert (HP10 : 10 * P = IZR (10 ^ (d + 1))).
  { rewrite pow10_IZR by lia. rewrite bpow10_succ. reflexivity. }
  destruct Hcase as [[Hlo HZ] | [Hhi [Hn10 HZ]]].
  - set (p := bpow radix10 (d - e10)) in *.
    assert (Hp : 0 < p) by apply bpow_gt_0.
    pose proof (ZnE_half (x * p)) as Hh. rewrite HZ in Hh. apply Rabs_le_inv in Hh.
    assert (HnR : IZR n <= 10 * P - 1).
    { assert (Hz : (n <= 10 ^ (d + 1) - 1)%Z) by lia.
      apply IZR_le in Hz. rewrite minus_IZR in Hz. rewrite <- HP10 in Hz. exact Hz. }
    assert (Hk1 : bpow radix10 (e10 + 1) * p = 10 * P).
    { unfold p. rewrite <- bpow_plus. replace (e10 + 1 + (d - e10))%Z with (d + 1)%Z by lia.
      apply bpow10_succ. }
    assert (Hup : x < bpow radix10 (e10 + 1)).
    { apply Rmult_lt_reg_r with p; [exact Hp|]. rewrite Hk1. lra. }
    rewrite (fmtE_char up s m e dd e10 (conj Hlo Hup)). unfold sciN. fold x. fold d. fold p.
    rewrite HZ. destruct (Z.eqb_spec n (10 ^ (d + 1))) as [Hc | Hc]; [lia | reflexivity].
  - set (p := bpow radix10 (d - e10 + 1)) in *.
    assert (Hp : 0 < p) by apply bpow_gt_0.
    pose proof (ZnE_half (x * p)) as Hh. rewrite HZ in Hh. rewrite <- HP10 in Hh.
    apply Rabs_le_inv in Hh.
    assert (Hk1 : bpow radix10 (e10 - 1) * p = P).
    { unfold p, P. rewrite <- bpow_plus. f_equal. lia. }
    assert (Hlo : bpow radix10 (e10 - 1) <= x).
    { apply Rmult_le_reg_r with p; [exact Hp|]. rewrite Hk1. lra. }
    assert (Hup : x < bpow radix10 (e10 - 1 + 1)).
    { replace (e10 - 1 + 1)%Z with e10 by lia. exact Hhi. }
    rewrite (fmtE_char up s m e dd (e10 - 1) (conj Hlo Hup)). unfold sciN. fold x. fold d.
    replace (d - (e10 - 1))%Z with (d - e10 + 1)%Z by lia. fold p.
    rewrite HZ. rewrite Z.eqb_refl. cbn [fst snd]. rewrite Hn10.
    replace (e10 - 1 + 1)%Z with e10 by lia. reflexivity.
Qed.

(* ===================================================================== *)
(* Refutations on the faithful model (by computation)                     *)
(* ===================================================================== *)

Definition cex_field (dd width : nat) : field :=
  {| kind := KFloat dd true true [DOT]; size := width; start := 0 |}.

(* 0.7 with dd = 0: the half-even rounding at exponent 0 is 1, a one-digit number, yet the text
   is 7E-01 and not 1E+00 (about fmtE itself) *)
Example cex_naive_uniqueness :
  let x := sf_of_dec false 7 (-1) in
  match x with
  | S754_finite s m e =>
      round_dec m e (0 - 0) = 1%Z /\ str_eqb (fmtE true x 0) (sci_text true s 1 0 0) = false /\
      str_eqb (fmtE true x 0) (sci_text true s 7 0 (-1)) = true
  | _ => False
  end.
Proof. vm_compute. repeat split; reflexivity. Qed.

(* (a) a subnormal double: 21 * 2^-1074 = 1.04E-322 is written as 9.9E-323 (round() gives
   20 * 2^-1074 first), which is NOT within half a unit of its last digit of the value:
   2 * |99 * 10^-324 - 21 * 2^-1074| > 10^-324, stated after multiplication by 10^324 * 2^1074 *)
Example half_unit_fails_subnormal :
  let x := S754_finite false 21 (-1074) in
  SpecFloat.bounded 53 1024 21 (-1074) = true /\
  sci_raises x 1 = false /\
  fmtE true (sci_val x 1) 1 = [57; 46; 57; 69; 45; 51; 50; 51]%N /\
  fmtE true (sci_val x 1) 1 = sci_text true false 99 1 (-323) /\
  (2 * Z.abs (99 * 2 ^ 1074 - 21 * 10 ^ 324) > 2 ^ 1074)%Z /\
  fits (cex_field 1 8) (VFloat x) = true.
Proof.
  cbv zeta. split; [reflexivity|]. split; [vm_compute; reflexivity|].
  split; [vm_compute; reflexivity|]. split; [vm_compute; reflexivity|].
  split; [vm_compute; reflexivity|]. vm_compute; reflexivity.
Qed.

(* (b) 16 significant digits: 1.0000000000000001e23 is written as 9.999999999999999E+22 *)
Example half_unit_fails_16_digits :
  let x := S754_finite false 5960464477539063 24 in
  SpecFloat.bounded 53 1024 5960464477539063 24 = true /\ (2 ^ 52 <= 5960464477539063)%Z /\
  sci_raises x 15 = false /\
  fmtE true (sci_val x 15) 15 =
    [57; 46; 57; 57; 57; 57; 57; 57; 57; 57; 57; 57; 57; 57; 57; 57; 57; 69; 43; 50; 50]%N /\
  fmtE true (sci_val x 15) 15 = sci_text true false 9999999999999999 15 22 /\
  (2 * Z.abs (9999999999999999 * 10 ^ 7 - 5960464477539063 * 2 ^ 24) > 10 ^ 7)%Z /\
  fits (cex_field 15 21) (VFloat x) = true.
Proof.
  cbv zeta. split; [reflexivity|]. split; [lia|]. split; [vm_compute; reflexivity|].
  split; [vm_compute; reflexivity|]. split; [vm_compute; reflexivity|].
  split; [vm_compute; reflexivity|]. vm_compute; reflexivity.
Qed.

(* (c) the largest double cannot be written with dd = 2: round(x, -306) overflows *)
Example write_raises_near_max :
  let x := S754_finite false 9007199254740991 971 in
  SpecFloat.bounded 53 1024 9007199254740991 971 = true /\
  sci_raises x 2 = true /\ render (cex_field 2 9) (VFloat x) = None /\
  fits (cex_field 2 9) (VFloat x) = false.
Proof.
  cbv zeta. split; [reflexivity|]. split; [vm_compute; reflexivity|].
  split; vm_compute; reflexivity.
Qed.

(* (d) stability does hold on these witnesses (instances of stable_float_sci_faithful, by computation) *)
Example stable_on_former_witnesses :
  stable_field (cex_field 1 8) (VFloat (S754_finite false 21 (-1074))) /\
  stable_field (cex_field 15 21) (VFloat (S754_finite false 5960464477539063 24)).
Proof. unfold stable_field. split; vm_compute; reflexivity. Qed.

(* ===================================================================== *)
Print Assumptions fmtE_char.
Print Assumptions fmtE_digits.
Print Assumptions fmtE_unique.
Print Assumptions sci_idem_core_gen.
Print Assumptions sci_idem_core.
Print Assumptions sf_of_dec_finite_inv.
Print Assumptions fmtE_idempotent_R.
Print Assumptions fmtE_idempotent.
Print Assumptions sci_image_idem.
Print Assumptions sci_nd_range.
Print Assumptions py_round_R.
Print Assumptions sci_val_spec.
Print Assumptions sci_val_finite.
Print Assumptions sci_not_raises.
Print Assumptions sci_writes_below_1e308.
Print Assumptions fmtE_round_absorb.
Print Assumptions fmtE_round_absorb_normal.
Print Assumptions stable_float_sci_faithful.
Print Assumptions stable_float_sci_all.
Print Assumptions reread_float_sci_finite.
Print Assumptions stable_float_sci_gen.
Print Assumptions stable_float_sci.
Print Assumptions stable_float_sci_below_1e308.
Print Assumptions stable_float_sci_zero.
Print Assumptions float_sci_half_unit.
Print Assumptions float_sci_half_unit_normal.
Print Assumptions half_unit_fails_subnormal.
Print Assumptions half_unit_fails_16_digits.
Print Assumptions write_raises_near_max.
