(* Line-level proofs: C01 (positional round trip and text stability, setters), C11 (delimited lines). *)
From Coq Require Import ZArith NArith List Bool Arith Lia.
From Coq Require Import Floats.SpecFloat.
From Cfi Require Import Glue.Sx Py.PyStr Py.PyNum Py.PyBits Py.PyDate Model.Field Model.Line.
From Cfi Require Import Proofs.FieldProofs Proofs.NumText Proofs.DateProofs.
Import ListNotations.

(* pairwise non-overlapping spans *)
Definition disjoint2 (f g : field) : Prop := stop f <= start g \/ stop g <= start f.
Definition disjoint (fs : list field) : Prop := ForallOrdPairs disjoint2 fs.

(* what reading back the rendering of a value gives *)
Definition reread (f : field) (v : value) : value :=
  match render f v with Some t => interp (kind f) t | None => VNone end.

(* ===== statements to prove (exact names) ===== *)


(* ===================================================================== *)
(* (a) spans of a written line                                            *)
(* ===================================================================== *)

Lemma lp_firstn_ext : forall (A : Type) n (l1 l2 : list A),
  (forall j, j < n -> nth_error l1 j = nth_error l2 j) -> firstn n l1 = firstn n l2.
Proof.
  intros A n. induction n as [|n IH]; intros l1 l2 H.
  - reflexivity.
  - pose proof (H 0 (Nat.lt_0_succ n)) as H0.
    destruct l1 as [|x l1]; destruct l2 as [|y l2]; cbn [nth_error] in H0; try discriminate H0.
    + reflexivity.
    + inversion H0 as [Hxy]. cbn [firstn]. f_equal. apply IH.
      intros j Hj. apply (H (S j)). lia.
Qed.

Lemma span_ext : forall g (l1 l2 : str),
  (forall i, start g <= i < stop g -> nth_error l1 i = nth_error l2 i) -> span g l1 = span g l2.
Proof.
  intros g l1 l2 H. unfold span, slice. apply lp_firstn_ext.
  intros j Hj. rewrite !fp_nth_error_skipn. apply H. lia.
Qed.

Lemma disjoint2_outside : forall g f i, disjoint2 g f -> start g <= i < stop g ->
  i < start f \/ stop f <= i.
Proof.
  intros g f i [H | H] Hi; [left | right]; lia.
Qed.

(* one later write leaves an earlier, disjoint, fully present span alone *)
Lemma field_write_keeps_span : forall f v l l1 g, fits f v = true -> field_write f v l = Some l1 ->
  stop g <= length l -> disjoint2 g f -> span g l1 = span g l /\ stop g <= length l1.
Proof.
  intros f v l l1 g Hfit Hw Hlen Hdis.
  destruct (field_write_frame f v l l1 Hfit Hw) as [Hl1 [_ Hout]].
  split; [|lia].
  apply span_ext. intros i Hi.
  rewrite (Hout i (disjoint2_outside g f i Hdis Hi)).
  destruct (Nat.ltb (length l) (stop f)) eqn:Hlt; [|reflexivity].
  rewrite ljust_spec.
  assert (Hil : Nat.ltb i (length l) = true) by (apply Nat.ltb_lt; lia).
  rewrite Hil. reflexivity.
Qed.

Lemma write_fields_keeps_span : forall st l text g,
  write_fields true st l = Some text ->
  Forall (fun fv => fits (fst fv) (snd fv) = true) st ->
  stop g <= length l -> Forall (disjoint2 g) (fields_of st) ->
  span g text = span g l /\ stop g <= length text.
Proof.
  intros st. induction st as [|[f v] st IH]; intros l text g Hw Hfits Hlen Hdis.
  - cbn [write_fields] in Hw. inversion Hw as [Ht]. subst text. split; [reflexivity | exact Hlen].
  - cbn [write_fields] in Hw.
    change (field_write_gen true f v l) with (field_write f v l) in Hw.
    destruct (field_write f v l) as [l1|] eqn:Hw1; [|discriminate Hw].
    inversion Hfits as [|fv st0 Hfit Hfits' Heq]. subst fv st0. cbn [fst snd] in Hfit.
    change (fields_of ((f, v) :: st)) with (f :: fields_of st) in Hdis.
    inversion Hdis as [|f0 fs0 Hd1 Hdis' Heq]. subst f0 fs0.
    destruct (field_write_keeps_span f v l l1 g Hfit Hw1 Hlen Hd1) as [Hs1 Hlen1].
    destruct (IH l1 text g Hw Hfits' Hlen1 Hdis') as [Hs2 Hlen2].
    split; [rewrite Hs2; exact Hs1 | exact Hlen2].
Qed.

Lemma write_fields_spans_len : forall st l text,
  write_fields true st l = Some text -> disjoint (fields_of st) ->
  Forall (fun fv => fits (fst fv) (snd fv) = true) st ->
  Forall (fun fv => exists t, render (fst fv) (snd fv) = Some t /\ span (fst fv) text = t /\
                              stop (fst fv) <= length text) st.
Proof.
  intros st. induction st as [|[f v] st IH]; intros l text Hw Hdis Hfits.
  - constructor.
  - cbn [write_fields] in Hw.
    change (field_write_gen true f v l) with (field_write f v l) in Hw.
    destruct (field_write f v l) as [l1|] eqn:Hw1; [|discriminate Hw].
    inversion Hfits as [|fv st0 Hfit Hfits' Heq]. subst fv st0. cbn [fst snd] in Hfit.
    unfold disjoint in Hdis.
    change (fields_of ((f, v) :: st)) with (f :: fields_of st) in Hdis.
    inversion Hdis as [|f0 fs0 Hd1 Hdis' Heq]. subst f0 fs0.
    destruct (field_write_frame f v l l1 Hfit Hw1) as [Hl1 [[t [Hr Hsp]] _]].
    assert (Hst : stop f <= length l1) by lia.
    destruct (write_fields_keeps_span st l1 text f Hw Hfits' Hst Hd1) as [Hs2 Hlen2].
    constructor.
    + cbn [fst snd]. exists t. split; [exact Hr|]. split; [rewrite Hs2; exact Hsp | exact Hlen2].
    + apply (IH l1 text Hw Hdis' Hfits').
Qed.

Theorem write_fields_spans : forall st l text,
  write_fields true st l = Some text -> disjoint (fields_of st) ->
  Forall (fun fv => fits (fst fv) (snd fv) = true) st ->
  Forall (fun fv => exists t, render (fst fv) (snd fv) = Some t /\ span (fst fv) text = t) st.
Proof.
  intros st l text Hw Hdis Hfits.
  pose proof (write_fields_spans_len st l text Hw Hdis Hfits) as H.
  apply Forall_impl with (2 := H).
  intros fv [t [Hr [Hs _]]]. exists t. split; assumption.
Qed.

Lemma span_app_r : forall g (l r : str), stop g <= length l -> span g (l ++ r) = span g l.
Proof.
  intros g l r Hlen. apply span_ext. intros i Hi.
  apply nth_error_app1. lia.
Qed.

Theorem line_roundtrip : forall st vs st' text st2,
  write_pos st vs = (st', Some text) -> length vs = length st ->
  disjoint (fields_of st) -> Forall (fun fv => fits (fst fv) (snd fv) = true) st' ->
  fields_of st2 = fields_of st ->
  values_of (read_pos st2 text) = map (fun fv => reread (fst fv) (snd fv)) st'.
Proof.
  intros st vs st' text st2 Hw _ Hdis Hfits Hfs2.
  unfold write_pos, write_pos_gen in Hw.
  injection Hw as Hst Hopt. rewrite Hst in Hopt.
  destruct (write_fields true st' []) as [body|] eqn:Hwf; [|discriminate Hopt].
  cbn [option_map] in Hopt. injection Hopt as Htext. rewrite <- Htext.
  assert (Hfs : fields_of st' = fields_of st) by (rewrite <- Hst; apply set_values_fields).
  rewrite <- Hfs in Hdis.
  pose proof (write_fields_spans_len st' [] body Hwf Hdis Hfits) as Hsp.
  rewrite read_pos_values, Hfs2, <- Hfs. unfold fields_of. rewrite map_map.
  apply map_ext_in. intros fv Hin.
  rewrite Forall_forall in Hsp. destruct (Hsp fv Hin) as [t [Hr [Hs Hlen]]].
  unfold field_read, reread. rewrite Hr. rewrite span_app_r by exact Hlen. rewrite Hs. reflexivity.
Qed.

(* ===================================================================== *)
(* (b) canonical forms per kind                                           *)
(* ===================================================================== *)

Theorem reread_int : forall f z, kind f = KInt -> reread f (VInt z) = VInt z.
Proof.
  intros f z Hk. unfold reread.
  destruct (render_int f z Hk) as [Hr _]. rewrite Hr, Hk. cbn [interp].
  change (pad (size f - length (str_of_Z z)) ++ str_of_Z z) with (rjust (size f) (str_of_Z z)).
  rewrite int_roundtrip. reflexivity.
Qed.

Theorem reread_lit : forall f s, kind f = KLit -> reread f (VStr s) = VStr (strip is_space s).
Proof.
  intros f s Hk. unfold reread. rewrite (render_lit f s Hk), Hk. cbn [interp].
  rewrite strip_pad. reflexivity.
Qed.

Theorem reread_missing_lit : forall f v, kind f = KLit -> missing v = true -> reread f v = VStr [].
Proof.
  intros f v Hk Hm. unfold reread. rewrite (render_missing f v Hm), Hk. cbn [interp].
  rewrite strip_blank. reflexivity.
Qed.

Lemma normalize_pad : forall n, normalize (pad n) = [].
Proof.
  intros n. rewrite <- (app_nil_r (pad n)).
  change (pad n ++ []) with (pad n ++ [] ++ pad 0).
  apply normalize_plain. constructor.
Qed.

Lemma int_of_str_pad : forall n, int_of_str (pad n) = None.
Proof. intros n. unfold int_of_str. rewrite normalize_pad. reflexivity. Qed.

Lemma float_of_str_pad : forall n, float_of_str (pad n) = None.
Proof. intros n. unfold float_of_str. rewrite normalize_pad. reflexivity. Qed.

Theorem reread_missing_int : forall f v, kind f = KInt -> missing v = true -> reread f v = VNone.
Proof.
  intros f v Hk Hm. unfold reread. rewrite (render_missing f v Hm), Hk. cbn [interp].
  rewrite int_of_str_pad. reflexivity.
Qed.

(* ---- replace of a single character by a single character is a map *)
Definition subst1 (a b c : N) : N := if N.eqb a c then b else c.

Lemma split_aux_ne : forall sep s cur k, split_aux sep cur s k <> [].
Proof.
  intros sep s. induction s as [|c r IH]; intros cur k.
  - cbn [split_aux]. discriminate.
  - cbn [split_aux]. destruct k as [|k]; [|apply IH].
    destruct (starts_with sep (c :: r)); [discriminate | apply IH].
Qed.

Lemma join_cons_ne : forall sep a r, r <> [] -> join sep (a :: r) = a ++ sep ++ join sep r.
Proof. intros sep a r Hr. destruct r as [|b r]; [congruence | reflexivity]. Qed.

Lemma split1_cons : forall a cur c r,
  split_aux [a] cur (c :: r) 0 =
  if N.eqb a c then rev cur :: split_aux [a] [] r 0 else split_aux [a] (c :: cur) r 0.
Proof.
  intros a cur c r. cbn [split_aux starts_with length Nat.sub].
  destruct (N.eqb a c); reflexivity.
Qed.

Lemma replace1_aux : forall a b s cur,
  join [b] (split_aux [a] cur s 0) = rev cur ++ map (subst1 a b) s.
Proof.
  intros a b s. induction s as [|c r IH]; intros cur.
  - cbn [split_aux join map]. rewrite app_nil_r. reflexivity.
  - rewrite split1_cons. cbn [map]. unfold subst1 at 1. destruct (N.eqb a c).
    + rewrite join_cons_ne by apply split_aux_ne. rewrite IH. reflexivity.
    + rewrite IH. cbn [rev]. rewrite <- app_assoc. reflexivity.
Qed.

Lemma replace1_map : forall a b s, replace [a] [b] s = map (subst1 a b) s.
Proof. intros a b s. unfold replace, split. apply (replace1_aux a b s []). Qed.

Lemma map_subst1_notin : forall a b s, ~ In a s -> map (subst1 a b) s = s.
Proof.
  intros a b s. induction s as [|c r IH]; intros Hn; [reflexivity|].
  cbn [map]. rewrite IH by (intros Hin; apply Hn; right; exact Hin).
  unfold subst1. destruct (N.eqb a c) eqn:E; [|reflexivity].
  apply N.eqb_eq in E. exfalso. apply Hn. left. symmetry. exact E.
Qed.

Lemma map_subst1_same : forall a s, map (subst1 a a) s = s.
Proof.
  intros a s. induction s as [|c r IH]; [reflexivity|].
  cbn [map]. rewrite IH. unfold subst1. destruct (N.eqb a c) eqn:E; [|reflexivity].
  apply N.eqb_eq in E. rewrite E. reflexivity.
Qed.

Lemma pad_in : forall n c, In c (pad n) -> c = SP.
Proof. intros n c H. unfold pad in H. apply repeat_spec in H. exact H. Qed.

Theorem reread_missing_float : forall f v dd sci up sep, kind f = KFloat dd sci up sep -> (sep = [DOT] \/ sep = [44%N]) ->
  missing v = true -> reread f v = VNone.
Proof.
  intros f v dd sci up sep Hk Hsep Hm. unfold reread. rewrite (render_missing f v Hm), Hk. cbn [interp].
  assert (Hrep : replace sep [DOT] (pad (size f)) = pad (size f)).
  { destruct Hsep as [Hs | Hs]; rewrite Hs, replace1_map.
    - apply map_subst1_same.
    - apply map_subst1_notin. intros Hin. apply pad_in in Hin. discriminate Hin. }
  rewrite Hrep, float_of_str_pad. reflexivity.
Qed.

Lemma strptime_nil : forall fmt, fmt <> [] -> strptime fmt [] = None.
Proof.
  intros fmt Hne. destruct fmt as [|t fmt]; [congruence|].
  unfold strptime.
  assert (Hp : forall d, parse (t :: fmt) [] d = None).
  { intros d. destruct t; reflexivity. }
  rewrite Hp. reflexivity.
Qed.

Lemma first_parse_nil : forall fmts, Forall (fun fm => fm <> []) fmts -> first_parse fmts [] = None.
Proof.
  intros fmts H. induction H as [|fm fmts Hfm Hall IH]; [reflexivity|].
  cbn [first_parse]. rewrite (strptime_nil fm Hfm). exact IH.
Qed.

Theorem reread_missing_date : forall f v fmts, kind f = KDate fmts -> Forall (fun fm => fm <> []) fmts ->
  missing v = true -> reread f v = VNone.
Proof.
  intros f v fmts Hk Hall Hm. unfold reread. rewrite (render_missing f v Hm), Hk. cbn [interp].
  rewrite strip_blank, (first_parse_nil fmts Hall). reflexivity.
Qed.

Theorem reread_date : forall f fmt r d, kind f = KDate (fmt :: r) ->
  wf_fmt fmt -> dom_dt d -> valid_dt (trunc fmt d) = true ->
  strip is_space (strftime fmt d) = strftime fmt d ->
  reread f (VDate d) = VDate (trunc fmt d).
Proof.
  intros f fmt r d Hk Hwf Hd Hval Hstrip. unfold reread.
  rewrite (render_date f fmt r d Hk), Hk. cbn [interp first_parse].
  change (strftime fmt d ++ pad (size f - length (strftime fmt d))) with (ljust (size f) (strftime fmt d)).
  rewrite (date_roundtrip_padded fmt d (size f) Hwf Hd Hval Hstrip). reflexivity.
Qed.

(* ===================================================================== *)
(* text stability                                                         *)
(* ===================================================================== *)

Definition stable_field (f : field) (v : value) : Prop := render f (reread f v) = render f v.

Lemma set_values_map : forall (g : field * value -> value) st2 st',
  fields_of st2 = fields_of st' ->
  set_values st2 (map g st') = map (fun fv => (fst fv, g fv)) st'.
Proof.
  intros g st2. induction st2 as [|[f2 v2] st2 IH]; intros st' Hfs.
  - destruct st' as [|fv st']; [reflexivity | discriminate Hfs].
  - destruct st' as [|[f v] st']; [discriminate Hfs|].
    unfold fields_of in Hfs. cbn [map fst] in Hfs. injection Hfs as Hf Hfs.
    cbn [map set_values fst]. rewrite Hf. f_equal. apply IH. exact Hfs.
Qed.

Lemma write_fields_stable : forall st l,
  Forall (fun fv => stable_field (fst fv) (snd fv)) st ->
  write_fields true (map (fun fv => (fst fv, reread (fst fv) (snd fv))) st) l = write_fields true st l.
Proof.
  intros st. induction st as [|[f v] st IH]; intros l Hall.
  - reflexivity.
  - inversion Hall as [|fv st0 Hs Hall' Heq]. subst fv st0. cbn [fst snd] in Hs.
    cbn [map fst snd write_fields]. unfold field_write_gen.
    change (render_gen true) with render. unfold stable_field in Hs. rewrite Hs.
    destruct (render f v) as [t|]; cbn [option_map]; [|reflexivity].
    apply IH. exact Hall'.
Qed.

Theorem line_stable : forall st vs st' text st2 st3 text2,
  write_pos st vs = (st', Some text) -> length vs = length st ->
  disjoint (fields_of st) -> Forall (fun fv => fits (fst fv) (snd fv) = true) st' ->
  Forall (fun fv => stable_field (fst fv) (snd fv)) st' ->
  fields_of st2 = fields_of st ->
  write_pos st2 (values_of (read_pos st2 text)) = (st3, text2) -> text2 = Some text.
Proof.
  intros st vs st' text st2 st3 text2 Hw Hlen Hdis Hfits Hstab Hfs2 Hw2.
  rewrite (line_roundtrip st vs st' text st2 Hw Hlen Hdis Hfits Hfs2) in Hw2.
  unfold write_pos, write_pos_gen in Hw, Hw2.
  injection Hw as Hst Hopt. injection Hw2 as Hst3 Hopt2.
  assert (Hfs : fields_of st2 = fields_of st').
  { rewrite Hfs2, <- Hst. symmetry. apply set_values_fields. }
  rewrite (set_values_map (fun fv => reread (fst fv) (snd fv)) st2 st' Hfs) in Hopt2.
  rewrite (write_fields_stable st' [] Hstab) in Hopt2.
  rewrite Hst in Hopt. rewrite <- Hopt2. exact Hopt.
Qed.

Theorem stable_int : forall f z, kind f = KInt -> stable_field f (VInt z).
Proof. intros f z Hk. unfold stable_field. rewrite (reread_int f z Hk). reflexivity. Qed.

Theorem stable_lit : forall f s, kind f = KLit -> strip is_space s = s -> stable_field f (VStr s).
Proof. intros f s Hk Hs. unfold stable_field. rewrite (reread_lit f s Hk), Hs. reflexivity. Qed.

Lemma render_VNone : forall f, render f VNone = Some (pad (size f)).
Proof. intros f. apply render_missing. reflexivity. Qed.

Theorem stable_missing : forall f v, missing v = true ->
  match kind f with KFloat _ _ _ sep => sep = [DOT] \/ sep = [44%N] | KDate fmts => Forall (fun fm => fm <> []) fmts | _ => True end ->
  stable_field f v.
Proof.
  intros f v Hm Hk. unfold stable_field. rewrite (render_missing f v Hm).
  destruct (kind f) as [| | dd sci up sep | fmts] eqn:Ek.
  - rewrite (reread_missing_lit f v Ek Hm). rewrite (render_lit f [] Ek).
    cbn [length app]. rewrite Nat.sub_0_r. reflexivity.
  - rewrite (reread_missing_int f v Ek Hm). apply render_VNone.
  - rewrite (reread_missing_float f v dd sci up sep Ek Hk Hm). apply render_VNone.
  - rewrite (reread_missing_date f v fmts Ek Hk Hm). apply render_VNone.
Qed.

Theorem stable_date : forall f fmt r d, kind f = KDate (fmt :: r) ->
  wf_fmt fmt -> dom_dt d -> valid_dt (trunc fmt d) = true ->
  strip is_space (strftime fmt d) = strftime fmt d -> stable_field f (VDate d).
Proof.
  intros f fmt r d Hk Hwf Hd Hval Hstrip. unfold stable_field.
  rewrite (reread_date f fmt r d Hk Hwf Hd Hval Hstrip).
  rewrite !(render_date f fmt r _ Hk). rewrite strftime_trunc. reflexivity.
Qed.

(* ===================================================================== *)
(* C11: delimited lines (placed before the setters, which use the reading lemma) *)
(* ===================================================================== *)

Lemma split1_notin : forall c t cur rest, ~ In c t ->
  split_aux [c] cur (t ++ rest) 0 = split_aux [c] (rev t ++ cur) rest 0.
Proof.
  intros c t. induction t as [|x t IH]; intros cur rest Hn.
  - reflexivity.
  - cbn [app]. rewrite split1_cons.
    assert (E : N.eqb c x = false).
    { apply N.eqb_neq. intros Hc. apply Hn. left. symmetry. exact Hc. }
    rewrite E. rewrite IH by (intros Hin; apply Hn; right; exact Hin).
    cbn [rev]. rewrite <- app_assoc. reflexivity.
Qed.

Lemma split_join_aux : forall c toks t cur, Forall (fun t => ~ In c t) (t :: toks) ->
  split_aux [c] cur (join [c] (t :: toks)) 0 = (rev cur ++ t) :: toks.
Proof.
  intros c toks. induction toks as [|u toks IH]; intros t cur Hall.
  - inversion Hall as [|t0 l0 Ht _ Heq]. subst t0 l0.
    cbn [join]. rewrite <- (app_nil_r t) at 1. rewrite split1_notin by exact Ht.
    cbn [split_aux]. rewrite rev_app_distr, rev_involutive. reflexivity.
  - inversion Hall as [|t0 l0 Ht Hall' Heq]. subst t0 l0.
    rewrite join_cons_ne by discriminate.
    rewrite split1_notin by exact Ht.
    cbn [app]. rewrite split1_cons. rewrite N.eqb_refl.
    rewrite (IH u [] Hall'). cbn [rev app].
    rewrite rev_app_distr, rev_involutive. reflexivity.
Qed.

Theorem split_join_char : forall c toks, toks <> [] -> Forall (fun t => ~ In c t) toks ->
  split [c] (join [c] toks) = toks.
Proof.
  intros c toks Hne Hall. destruct toks as [|t toks]; [congruence|].
  unfold split. rewrite (split_join_aux c toks t [] Hall). reflexivity.
Qed.

Definition tokens_ok (d : str) (toks : list str) : Prop := split d (join d toks) = toks.

Lemma render_tokens_shape : forall st toks, render_tokens true st = Some toks ->
  Forall2 (fun fv t => exists r, render (fst fv) (snd fv) = Some r /\
                                 t = strip is_space (splice (fst fv) r [])) st toks.
Proof.
  intros st. induction st as [|[f v] st IH]; intros toks H.
  - cbn [render_tokens] in H. injection H as H. subst toks. constructor.
  - cbn [render_tokens] in H. unfold field_write_gen in H.
    change (render_gen true f v) with (render f v) in H.
    destruct (render f v) as [r|] eqn:Hr; cbn [option_map] in H; [|discriminate H].
    destruct (render_tokens true st) as [ts|] eqn:Hts; [|discriminate H].
    injection H as H. subst toks. constructor.
    + cbn [fst snd]. exists r. split; [exact Hr | reflexivity].
    + apply IH. reflexivity.
Qed.

Lemma rebase_idem : forall f, rebase (rebase f) = rebase f.
Proof. intros f. reflexivity. Qed.

Lemma rebase_all_fields : forall st, fields_of (rebase_all st) = map rebase (fields_of st).
Proof.
  intros st. unfold fields_of, rebase_all. rewrite !map_map. apply map_ext. intros fv. reflexivity.
Qed.

Theorem write_delim_shape : forall st d vs st' text, write_delim st d vs = (st', Some text) ->
  exists toks, text = join d toks ++ [NL] /\
    Forall2 (fun fv t => exists r, render (rebase (fst fv)) (snd fv) = Some r /\ t = strip is_space (splice (rebase (fst fv)) r [])) st' toks.
Proof.
  intros st d vs st' text Hw. unfold write_delim, write_delim_gen in Hw.
  injection Hw as Hst Hopt. rewrite Hst in Hopt.
  destruct (render_tokens true st') as [toks|] eqn:Hts; [|discriminate Hopt].
  cbn [option_map] in Hopt. injection Hopt as Htext.
  exists toks. split; [symmetry; exact Htext|].
  assert (Hfs : Forall (fun f => rebase f = f) (fields_of st')).
  { rewrite <- Hst, set_values_fields, rebase_all_fields.
    apply Forall_forall. intros f Hin. apply in_map_iff in Hin.
    destruct Hin as [f0 [Hf0 _]]. rewrite <- Hf0. apply rebase_idem. }
  pose proof (render_tokens_shape st' toks Hts) as HF.
  clear Hts Hst Htext.
  induction HF as [|fv t st1 toks1 Hhd Htl IH].
  - constructor.
  - change (fields_of (fv :: st1)) with (fst fv :: fields_of st1) in Hfs.
    inversion Hfs as [|f0 l0 Hrb Hfs' Heq]. subst f0 l0.
    constructor; [|apply IH; exact Hfs'].
    rewrite Hrb. exact Hhd.
Qed.

Lemma read_tokens_spec : forall st toks,
  values_of (read_tokens (clear st) toks) =
    map (fun i => match nth_error toks i with
                  | Some t => field_read (nth i (fields_of st) {| kind := KLit; size := 0; start := 0 |}) t
                  | None => VNone end) (seq 0 (length st)).
Proof.
  intros st. induction st as [|[f v] st IH]; intros toks.
  - reflexivity.
  - cbn [clear map fst length seq]. fold (clear st).
    rewrite <- seq_shift, map_map.
    destruct toks as [|t toks].
    + cbn [read_tokens values_of map snd nth_error].
      f_equal. fold (values_of (clear st)).
      pose proof (IH []) as IH0.
      assert (Hrt : read_tokens (clear st) [] = clear st) by (destruct (clear st) as [|[f0 v0] st0]; reflexivity).
      rewrite Hrt in IH0. rewrite IH0. apply map_ext. intros i.
      destruct i; reflexivity.
    + cbn [read_tokens values_of map snd nth_error].
      f_equal. fold (values_of (read_tokens (clear st) toks)).
      rewrite IH. apply map_ext. intros i. reflexivity.
Qed.

Lemma clear_rebase_length : forall st, length (rebase_all st) = length st.
Proof. intros st. unfold rebase_all. apply map_length. Qed.

Theorem read_delim_spec : forall st d l,
  let toks := map (strip is_space) (split d l) in
  values_of (read_delim st d l) =
    map (fun i => match nth_error toks i with
                  | Some t => field_read (rebase (nth i (fields_of st) {| kind := KLit; size := 0; start := 0 |})) t
                  | None => VNone end) (seq 0 (length st)).
Proof.
  intros st d l toks. unfold read_delim, read_delim_gen. fold toks.
  rewrite read_tokens_spec, clear_rebase_length, rebase_all_fields.
  apply map_ext_in. intros i Hi. apply in_seq in Hi.
  destruct (nth_error toks i) as [t|]; [|reflexivity].
  f_equal.
  change {| kind := KLit; size := 0; start := 0 |} with (rebase {| kind := KLit; size := 0; start := 0 |}) at 1.
  apply map_nth.
Qed.

Lemma fields_of_length : forall st, length (fields_of st) = length st.
Proof. intros st. unfold fields_of. apply map_length. Qed.

Theorem read_delim_no_carry_over : forall st st2 d l, fields_of st = fields_of st2 ->
  values_of (read_delim st d l) = values_of (read_delim st2 d l).
Proof.
  intros st st2 d l Hfs.
  pose proof (read_delim_spec st d l) as H1. pose proof (read_delim_spec st2 d l) as H2.
  cbv zeta in H1, H2. rewrite H1, H2, Hfs.
  rewrite <- (fields_of_length st), <- (fields_of_length st2), Hfs. reflexivity.
Qed.

(* ===================================================================== *)
(* setters                                                                *)
(* ===================================================================== *)

Definition same_config (o1 o2 : lineobj) : Prop :=
  fields_of (lo_st o1) = fields_of (lo_st o2) /\ lo_delim o1 = lo_delim o2 /\ lo_sto o1 = lo_sto o2.

Theorem read_independent_of_slots : forall o1 o2 l, same_config o1 o2 -> snd (lo_read o1 l) = snd (lo_read o2 l).
Proof.
  intros o1 o2 l [Hfs [Hd Hs]]. unfold lo_read. cbn [snd]. rewrite Hd, Hs.
  unfold line_read, line_read_gen.
  destruct (lo_sto o2).
  - destruct (lo_delim o2) as [d|].
    + apply (read_delim_no_carry_over (lo_st o1) (lo_st o2) d l Hfs).
    + rewrite !read_pos_values, Hfs. reflexivity.
  - rewrite !read_bin_values, Hfs. reflexivity.
Qed.

Lemma set_values_overwrite : forall st1 st2 vs, fields_of st1 = fields_of st2 ->
  length st1 <= length vs -> set_values st1 vs = set_values st2 vs.
Proof.
  intros st1. induction st1 as [|[f1 v1] st1 IH]; intros st2 vs Hfs Hlen.
  - destruct st2 as [|fv st2]; [reflexivity | discriminate Hfs].
  - destruct st2 as [|[f2 v2] st2]; [discriminate Hfs|].
    unfold fields_of in Hfs. cbn [map fst] in Hfs. injection Hfs as Hf Hfs.
    destruct vs as [|v vs]; [cbn [length] in Hlen; lia|].
    cbn [set_values]. rewrite Hf. f_equal. apply IH; [exact Hfs|]. cbn [length] in Hlen. lia.
Qed.

Theorem write_independent_of_slots : forall o1 o2 vs, same_config o1 o2 ->
  length (lo_st o1) <= length vs -> snd (lo_write o1 vs) = snd (lo_write o2 vs).
Proof.
  intros o1 o2 vs [Hfs [Hd Hs]] Hlen. unfold lo_write. rewrite Hd, Hs.
  assert (Hsv : set_values (lo_st o1) vs = set_values (lo_st o2) vs)
    by (apply set_values_overwrite; assumption).
  assert (Hsvr : set_values (rebase_all (lo_st o1)) vs = set_values (rebase_all (lo_st o2)) vs).
  { apply set_values_overwrite.
    - rewrite !rebase_all_fields, Hfs. reflexivity.
    - rewrite clear_rebase_length. exact Hlen. }
  assert (Heq : line_write (lo_sto o2) (lo_delim o2) (lo_st o1) vs =
                line_write (lo_sto o2) (lo_delim o2) (lo_st o2) vs).
  { unfold line_write, line_write_gen. destruct (lo_sto o2).
    - destruct (lo_delim o2) as [d|].
      + unfold write_delim_gen. rewrite Hsvr. reflexivity.
      + unfold write_pos_gen. rewrite Hsv. reflexivity.
    - unfold write_bin. rewrite Hsv. reflexivity. }
  rewrite Heq.
  destruct (line_write (lo_sto o2) (lo_delim o2) (lo_st o2) vs) as [st r]. reflexivity.
Qed.

Definition last_fields (ss : list setter) : option lstate :=
  fold_left (fun acc s => match s with SetFields st => Some st | _ => acc end) ss None.
Definition last_delim (ss : list setter) : option (option str) :=
  fold_left (fun acc s => match s with SetDelim d => Some d | _ => acc end) ss None.
Definition last_sto (ss : list setter) : option storage :=
  fold_left (fun acc s => match s with SetStorage x => Some x | _ => acc end) ss None.

Lemma apply_vals_fields : forall st vs, fields_of (apply_vals st vs) = fields_of st.
Proof. intros st vs. destruct vs as [v|]; [apply set_values_fields | reflexivity]. Qed.

Theorem setters_config : forall o ss,
  let o' := fold_left apply_setter ss o in
  fields_of (lo_st o') = match last_fields ss with Some st => fields_of st | None => fields_of (lo_st o) end /\
  lo_delim o' = match last_delim ss with Some d => d | None => lo_delim o end /\
  lo_sto o' = match last_sto ss with Some s => s | None => lo_sto o end.
Proof.
  intros o ss. cbv zeta. induction ss as [|s ss IH] using rev_ind.
  - cbn [fold_left last_fields last_delim last_sto]. split; [|split]; reflexivity.
  - unfold last_fields, last_delim, last_sto in *.
    rewrite !fold_left_app. cbn [fold_left].
    destruct IH as [IH1 [IH2 IH3]].
    destruct s as [st | vs | d | x]; cbn [apply_setter lo_st lo_delim lo_sto].
    + split; [reflexivity | split; assumption].
    + rewrite set_values_fields. split; [assumption | split; assumption].
    + split; [assumption | split; [reflexivity | assumption]].
    + rewrite apply_vals_fields. split; [assumption | split; [assumption | reflexivity]].
Qed.

Theorem line_size_setters : forall o, lo_size o = fold_right (fun f a => size f + a) 0 (fields_of (lo_st o)).
Proof. intros o. reflexivity. Qed.

(* ===================================================================== *)
(* floats in F notation                                                   *)
(* ===================================================================== *)

Lemma first_fit_some : forall (r : nat -> str) w dd, exists d, d <= dd /\ first_fit r w dd = r d.
Proof.
  intros r w dd. induction dd as [|dd IH].
  - exists 0. split; [lia | reflexivity].
  - cbn [first_fit]. destruct (Nat.leb (length (r (S dd))) w).
    + exists (S dd). split; [lia | reflexivity].
    + destruct IH as [d [Hd He]]. exists d. split; [lia | exact He].
Qed.

Lemma float_text_fixed : forall w dd up sep s m e, exists d, d <= dd /\
  float_text true w dd false up sep (S754_finite s m e) =
    replace [DOT] sep (fixed_text s (round_dec m e (Z.of_nat d)) d).
Proof.
  intros w dd up sep s m e. unfold float_text, float_text_full. cbn [andb].
  destruct (first_fit_some (fun d => with_sep true sep (fmtF up (S754_finite s m e) d)) w dd) as [d [Hd He]].
  exists d. split; [exact Hd|]. rewrite He. reflexivity.
Qed.

Lemma round_dec_nonneg : forall m e d, (0 <= round_dec m e d)%Z.
Proof.
  intros m e d. pose proof (scaled_pos m e d) as HP. unfold round_dec.
  destruct (scaled m e d) as [num den]. destruct HP as [Hn Hd].
  apply half_even_nonneg; lia.
Qed.

Lemma fixed_text_plain : forall neg n d, (0 <= n)%Z -> Forall plain (fixed_text neg n d).
Proof.
  intros neg n d Hn. rewrite fixed_text_unfold.
  assert (Hq : (0 <= n / 10 ^ Z.of_nat d)%Z) by (apply Z.div_pos; [lia | apply pow10_pos]).
  destruct (dec_digits_spec _ Hq) as [_ Hdig _ _ _ _].
  apply Forall_app. split; [apply sign_text_plain|].
  apply Forall_app. split; [apply Forall_isd_plain; exact Hdig | apply frac_tail_plain; exact Hn].
Qed.

Lemma plain_not_comma : forall c, plain c -> c <> 44%N.
Proof.
  intros c [H | [H | H]] Hc.
  - apply is_digit_range in H. lia.
  - rewrite Hc in H. discriminate H.
  - rewrite Hc in H. discriminate H.
Qed.

Lemma plain_notin_comma : forall t, Forall plain t -> ~ In 44%N t.
Proof.
  intros t H Hin. rewrite Forall_forall in H. exact (plain_not_comma _ (H _ Hin) eq_refl).
Qed.

Lemma subst1_back : forall t, ~ In 44%N t -> map (subst1 44%N DOT) (map (subst1 DOT 44%N) t) = t.
Proof.
  intros t. induction t as [|c r IH]; intros Hn; [reflexivity|].
  cbn [map]. rewrite IH by (intros Hin; apply Hn; right; exact Hin). f_equal.
  unfold subst1. destruct (N.eqb DOT c) eqn:E1.
  - apply N.eqb_eq in E1. rewrite N.eqb_refl. exact E1.
  - destruct (N.eqb 44%N c) eqn:E2; [|reflexivity].
    apply N.eqb_eq in E2. exfalso. apply Hn. left. symmetry. exact E2.
Qed.

Lemma map_subst1_pad : forall a b n, a <> SP -> map (subst1 a b) (pad n) = pad n.
Proof.
  intros a b n Ha. apply map_subst1_notin. intros Hin. apply pad_in in Hin. exact (Ha Hin).
Qed.

(* the separator dialect is undone by the reader *)
Lemma dialect_roundtrip : forall sep k t, (sep = [DOT] \/ sep = [44%N]) -> ~ In 44%N t ->
  replace sep [DOT] (pad k ++ replace [DOT] sep t) = pad k ++ t.
Proof.
  intros sep k t [Hs | Hs] Hn; rewrite Hs, !replace1_map.
  - rewrite !map_subst1_same. reflexivity.
  - rewrite map_app, subst1_back by exact Hn.
    rewrite map_subst1_pad by discriminate. reflexivity.
Qed.

Theorem reread_float_fixed : forall f dd up sep s m e, kind f = KFloat dd false up sep -> (sep = [DOT] \/ sep = [44%N]) ->
  exists d, d <= dd /\
    float_text true (size f) dd false up sep (S754_finite s m e) =
      replace [DOT] sep (fixed_text s (round_dec m e (Z.of_nat d)) d) /\
    reread f (VFloat (S754_finite s m e)) = VFloat (sf_of_dec s (round_dec m e (Z.of_nat d)) (- Z.of_nat d)).
Proof.
  intros f dd up sep s m e Hk Hsep.
  destruct (float_text_fixed (size f) dd up sep s m e) as [d [Hd He]].
  exists d. split; [exact Hd|]. split; [exact He|].
  unfold reread.
  rewrite (render_float f dd false up sep (S754_finite s m e) Hk eq_refl eq_refl).
  rewrite Hk. cbn [interp]. rewrite He.
  assert (Hnn : (0 <= round_dec m e (Z.of_nat d))%Z) by apply round_dec_nonneg.
  rewrite (dialect_roundtrip sep _ _ Hsep (plain_notin_comma _ (fixed_text_plain s _ d Hnn))).
  rewrite (fixed_text_parse_padded s _ d _ Hnn). reflexivity.
Qed.

Theorem float_text_dialect : forall w dd up sep s m e, (sep = [DOT] \/ sep = [44%N]) ->
  let other := if N.eqb (hd 0%N sep) DOT then 44%N else DOT in
  ~ In other (float_text true w dd false up sep (S754_finite s m e)).
Proof.
  intros w dd up sep s m e Hsep. cbv zeta.
  destruct (float_text_fixed w dd up sep s m e) as [d [_ He]]. rewrite He.
  assert (Hnn : (0 <= round_dec m e (Z.of_nat d))%Z) by apply round_dec_nonneg.
  pose proof (plain_notin_comma _ (fixed_text_plain s _ d Hnn)) as Hn.
  destruct Hsep as [Hs | Hs]; rewrite Hs, replace1_map; cbn [hd].
  - rewrite N.eqb_refl. rewrite map_subst1_same. exact Hn.
  - assert (E : N.eqb 44%N DOT = false) by reflexivity. rewrite E.
    intros Hin. apply in_map_iff in Hin. destruct Hin as [c [Hc _]].
    unfold subst1 in Hc. destruct (N.eqb DOT c) eqn:E1.
    + discriminate Hc.
    + apply N.eqb_neq in E1. apply E1. symmetry. exact Hc.
Qed.

(* ===================================================================== *)
Print Assumptions write_fields_spans.
Print Assumptions line_roundtrip.
Print Assumptions reread_int.
Print Assumptions reread_lit.
Print Assumptions reread_missing_lit.
Print Assumptions reread_missing_int.
Print Assumptions reread_missing_float.
Print Assumptions reread_missing_date.
Print Assumptions reread_date.
Print Assumptions reread_float_fixed.
Print Assumptions float_text_dialect.
Print Assumptions line_stable.
Print Assumptions stable_int.
Print Assumptions stable_lit.
Print Assumptions stable_missing.
Print Assumptions stable_date.
Print Assumptions read_independent_of_slots.
Print Assumptions write_independent_of_slots.
Print Assumptions setters_config.
Print Assumptions line_size_setters.
Print Assumptions split_join_char.
Print Assumptions write_delim_shape.
Print Assumptions read_delim_spec.
Print Assumptions read_delim_no_carry_over.
