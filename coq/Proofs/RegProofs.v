(* Register-level proofs: C10 (recognised, self-delimiting, aligned streams), C05 (data round trip),
   C06 (read-then-write is a projection). *)
From Coq Require Import ZArith NArith List Bool Arith Lia.
From Coq Require Import Floats.SpecFloat.
From Cfi Require Import Glue.Sx Py.PyStr Py.PyNum Py.PyBits Py.PyDate Py.PyRe Model.Field Model.Line Model.Reader.
From Cfi Require Import Proofs.FieldProofs Proofs.NumText Proofs.LineProofs Proofs.ReaderProofs.
Import ListNotations.

(* a complete text line: a newline-free body followed by one newline *)
Definition line_chunk (c : str) : Prop := exists b, c = b ++ [NL] /\ ~ In NL b.
(* a possibly unterminated last line *)
Definition last_chunk (c : str) : Prop := line_chunk c \/ (c <> [] /\ ~ In NL c).
(* a content cut into its lines *)
Definition chunks_ok (cs : list str) : Prop :=
  match rev cs with [] => True | l :: r => last_chunk l /\ Forall line_chunk r end.

(* layout premises of a register definition: identifier no longer than its window, fields to the right of it *)
(* ... and, when the identifier test is a regular expression rather than the literal itself, that expression finds the
   literal as it is written into the identifier columns (decidable: one evaluation of re_search) *)
Definition reg_wf (r : regdef) : Prop :=
  length (r_ident r) <= r_digits r /\ Forall (fun f => r_digits r <= start f) (r_fields r) /\
  match r_pat r with None => True | Some p => re_search p (ljust (r_digits r) (r_ident r)) = true end.

(* contiguous layout: the fields tile [digits, total) without gaps or overlaps, in declaration order *)
Fixpoint contiguous (pos : nat) (fs : list field) : Prop :=
  match fs with [] => True | f :: r => start f = pos /\ contiguous (pos + size f) r end.


(* ===================================================================== *)
(* lines and chunks                                                       *)
(* ===================================================================== *)

Lemma readline_aux_chunk : forall b cur rest, ~ In NL b ->
  readline_aux cur (b ++ NL :: rest) = (rev cur ++ b ++ [NL], rest).
Proof.
  induction b as [|a b IH]; intros cur rest Hb; cbn [app readline_aux].
  - rewrite N.eqb_refl. reflexivity.
  - destruct (a =? NL)%N eqn:E.
    + apply N.eqb_eq in E. exfalso. apply Hb. left. exact E.
    + rewrite IH.
      * cbn [rev]. rewrite <- app_assoc. reflexivity.
      * intro Hi. apply Hb. right. exact Hi.
Qed.

Theorem readline_chunk : forall b rest, ~ In NL b -> readline (b ++ NL :: rest) = (b ++ [NL], rest).
Proof.
  intros b rest Hb. unfold readline. rewrite (readline_aux_chunk b [] rest Hb). reflexivity.
Qed.

Lemma readline_aux_last : forall c cur, ~ In NL c -> readline_aux cur c = (rev cur ++ c, []).
Proof.
  induction c as [|a c IH]; intros cur Hc; cbn [readline_aux].
  - rewrite app_nil_r. reflexivity.
  - destruct (a =? NL)%N eqn:E.
    + apply N.eqb_eq in E. exfalso. apply Hc. left. exact E.
    + rewrite IH.
      * cbn [rev]. rewrite <- app_assoc. reflexivity.
      * intro Hi. apply Hc. right. exact Hi.
Qed.

Theorem readline_last : forall c, ~ In NL c -> readline c = (c, []).
Proof.
  intros c Hc. unfold readline. rewrite (readline_aux_last c [] Hc). reflexivity.
Qed.

Lemma chunks_ok_nil : chunks_ok [].
Proof. exact Logic.I. Qed.

Lemma chunks_ok_single : forall c, chunks_ok [c] <-> last_chunk c.
Proof.
  intros c. unfold chunks_ok. cbn [rev app]. split.
  - intros [H _]. exact H.
  - intro H. split; [exact H|apply Forall_nil].
Qed.

Lemma chunks_ok_cons2 : forall c c' cs, chunks_ok (c :: c' :: cs) <-> line_chunk c /\ chunks_ok (c' :: cs).
Proof.
  intros c c' cs. unfold chunks_ok.
  change (rev (c :: c' :: cs)) with (rev (c' :: cs) ++ [c]).
  destruct (rev (c' :: cs)) as [|l r] eqn:E.
  - apply rp_rev_nil in E. discriminate E.
  - cbn [app]. split.
    + intros [Hl Hr]. apply Forall_app in Hr. destruct Hr as [Hr Hc].
      inversion Hc as [|x0 l0 Hc0 Hc1 Heq]. subst x0 l0.
      split; [exact Hc0|]. split; [exact Hl|exact Hr].
    + intros [Hc [Hl Hr]]. split; [exact Hl|].
      apply Forall_app. split; [exact Hr|]. apply Forall_cons; [exact Hc|apply Forall_nil].
Qed.

Lemma line_chunk_last : forall c, line_chunk c -> last_chunk c.
Proof. intros c H. left. exact H. Qed.

Lemma chunks_ok_cons_line : forall c cs, line_chunk c -> chunks_ok cs -> chunks_ok (c :: cs).
Proof.
  intros c cs Hc Hcs. destruct cs as [|c' cs].
  - apply chunks_ok_single. apply line_chunk_last. exact Hc.
  - apply chunks_ok_cons2. split; assumption.
Qed.

Lemma chunks_ok_tail : forall c cs, chunks_ok (c :: cs) -> chunks_ok cs.
Proof.
  intros c cs H. destruct cs as [|c' cs].
  - apply chunks_ok_nil.
  - apply chunks_ok_cons2 in H. exact (proj2 H).
Qed.

Lemma chunks_ok_head : forall c cs, chunks_ok (c :: cs) -> cs <> [] -> line_chunk c.
Proof.
  intros c cs H Hne. destruct cs as [|c' cs]; [congruence|].
  apply chunks_ok_cons2 in H. exact (proj1 H).
Qed.

Lemma chunks_ok_lines : forall cs, Forall line_chunk cs -> chunks_ok cs.
Proof.
  intros cs H. induction H as [|c cs Hc Hcs IH].
  - apply chunks_ok_nil.
  - apply chunks_ok_cons_line; assumption.
Qed.

Lemma line_chunk_nonempty : forall c, line_chunk c -> c <> [].
Proof.
  intros c [b [Hc _]] Hn. subst c. apply app_eq_nil in Hn. destruct Hn as [_ Hn]. discriminate Hn.
Qed.

Lemma last_chunk_nonempty : forall c, last_chunk c -> c <> [].
Proof.
  intros c [H|[H _]]; [apply line_chunk_nonempty; exact H|exact H].
Qed.

Lemma split_lines_last : forall c, last_chunk c -> split_lines c = [c].
Proof.
  intros c H. pose proof (last_chunk_nonempty c H) as Hne.
  rewrite (split_lines_readline c Hne).
  destruct H as [[b [Hc Hb]]|[_ Hn]].
  - subst c. replace (b ++ [NL]) with (b ++ NL :: []) by reflexivity.
    rewrite (readline_chunk b [] Hb). reflexivity.
  - rewrite (readline_last c Hn). reflexivity.
Qed.

Lemma split_lines_line_app : forall c rest, line_chunk c -> split_lines (c ++ rest) = c :: split_lines rest.
Proof.
  intros c rest [b [Hc Hb]]. subst c.
  assert (Hne : (b ++ [NL]) ++ rest <> []).
  { intro Hn. apply app_eq_nil in Hn. destruct Hn as [Hn _]. apply app_eq_nil in Hn.
    destruct Hn as [_ Hn]. discriminate Hn. }
  rewrite (split_lines_readline _ Hne).
  rewrite <- app_assoc. cbn [app].
  rewrite (readline_chunk b rest Hb). reflexivity.
Qed.

Theorem split_lines_chunks : forall cs, chunks_ok cs -> split_lines (concat cs) = cs.
Proof.
  induction cs as [|c cs IH]; intro H.
  - reflexivity.
  - destruct cs as [|c' cs].
    + cbn [concat]. rewrite app_nil_r. apply split_lines_last. apply (proj1 (chunks_ok_single c)). exact H.
    + apply chunks_ok_cons2 in H. destruct H as [Hc Hcs].
      change (concat (c :: c' :: cs)) with (c ++ concat (c' :: cs)).
      rewrite (split_lines_line_app c _ Hc). rewrite (IH Hcs). reflexivity.
Qed.

(* every content is cut into well-formed chunks *)
Lemma lines_aux_chunks : forall s cur, ~ In NL cur -> chunks_ok (lines_aux cur s).
Proof.
  induction s as [|c r IH]; intros cur Hcur; cbn [lines_aux].
  - destruct cur as [|x cur].
    + apply chunks_ok_nil.
    + apply chunks_ok_single. right. split.
      * intro Hn. apply rp_rev_nil in Hn. discriminate Hn.
      * intro Hi. apply in_rev in Hi. exact (Hcur Hi).
  - destruct (c =? NL)%N eqn:E.
    + apply N.eqb_eq in E. subst c. apply chunks_ok_cons_line.
      * exists (rev cur). split; [reflexivity|].
        intro Hi. apply in_rev in Hi. exact (Hcur Hi).
      * apply IH. intro Hi. destruct Hi.
    + apply N.eqb_neq in E. apply IH. intros [Hi|Hi]; [congruence|exact (Hcur Hi)].
Qed.

Lemma split_lines_ok : forall s, chunks_ok (split_lines s).
Proof.
  intros s. unfold split_lines. apply lines_aux_chunks. intro Hi. destruct Hi.
Qed.

Lemma list_fst_snd : forall (A B : Type) (f : B -> A) (es : list (A * B)),
  Forall (fun e => fst e = f (snd e)) es -> es = map (fun c => (f c, c)) (map snd es).
Proof.
  intros A B f es H. induction H as [|e es He Hes IH].
  - reflexivity.
  - cbn [map]. rewrite <- IH. rewrite <- He. destruct e as [a b]. reflexivity.
Qed.

Theorem regfile_read_chunks : forall fr fd ls rs cs, chunks_ok cs ->
  read_regfile fr fd Text ls rs (S (length (concat cs))) (concat cs) = Some (map (fun c => (reg_dispatch rs c, c)) cs).
Proof.
  intros fr fd ls rs cs Hcs.
  destruct (regfile_text_total fr fd ls rs (concat cs)) as [es Hes].
  rewrite Hes. f_equal.
  pose proof (regfile_text_lines fr fd ls rs _ _ _ Hes) as Hlines.
  pose proof (regfile_text_dispatch fr fd ls rs _ _ _ Hes) as Hdisp.
  rewrite (split_lines_chunks cs Hcs) in Hlines.
  rewrite (list_fst_snd _ _ (reg_dispatch rs) es Hdisp). rewrite Hlines. reflexivity.
Qed.

(* ===================================================================== *)
(* C10: the written register                                              *)
(* ===================================================================== *)

Lemma starts_with_prefix : forall p x, starts_with p (p ++ x) = true.
Proof.
  induction p as [|a p IH]; intros x.
  - destruct x; reflexivity.
  - cbn [app starts_with]. rewrite N.eqb_refl. rewrite IH. reflexivity.
Qed.

Lemma contains_unfold : forall p s,
  contains p s = starts_with p s || match s with [] => false | _ :: r => contains p r end.
Proof. intros p s. destruct s; reflexivity. Qed.

Lemma contains_prefix : forall p x, contains p (p ++ x) = true.
Proof.
  intros p x. rewrite contains_unfold. rewrite starts_with_prefix. reflexivity.
Qed.

(* the identifier test looks at the leading window only *)
Lemma reg_matches_window : forall r a b, firstn (r_digits r) a = firstn (r_digits r) b -> reg_matches r a = reg_matches r b.
Proof. intros r a b H. unfold reg_matches. rewrite H. reflexivity. Qed.

Lemma reg_matches_written : forall r text, reg_wf r ->
  firstn (r_digits r) text = ljust (r_digits r) (r_ident r) -> reg_matches r text = true.
Proof.
  intros r text [_ [_ Hpat]] Hfirst. unfold reg_matches. rewrite Hfirst.
  destruct (r_pat r) as [p|]; [exact Hpat|]. unfold ljust. apply contains_prefix.
Qed.

Lemma fields_of_mk_state : forall fs, fields_of (mk_state fs) = fs.
Proof.
  intros fs. unfold fields_of, mk_state. rewrite map_map. cbn [fst]. apply map_id.
Qed.

Lemma set_values_mk_combine : forall fs vs, length vs = length fs -> set_values (mk_state fs) vs = combine fs vs.
Proof.
  induction fs as [|f fs IH]; intros vs Hl.
  - destruct vs; [reflexivity|discriminate Hl].
  - destruct vs as [|v vs]; [discriminate Hl|].
    cbn [mk_state map set_values combine]. f_equal. apply IH.
    cbn [length] in Hl. lia.
Qed.

Lemma firstn_app_le : forall (A : Type) n (a b : list A), n <= length a -> firstn n (a ++ b) = firstn n a.
Proof.
  intros A n a b H. rewrite firstn_app. replace (n - length a) with 0 by lia.
  cbn [firstn]. apply app_nil_r.
Qed.

Lemma padded_prefix : forall f (l : str) n, n <= length l -> firstn n (padded f l) = firstn n l.
Proof.
  intros f l n H. unfold padded. destruct (Nat.ltb (length l) (stop f)); [|reflexivity].
  unfold ljust. apply firstn_app_le. exact H.
Qed.

(* a splice to the right of column n leaves the first n characters alone *)
Lemma splice_prefix : forall f t (l : str) n, n <= start f -> n <= length l ->
  firstn n (splice f t l) = firstn n l.
Proof.
  intros f t l n Hs Hl. rewrite splice_padded.
  rewrite firstn_app_le by (rewrite splice_prefix_length; exact Hs).
  rewrite firstn_firstn. replace (Nat.min n (start f)) with n by lia.
  apply padded_prefix. exact Hl.
Qed.

Lemma firstn_eq_length : forall (A : Type) n (a b : list A), firstn n a = firstn n b -> n <= length b -> n <= length a.
Proof.
  intros A n a b H Hb. assert (Hl : length (firstn n a) = length (firstn n b)) by (rewrite H; reflexivity).
  rewrite !firstn_length in Hl. lia.
Qed.

Lemma write_fields_prefix : forall st (l body : str) n,
  Forall (fun f => n <= start f) (fields_of st) -> n <= length l ->
  write_fields true st l = Some body -> firstn n body = firstn n l.
Proof.
  induction st as [|[f v] st IH]; intros l body n Hall Hl Hw.
  - cbn [write_fields] in Hw. inversion Hw as [Hb]. reflexivity.
  - cbn [write_fields] in Hw.
    destruct (field_write_gen true f v l) as [l1|] eqn:Hw1; [|discriminate Hw].
    unfold field_write_gen in Hw1.
    destruct (render_gen true f v) as [t|]; [|discriminate Hw1].
    cbn [option_map] in Hw1. inversion Hw1 as [Hl1]. clear Hw1.
    change (fields_of ((f, v) :: st)) with (f :: fields_of st) in Hall.
    inversion Hall as [|f0 fs0 Hf Hall' Heq]. subst f0 fs0.
    pose proof (splice_prefix f t l n Hf Hl) as Hp.
    rewrite Hl1 in Hp.
    rewrite (IH l1 body n Hall' (firstn_eq_length _ n l1 l Hp Hl) Hw).
    exact Hp.
Qed.

Lemma ljust_exact_length : forall n (s : str), length s <= n -> length (ljust n s) = n.
Proof. intros n s H. rewrite ljust_length. lia. Qed.

(* writing the identifier on the empty line *)
Lemma ident_write_prefix : forall r l1, length (r_ident r) <= r_digits r ->
  field_write_gen true (ident_field r) (VStr (r_ident r)) [] = Some l1 ->
  firstn (r_digits r) l1 = ljust (r_digits r) (r_ident r).
Proof.
  intros r l1 Hlen Hw. unfold field_write_gen, render_gen in Hw.
  cbn [missing ident_field kind size option_map] in Hw.
  inversion Hw as [Hl1]. clear Hw.
  rewrite splice_padded. cbn [ident_field start firstn app].
  apply fp_firstn_app_exact. apply ljust_exact_length. exact Hlen.
Qed.

Lemma write_elem_text_unfold : forall rs i d, all_none d = false -> r_delim (nth_reg rs i) = None ->
  write_elem Text rs (ETyped i d) =
  option_map (fun l => l ++ [NL])
    (write_fields true ((ident_field (nth_reg rs i), VStr (r_ident (nth_reg rs i))) ::
                        set_values (mk_state (r_fields (nth_reg rs i))) d) []).
Proof.
  intros rs i d Hn Hd. unfold write_elem. rewrite Hn.
  unfold line_write, line_write_gen. rewrite Hd. unfold write_pos_gen. cbn [snd].
  reflexivity.
Qed.

Theorem reg_write_ident_columns : forall rs i d text, r_delim (nth_reg rs i) = None -> reg_wf (nth_reg rs i) ->
  all_none d = false -> write_elem Text rs (ETyped i d) = Some text ->
  Forall (fun fv => fits (fst fv) (snd fv) = true) (combine (r_fields (nth_reg rs i)) d) -> length d = length (r_fields (nth_reg rs i)) ->
  firstn (r_digits (nth_reg rs i)) text = ljust (r_digits (nth_reg rs i)) (r_ident (nth_reg rs i)) /\
  reg_matches (nth_reg rs i) text = true /\
  exists body, text = body ++ [NL].
Proof.
  intros rs i d text Hdelim Hwf0 Hnone Hw _ _. pose proof Hwf0 as [Hlen [Hright _]].
  rewrite (write_elem_text_unfold rs i d Hnone Hdelim) in Hw.
  set (r := nth_reg rs i) in *.
  destruct (write_fields true ((ident_field r, VStr (r_ident r)) :: set_values (mk_state (r_fields r)) d) [])
    as [body|] eqn:Hwf; [|discriminate Hw].
  cbn [option_map] in Hw. inversion Hw as [Htext]. clear Hw.
  cbn [write_fields] in Hwf.
  destruct (field_write_gen true (ident_field r) (VStr (r_ident r)) []) as [l1|] eqn:Hw1; [|discriminate Hwf].
  pose proof (ident_write_prefix r l1 Hlen Hw1) as Hl1.
  assert (Hl1len : r_digits r <= length l1).
  { assert (Hx : length (firstn (r_digits r) l1) = r_digits r).
    { rewrite Hl1. apply ljust_exact_length. exact Hlen. }
    rewrite firstn_length in Hx. lia. }
  assert (Hfs : Forall (fun f => r_digits r <= start f) (fields_of (set_values (mk_state (r_fields r)) d))).
  { rewrite set_values_fields, fields_of_mk_state. exact Hright. }
  pose proof (write_fields_prefix _ l1 body (r_digits r) Hfs Hl1len Hwf) as Hbody.
  rewrite Hl1 in Hbody.
  assert (Hblen : r_digits r <= length body).
  { assert (Hx : length (firstn (r_digits r) body) = r_digits r).
    { rewrite Hbody. apply ljust_exact_length. exact Hlen. }
    rewrite firstn_length in Hx. lia. }
  assert (Hfirst : firstn (r_digits r) (body ++ [NL]) = ljust (r_digits r) (r_ident r)).
  { rewrite firstn_app_le by exact Hblen. exact Hbody. }
  split; [exact Hfirst|]. split.
  - apply reg_matches_written; [exact Hwf0|exact Hfirst].
  - exists body. reflexivity.
Qed.

Fixpoint consume_all (fr : bool) (sto : storage) (rs : list regdef) (types : list nat) (s : str) : list str * str :=
  match types with
  | [] => ([], s)
  | i :: r => let (c, rest) := reg_consume fr sto (nth_reg rs i) s in
              let (cs, rest') := consume_all fr sto rs r rest in (c :: cs, rest')
  end.

(* ===================================================================== *)
(* C10: stream alignment                                                  *)
(* ===================================================================== *)

Theorem stream_text_aligned : forall fr rs types cs rest, length types = length cs -> Forall line_chunk cs ->
  consume_all fr Text rs types (concat cs ++ rest) = (cs, rest).
Proof.
  intros fr rs types. induction types as [|i types IH]; intros cs rest Hl Hcs.
  - destruct cs as [|c cs]; [reflexivity|discriminate Hl].
  - destruct cs as [|c cs]; [discriminate Hl|].
    inversion Hcs as [|c0 cs0 Hc Hcs' Heq]. subst c0 cs0.
    cbn [consume_all]. unfold reg_consume.
    destruct Hc as [b [Hc Hb]]. subst c.
    cbn [concat]. rewrite <- !app_assoc. cbn [app].
    rewrite (readline_chunk b (concat cs ++ rest) Hb).
    rewrite IH; [reflexivity| |exact Hcs'].
    cbn [length] in Hl. lia.
Qed.

Theorem stream_binary_aligned : forall rs types cs rest, length types = length cs ->
  Forall2 (fun i c => length c = composite_size (nth_reg rs i)) types cs ->
  consume_all true Binary rs types (concat cs ++ rest) = (cs, rest).
Proof.
  intros rs types cs rest _ H. induction H as [|i c types cs Hc Hrest IH].
  - reflexivity.
  - cbn [consume_all]. unfold reg_consume, bin_request.
    cbn [concat]. rewrite <- app_assoc. rewrite <- Hc.
    rewrite rp_firstn_app_exact, rp_skipn_app_exact. rewrite IH. reflexivity.
Qed.

Theorem stream_binary_as_found_misaligned :
  exists rs types cs, Forall2 (fun i c => length c = composite_size (nth_reg rs i)) types cs /\
    fst (consume_all false Binary rs types (concat cs)) <> cs.
Proof.
  exists [ {| r_ident := [65%N]; r_digits := 1; r_fields := []; r_delim := None; r_pat := None |} ].
  exists [0; 0]. exists [[65%N]; [65%N]].
  split.
  - apply Forall2_cons; [reflexivity|]. apply Forall2_cons; [reflexivity|]. apply Forall2_nil.
  - vm_compute. intro H. discriminate H.
Qed.

Lemma contiguous_width : forall fs pos, contiguous pos fs ->
  Nat.max pos (max_stop fs) = pos + fold_right (fun f a => size f + a) 0 fs.
Proof.
  induction fs as [|f fs IH]; intros pos H.
  - cbn [max_stop fold_right]. lia.
  - cbn [contiguous] in H. destruct H as [Hs Hc].
    cbn [max_stop fold_right]. fold (max_stop fs).
    pose proof (IH _ Hc) as IH'. unfold stop. rewrite Hs. lia.
Qed.

Theorem composite_contiguous_width : forall r, contiguous (r_digits r) (r_fields r) ->
  max_stop (composite r) = composite_size r.
Proof.
  intros r H. unfold composite_size, composite. cbn [max_stop fold_right]. fold (max_stop (r_fields r)).
  unfold stop. cbn [ident_field start size Nat.add].
  apply contiguous_width. exact H.
Qed.

Theorem reg_write_binary_width : forall rs i d bytes, contiguous (r_digits (nth_reg rs i)) (r_fields (nth_reg rs i)) ->
  all_none d = false -> write_elem Binary rs (ETyped i d) = Some bytes ->
  Forall (fun fv => fits_bin (fst fv) (snd fv) = true) (combine (composite (nth_reg rs i)) (VStr (r_ident (nth_reg rs i)) :: d)) ->
  length d = length (r_fields (nth_reg rs i)) ->
  length bytes = composite_size (nth_reg rs i).
Proof.
  intros rs i d bytes Hcont Hnone Hw Hfits Hlen.
  unfold write_elem in Hw. rewrite Hnone in Hw.
  set (r := nth_reg rs i) in *.
  unfold line_write, line_write_gen in Hw.
  destruct (write_bin (mk_state (composite r)) (VStr (r_ident r) :: d)) as [st' ob] eqn:Hwb.
  cbn [snd] in Hw. subst ob.
  assert (Hst : st' = combine (composite r) (VStr (r_ident r) :: d)).
  { unfold write_bin in Hwb.
    assert (Hs : set_values (mk_state (composite r)) (VStr (r_ident r) :: d) = st') by congruence.
    rewrite <- Hs. apply set_values_mk_combine. unfold composite. cbn [length]. rewrite Hlen. reflexivity. }
  rewrite <- Hst in Hfits.
  destruct (write_bin_shape _ _ _ _ Hwb Hfits) as [Hl _].
  rewrite Hl, fields_of_mk_state. apply composite_contiguous_width. exact Hcont.
Qed.

(* ===================================================================== *)
(* C05                                                                    *)
(* ===================================================================== *)

(* an element that round-trips: its written text is one line chunk that dispatches back to its own type and whose
   data read back equal; a default element is a line chunk matching no identifier *)
Definition elem_roundtrips (rs : list regdef) (e : elem) : Prop :=
  match e with
  | ETyped i d => all_none d = false /\ exists c, write_elem Text rs e = Some c /\ line_chunk c /\
                  reg_dispatch rs c = Some i /\ reg_data Text (nth_reg rs i) c = d
  | EDefault (Some t) => line_chunk t /\ reg_dispatch rs t = None
  | EDefault None => False
  end.
Definition vanishes (e : elem) : bool := match e with ETyped _ d => all_none d | _ => false end.
Theorem write_elem_empty : forall sto rs i d, all_none d = true -> write_elem sto rs (ETyped i d) = Some [].
Proof.
  intros sto rs i d H. unfold write_elem. rewrite H. reflexivity.
Qed.

Lemma to_elem_typed : forall rs i c, to_elem Text rs (Some i, c) = ETyped i (reg_data Text (nth_reg rs i) c).
Proof. intros rs i c. reflexivity. Qed.

Lemma to_elem_default : forall rs c, to_elem Text rs (None, c) = EDefault (Some c).
Proof. intros rs c. reflexivity. Qed.

Lemma roundtrip_core : forall rs D, Forall (fun e => vanishes e = true \/ elem_roundtrips rs e) D ->
  exists cs, write_elems Text rs D = Some (concat cs) /\ Forall line_chunk cs /\
    map (fun c => to_elem Text rs (reg_dispatch rs c, c)) cs = filter (fun e => negb (vanishes e)) D.
Proof.
  intros rs D H. induction H as [|e D He HD IH].
  - exists []. split; [reflexivity|]. split; [apply Forall_nil|reflexivity].
  - destruct IH as [cs [Hw [Hcs Hmap]]].
    destruct (vanishes e) eqn:Hv.
    + (* the element writes nothing *)
      exists cs. destruct e as [i d|o]; [|discriminate Hv].
      cbn [vanishes] in Hv. split; [|split].
      * cbn [write_elems]. rewrite (write_elem_empty Text rs i d Hv). rewrite Hw. reflexivity.
      * exact Hcs.
      * cbn [filter vanishes]. rewrite Hv. cbn [negb]. exact Hmap.
    + destruct He as [He|He]; [congruence|].
      destruct e as [i d|[t|]].
      * cbn [elem_roundtrips] in He. destruct He as [Hn [c [Hwc [Hc [Hd Hdata]]]]].
        exists (c :: cs). split; [|split].
        -- cbn [write_elems]. rewrite Hwc, Hw. reflexivity.
        -- apply Forall_cons; assumption.
        -- cbn [filter vanishes]. cbn [vanishes] in Hv. rewrite Hv. cbn [negb map].
           rewrite Hd, to_elem_typed, Hdata, Hmap. reflexivity.
      * cbn [elem_roundtrips] in He. destruct He as [Hc Hd].
        exists (t :: cs). split; [|split].
        -- cbn [write_elems write_elem]. rewrite Hw. reflexivity.
        -- apply Forall_cons; assumption.
        -- cbn [filter vanishes negb map]. rewrite Hd, to_elem_default, Hmap. reflexivity.
      * cbn [elem_roundtrips] in He. destruct He.
Qed.

Theorem regfile_roundtrip : forall fr fd ls rs D,
  Forall (fun e => vanishes e = true \/ elem_roundtrips rs e) D ->
  exists text, write_elems Text rs D = Some text /\
    option_map (map (to_elem Text rs)) (read_regfile fr fd Text ls rs (S (length text)) text)
      = Some (filter (fun e => negb (vanishes e)) D).
Proof.
  intros fr fd ls rs D H.
  destruct (roundtrip_core rs D H) as [cs [Hw [Hcs Hmap]]].
  exists (concat cs). split; [exact Hw|].
  rewrite (regfile_read_chunks fr fd ls rs cs (chunks_ok_lines cs Hcs)).
  cbn [option_map]. rewrite map_map. rewrite Hmap. reflexivity.
Qed.

Theorem write_elem_nonempty : forall rs i d text, all_none d = false -> r_delim (nth_reg rs i) = None ->
  write_elem Text rs (ETyped i d) = Some text -> exists body, text = body ++ [NL].
Proof.
  intros rs i d text Hn Hd Hw.
  rewrite (write_elem_text_unfold rs i d Hn Hd) in Hw.
  destruct (write_fields true _ []) as [body|]; [|discriminate Hw].
  cbn [option_map] in Hw. inversion Hw as [Ht]. exists body. reflexivity.
Qed.

Theorem falsy_is_data : all_none [VInt 0%Z] = false /\ all_none [VStr []] = false /\ all_none [VFloat (S754_zero true)] = false.
Proof. split; [reflexivity|]. split; reflexivity. Qed.

(* a decidable sufficient condition for "a written line dispatches to its own type": equal windows and no earlier
   identifier occurs in the (window-truncated) padded identifier of a later one *)
Definition no_earlier_match (rs : list regdef) (i : nat) : Prop :=
  forall j, j < i -> reg_matches (nth_reg rs j) (ljust (r_digits (nth_reg rs i)) (r_ident (nth_reg rs i))) = false.
Lemma nth_error_nth_reg : forall rs j b, nth_error rs j = Some b -> nth_reg rs j = b.
Proof. intros rs j b H. unfold nth_reg. apply nth_error_nth. exact H. Qed.

Theorem dispatch_written : forall rs i text, i < length rs -> reg_wf (nth_reg rs i) ->
  (forall j, j < i -> r_digits (nth_reg rs j) <= r_digits (nth_reg rs i)) -> no_earlier_match rs i ->
  firstn (r_digits (nth_reg rs i)) text = ljust (r_digits (nth_reg rs i)) (r_ident (nth_reg rs i)) ->
  reg_dispatch rs text = Some i.
Proof.
  intros rs i text Hi Hwf0 Hwin Hnem Hfirst.
  unfold reg_dispatch. apply find_idx_spec.
  destruct (nth_error rs i) as [a|] eqn:Ea.
  2:{ apply nth_error_None in Ea. lia. }
  pose proof (nth_error_nth_reg rs i a Ea) as Hai.
  exists i, a. split; [reflexivity|]. split; [exact Ea|]. split.
  - rewrite <- Hai. apply reg_matches_written; [exact Hwf0|exact Hfirst].
  - intros j b Hj Hb. pose proof (nth_error_nth_reg rs j b Hb) as Hbj. rewrite <- Hbj.
    pose proof (Hnem j Hj) as Hm. rewrite <- Hm. apply reg_matches_window.
    rewrite <- Hfirst. rewrite firstn_firstn.
    replace (Nat.min (r_digits (nth_reg rs j)) (r_digits (nth_reg rs i))) with (r_digits (nth_reg rs j)); [reflexivity|].
    pose proof (Hwin j Hj). lia.
Qed.

(* --- C06: y = W (R x) is a fixed point of W o R, provided every typed element parsed from x is "stable": it either
   vanishes or its written line dispatches back to its type and re-reads to data that write the same line again *)
Definition elem_stable (rs : list regdef) (e : elem) : Prop :=
  match e with
  | ETyped i d => all_none d = true \/
                  exists c, write_elem Text rs e = Some c /\ line_chunk c /\ reg_dispatch rs c = Some i /\
                            all_none (reg_data Text (nth_reg rs i) c) = false /\
                            write_elem Text rs (ETyped i (reg_data Text (nth_reg rs i) c)) = Some c
  | EDefault _ => True
  end.
Definition RX (rs : list regdef) (x : str) : option (list elem) :=
  option_map (map (to_elem Text rs)) (read_regfile true true Text 1 rs (S (length x)) x).
Definition is_default (rs : list regdef) (l : str) : bool :=
  match reg_dispatch rs l with None => true | Some _ => false end.

Lemma proj_core : forall rs raw y,
  chunks_ok (map snd raw) ->
  Forall (fun e : option nat * str => fst e = reg_dispatch rs (snd e)) raw ->
  Forall (elem_stable rs) (map (to_elem Text rs) raw) ->
  write_elems Text rs (map (to_elem Text rs) raw) = Some y ->
  exists cs, y = concat cs /\ chunks_ok cs /\
    write_elems Text rs (map (fun c => to_elem Text rs (reg_dispatch rs c, c)) cs) = Some y /\
    filter (is_default rs) (map snd raw) = filter (is_default rs) cs.
Proof.
  intros rs raw. induction raw as [|e raw IH]; intros y Hok Hdisp Hst Hw.
  - cbn [map write_elems] in Hw. inversion Hw as [Hy].
    exists []. split; [reflexivity|]. split; [apply chunks_ok_nil|]. split; reflexivity.
  - destruct e as [t l].
    inversion Hdisp as [|e0 raw0 Hd Hdisp' Heq]. subst e0 raw0. cbn [fst snd] in Hd.
    cbn [map] in Hst. inversion Hst as [|e0 es0 Hse Hst' Heq]. subst e0 es0.
    cbn [map snd] in Hok.
    cbn [map write_elems] in Hw.
    destruct (write_elem Text rs (to_elem Text rs (t, l))) as [a|] eqn:Hwa; [|discriminate Hw].
    destruct (write_elems Text rs (map (to_elem Text rs) raw)) as [b|] eqn:Hwb; [|discriminate Hw].
    inversion Hw as [Hy]. clear Hw.
    destruct t as [i|].
    + (* a typed element *)
      destruct (IH b (chunks_ok_tail _ _ Hok) Hdisp' Hst' eq_refl) as [cs [Hb [Hcs [Hw2 Hf]]]].
      assert (Hdl : is_default rs l = false). { unfold is_default. rewrite <- Hd. reflexivity. }
      rewrite to_elem_typed in Hse, Hwa. cbn [elem_stable] in Hse.
      destruct Hse as [Hn|[c [Hwc [Hc [Hdc [Hnn Hwc2]]]]]].
      * rewrite (write_elem_empty Text rs i _ Hn) in Hwa. inversion Hwa as [Ha]. subst a.
        exists cs. cbn [app]. split; [exact Hb|]. split; [exact Hcs|]. split; [exact Hw2|].
        cbn [map snd filter]. rewrite Hdl. exact Hf.
      * rewrite Hwc in Hwa. inversion Hwa as [Ha]. subst a.
        exists (c :: cs). split; [|split; [|split]].
        -- cbn [concat]. rewrite Hb. reflexivity.
        -- apply chunks_ok_cons_line; assumption.
        -- cbn [map write_elems]. rewrite Hdc, to_elem_typed, Hwc2, Hw2. reflexivity.
        -- assert (Hdc' : is_default rs c = false). { unfold is_default. rewrite Hdc. reflexivity. }
           cbn [map snd filter]. rewrite Hdl, Hdc'. exact Hf.
    + (* a default element: the line itself *)
      rewrite to_elem_default in Hwa. cbn [write_elem] in Hwa. inversion Hwa as [Ha]. subst a.
      assert (Hwl : write_elem Text rs (to_elem Text rs (reg_dispatch rs l, l)) = Some l).
      { rewrite <- Hd. reflexivity. }
      destruct raw as [|e' raw'].
      * cbn [map write_elems] in Hwb. inversion Hwb as [Hbn]. subst b.
        exists [l]. split; [reflexivity|]. split; [exact Hok|]. split; [|reflexivity].
        cbn [map write_elems]. rewrite Hwl. reflexivity.
      * assert (Hlc : line_chunk l).
        { apply (chunks_ok_head l (map snd (e' :: raw')) Hok). cbn [map]. discriminate. }
        destruct (IH b (chunks_ok_tail _ _ Hok) Hdisp' Hst' eq_refl) as [cs [Hb [Hcs [Hw2 Hf]]]].
        exists (l :: cs). split; [|split; [|split]].
        -- cbn [concat]. rewrite Hb. reflexivity.
        -- apply chunks_ok_cons_line; assumption.
        -- cbn [map write_elems]. rewrite Hwl, Hw2. reflexivity.
        -- cbn [map snd filter] in Hf |- *. rewrite Hf. reflexivity.
Qed.

Lemma RX_raw : forall rs x es, RX rs x = Some es ->
  exists raw, es = map (to_elem Text rs) raw /\ map snd raw = split_lines x /\
    Forall (fun e : option nat * str => fst e = reg_dispatch rs (snd e)) raw.
Proof.
  intros rs x es H. unfold RX in H.
  destruct (read_regfile true true Text 1 rs (S (length x)) x) as [raw|] eqn:Hr; [|discriminate H].
  cbn [option_map] in H. inversion H as [Hes].
  exists raw. split; [reflexivity|]. split.
  - exact (regfile_text_lines _ _ _ _ _ _ _ Hr).
  - exact (regfile_text_dispatch _ _ _ _ _ _ _ Hr).
Qed.

Lemma projection_chunks : forall rs x es y, RX rs x = Some es -> Forall (elem_stable rs) es ->
  write_elems Text rs es = Some y ->
  exists cs, y = concat cs /\ chunks_ok cs /\
    write_elems Text rs (map (fun c => to_elem Text rs (reg_dispatch rs c, c)) cs) = Some y /\
    filter (is_default rs) (split_lines x) = filter (is_default rs) cs.
Proof.
  intros rs x es y HR Hst Hw.
  destruct (RX_raw rs x es HR) as [raw [Hes [Hlines Hdisp]]]. subst es.
  rewrite <- Hlines. apply proj_core; try assumption.
  rewrite Hlines. apply split_lines_ok.
Qed.

Theorem regfile_projection : forall rs x es y, RX rs x = Some es -> Forall (elem_stable rs) es ->
  write_elems Text rs es = Some y ->
  exists es2, RX rs y = Some es2 /\ write_elems Text rs es2 = Some y.
Proof.
  intros rs x es y HR Hst Hw.
  destruct (projection_chunks rs x es y HR Hst Hw) as [cs [Hy [Hcs [Hw2 _]]]].
  exists (map (fun c => to_elem Text rs (reg_dispatch rs c, c)) cs). split; [|exact Hw2].
  unfold RX. rewrite Hy. rewrite (regfile_read_chunks true true 1 rs cs Hcs).
  cbn [option_map]. rewrite map_map. reflexivity.
Qed.

Theorem regfile_default_preserved : forall rs x es y, RX rs x = Some es -> Forall (elem_stable rs) es ->
  write_elems Text rs es = Some y ->
  filter (fun l => match reg_dispatch rs l with None => true | Some _ => false end) (split_lines x)
  = filter (fun l => match reg_dispatch rs l with None => true | Some _ => false end) (split_lines y).
Proof.
  intros rs x es y HR Hst Hw.
  destruct (projection_chunks rs x es y HR Hst Hw) as [cs [Hy [Hcs [_ Hf]]]].
  rewrite Hy, (split_lines_chunks cs Hcs). exact Hf.
Qed.

(* ===================================================================== *)
Print Assumptions readline_chunk.
Print Assumptions readline_last.
Print Assumptions split_lines_chunks.
Print Assumptions regfile_read_chunks.
Print Assumptions reg_write_ident_columns.
Print Assumptions stream_text_aligned.
Print Assumptions stream_binary_aligned.
Print Assumptions stream_binary_as_found_misaligned.
Print Assumptions composite_contiguous_width.
Print Assumptions reg_write_binary_width.
Print Assumptions regfile_roundtrip.
Print Assumptions write_elem_empty.
Print Assumptions write_elem_nonempty.
Print Assumptions falsy_is_data.
Print Assumptions dispatch_written.
Print Assumptions regfile_projection.
Print Assumptions regfile_default_preserved.
