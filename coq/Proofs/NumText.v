(* Proofs about numeric text: integer/literal round trips, the half-unit bound of the decimal rendering. *)
From Coq Require Import ZArith NArith List Bool Arith Lia.
From Coq Require Import Floats.SpecFloat.
From Cfi Require Import Glue.Sx Py.PyStr Py.PyNum Py.UnicodeTables.
Import ListNotations.

(* ------------------------------------------------------------------ *)
(* Z_of_digits                                                         *)

Definition dstep (acc : Z) (d : N) : Z := (acc * 10 + Z.of_N d)%Z.

Lemma Z_of_digits_fold : forall ds, Z_of_digits ds = fold_left dstep ds 0%Z.
Proof. intros ds. reflexivity. Qed.

Lemma fold_dstep_acc : forall ds a,
  fold_left dstep ds a = (a * 10 ^ Z.of_nat (length ds) + fold_left dstep ds 0)%Z.
Proof.
  induction ds as [|d ds IH]; intros a.
  - cbn [fold_left length]. change (Z.of_nat 0) with 0%Z. rewrite Z.pow_0_r. lia.
  - cbn [fold_left length]. rewrite (IH (dstep a d)). rewrite (IH (dstep 0 d)).
    rewrite Nat2Z.inj_succ. rewrite Z.pow_succ_r by lia. unfold dstep. ring.
Qed.

Lemma Z_of_digits_app : forall a b,
  Z_of_digits (a ++ b) = (Z_of_digits a * 10 ^ Z.of_nat (length b) + Z_of_digits b)%Z.
Proof.
  intros a b. rewrite !Z_of_digits_fold. rewrite fold_left_app.
  rewrite fold_dstep_acc. reflexivity.
Qed.

Lemma Z_of_digits_nil : Z_of_digits [] = 0%Z.
Proof. reflexivity. Qed.

Lemma Z_of_digits_single : forall d, Z_of_digits [d] = Z.of_N d.
Proof. intros d. unfold Z_of_digits. cbn [fold_left]. lia. Qed.

Lemma Z_of_digits_snoc : forall a d, Z_of_digits (a ++ [d]) = (Z_of_digits a * 10 + Z.of_N d)%Z.
Proof.
  intros a d. rewrite Z_of_digits_app. rewrite Z_of_digits_single.
  cbn [length]. change (Z.of_nat 1) with 1%Z. rewrite Z.pow_1_r. reflexivity.
Qed.

Definition dv (c : N) : N := (c - 48)%N.

Lemma Z_of_digits_zeros : forall k, Z_of_digits (map dv (repeat 48%N k)) = 0%Z.
Proof.
  induction k as [|k IH].
  - reflexivity.
  - cbn [repeat map]. change (dv 48) with 0%N.
    change (0%N :: map dv (repeat 48%N k)) with ([0%N] ++ map dv (repeat 48%N k)).
    rewrite Z_of_digits_app. rewrite IH. rewrite Z_of_digits_single. lia.
Qed.

(* ------------------------------------------------------------------ *)
(* digits_of_pos_fuel                                                  *)

Definition isd (c : N) : Prop := is_digit c = true.

Lemma is_digit_range : forall c, is_digit c = true <-> (48 <= c <= 57)%N.
Proof.
  intros c. unfold is_digit. rewrite andb_true_iff. rewrite !N.leb_le. tauto.
Qed.

Lemma is_digit_of_small : forall z, (0 <= z < 10)%Z -> is_digit (48 + Z.to_N z) = true.
Proof. intros z Hz. apply is_digit_range. lia. Qed.

Record dspec (z : Z) (ds : str) : Prop := {
  ds_ne : ds <> [];
  ds_dig : Forall isd ds;
  ds_val : Z_of_digits (map dv ds) = z;
  ds_hd : (0 < z)%Z -> hd 48%N ds <> 48%N;
  ds_hi : (z < 10 ^ Z.of_nat (length ds))%Z;
  ds_lo : (10 ^ (Z.of_nat (length ds) - 1) <= z)%Z \/ length ds = 1%nat
}.

Lemma hd_app_ne : forall (a b : str) d, a <> [] -> hd d (a ++ b) = hd d a.
Proof. intros a b d Ha. destruct a as [|x a]; [congruence|reflexivity]. Qed.

Lemma dpf_spec : forall f z acc, (0 < f)%nat -> (0 <= z < 10 ^ Z.of_nat f)%Z ->
  exists ds, digits_of_pos_fuel f z acc = ds ++ acc /\ dspec z ds.
Proof.
  induction f as [|f IH]; intros z acc Hf Hz.
  - lia.
  - cbn [digits_of_pos_fuel]. destruct (z <? 10)%Z eqn:E.
    + apply Z.ltb_lt in E. exists [(48 + Z.to_N z)%N]. split; [reflexivity|].
      constructor.
      * discriminate.
      * constructor; [|constructor]. apply is_digit_of_small. lia.
      * cbn [map]. rewrite Z_of_digits_single. unfold dv. lia.
      * intros Hpos. cbn [hd]. lia.
      * cbn [length]. change (Z.of_nat 1) with 1%Z. rewrite Z.pow_1_r. lia.
      * right. reflexivity.
    + apply Z.ltb_ge in E.
      assert (Hf' : (0 < f)%nat).
      { destruct f as [|f']; [|lia]. change (Z.of_nat 1) with 1%Z in Hz.
        rewrite Z.pow_1_r in Hz. lia. }
      assert (Hq : (0 <= z / 10 < 10 ^ Z.of_nat f)%Z).
      { rewrite Nat2Z.inj_succ in Hz. rewrite Z.pow_succ_r in Hz by lia.
        split; [apply Z.div_pos; lia|]. apply Z.div_lt_upper_bound; lia. }
      assert (Hm : (0 <= z mod 10 < 10)%Z) by (apply Z.mod_pos_bound; lia).
      assert (Hdm : z = (10 * (z / 10) + z mod 10)%Z) by (apply Z.div_mod; lia).
      destruct (IH (z / 10)%Z ((48 + Z.to_N (z mod 10))%N :: acc) Hf' Hq) as [ds [Heq Hs]].
      exists (ds ++ [(48 + Z.to_N (z mod 10))%N]). split.
      { rewrite Heq. rewrite <- app_assoc. reflexivity. }
      destruct Hs as [Hne Hdig Hval Hhd Hhi Hlo].
      constructor.
      * intros Hc. apply app_eq_nil in Hc. destruct Hc as [_ Hc]. discriminate.
      * apply Forall_app. split; [exact Hdig|]. constructor; [|constructor].
        apply is_digit_of_small. exact Hm.
      * rewrite map_app. cbn [map]. rewrite Z_of_digits_snoc. rewrite Hval. unfold dv. lia.
      * intros _. rewrite hd_app_ne by exact Hne. apply Hhd. lia.
      * rewrite app_length. cbn [length]. rewrite Nat.add_1_r. rewrite Nat2Z.inj_succ.
        rewrite Z.pow_succ_r by lia. lia.
      * left. rewrite app_length. cbn [length].
        replace (Z.of_nat (length ds + 1) - 1)%Z with (Z.of_nat (length ds)) by lia.
        destruct Hlo as [Hlo|Hlo].
        -- replace (Z.of_nat (length ds)) with (Z.succ (Z.of_nat (length ds) - 1)) by lia.
           assert (0 <= Z.of_nat (length ds) - 1)%Z.
           { destruct ds; [congruence|]. cbn [length]. lia. }
           rewrite Z.pow_succ_r by assumption. lia.
        -- rewrite Hlo. change (Z.of_nat 1) with 1%Z. rewrite Z.pow_1_r. lia.
Qed.

Lemma fuel_enough : forall z, (0 <= z)%Z -> (z < 10 ^ Z.of_nat (S (Z.to_nat (Z.log2 z))))%Z.
Proof.
  intros z Hz.
  assert (Hl : (0 <= Z.log2 z)%Z) by apply Z.log2_nonneg.
  rewrite Nat2Z.inj_succ. rewrite Z2Nat.id by exact Hl.
  destruct (Z.eq_dec z 0) as [E|E].
  - subst z. change (Z.log2 0) with 0%Z. cbn. lia.
  - assert (Hb : (z < 2 ^ Z.succ (Z.log2 z))%Z) by (apply Z.log2_spec; lia).
    assert (Hp : (2 ^ Z.succ (Z.log2 z) <= 10 ^ Z.succ (Z.log2 z))%Z).
    { apply Z.pow_le_mono_l. lia. }
    lia.
Qed.

Lemma dec_digits_spec : forall z, (0 <= z)%Z -> dspec z (dec_digits z).
Proof.
  intros z Hz. unfold dec_digits.
  destruct (dpf_spec (S (Z.to_nat (Z.log2 z))) z [] (Nat.lt_0_succ _)
              (conj Hz (fuel_enough z Hz))) as [ds [Heq Hs]].
  rewrite Heq. rewrite app_nil_r. exact Hs.
Qed.

Theorem dec_digits_digits : forall z, (0 <= z)%Z -> Forall (fun c => is_digit c = true) (dec_digits z) /\ dec_digits z <> [].
Proof.
  intros z Hz. destruct (dec_digits_spec z Hz) as [Hne Hdig _ _ _ _]. split; assumption.
Qed.

Theorem dec_digits_value : forall z, (0 <= z)%Z -> Z_of_digits (map (fun c => (c - 48)%N) (dec_digits z)) = z.
Proof.
  intros z Hz. destruct (dec_digits_spec z Hz) as [_ _ Hval _ _ _]. exact Hval.
Qed.

Theorem dec_digits_canonical : forall z, (0 < z)%Z -> hd 48%N (dec_digits z) <> 48%N.
Proof.
  intros z Hz. assert (H0 : (0 <= z)%Z) by lia.
  destruct (dec_digits_spec z H0) as [_ _ _ Hhd _ _]. apply Hhd. exact Hz.
Qed.

Lemma dec_digits_length_le : forall z d, (0 <= z < 10 ^ Z.of_nat d)%Z -> (0 < d)%nat ->
  (length (dec_digits z) <= d)%nat.
Proof.
  intros z d Hz Hd. destruct Hz as [Hz0 Hz1].
  destruct (dec_digits_spec z Hz0) as [_ _ _ _ _ Hlo].
  destruct Hlo as [Hlo|Hlo]; [|lia].
  destruct (le_lt_dec (length (dec_digits z)) d) as [Hle|Hgt]; [exact Hle|exfalso].
  assert (Hp : (10 ^ Z.of_nat d <= 10 ^ (Z.of_nat (length (dec_digits z)) - 1))%Z).
  { apply Z.pow_le_mono_r; lia. }
  lia.
Qed.

(* ------------------------------------------------------------------ *)
(* strip                                                               *)

Section StripFacts.
  Variable sp : N -> bool.

  Lemma lstrip_length : forall s, (length (lstrip sp s) <= length s)%nat.
  Proof.
    induction s as [|c r IH]; cbn [lstrip length]; [lia|].
    destruct (sp c); cbn [length]; lia.
  Qed.

  Lemma lstrip_fix_hd : forall c r, lstrip sp (c :: r) = c :: r -> sp c = false.
  Proof.
    intros c r H. cbn [lstrip] in H. destruct (sp c) eqn:E; [|reflexivity].
    exfalso. pose proof (lstrip_length r) as HL. rewrite H in HL. cbn [length] in HL. lia.
  Qed.

  Lemma lstrip_hd_app : forall c r u, sp c = false -> lstrip sp ((c :: r) ++ u) = (c :: r) ++ u.
  Proof. intros c r u H. cbn [app lstrip]. rewrite H. reflexivity. Qed.

  Lemma lstrip_fix_app : forall s u, lstrip sp s = s -> s <> [] -> lstrip sp (s ++ u) = s ++ u.
  Proof.
    intros s u H Hne. destruct s as [|c r]; [congruence|].
    apply lstrip_hd_app. apply (lstrip_fix_hd c r H).
  Qed.

  Lemma lstrip_repeat : forall c n t, sp c = true -> lstrip sp (repeat c n ++ t) = lstrip sp t.
  Proof.
    intros c n t H. induction n as [|n IH]; [reflexivity|].
    cbn [repeat app lstrip]. rewrite H. exact IH.
  Qed.

  Lemma lstrip_idem : forall s, lstrip sp (lstrip sp s) = lstrip sp s.
  Proof.
    induction s as [|c r IH]; [reflexivity|].
    cbn [lstrip]. destruct (sp c) eqn:E; [exact IH|]. cbn [lstrip]. rewrite E. reflexivity.
  Qed.

  Lemma lstrip_fix_length : forall s, length (lstrip sp s) = length s -> lstrip sp s = s.
  Proof.
    intros s H. destruct s as [|c r]; [reflexivity|].
    cbn [lstrip] in *. destruct (sp c); [|reflexivity].
    exfalso. pose proof (lstrip_length r) as HL. cbn [length] in H. lia.
  Qed.

  Lemma rev_repeat_eq : forall (c : N) n, rev (repeat c n) = repeat c n.
  Proof.
    intros c n. induction n as [|n IH]; [reflexivity|].
    cbn [repeat rev]. rewrite IH. clear IH.
    induction n as [|n IH]; [reflexivity|]. cbn [repeat app]. rewrite IH. reflexivity.
  Qed.

  (* the general trimming lemma: a text whose ends are not blank survives padding + strip *)
  Lemma strip_pad_ends : forall c a b s, sp c = true ->
    lstrip sp s = s -> lstrip sp (rev s) = rev s ->
    strip sp (repeat c a ++ s ++ repeat c b) = s.
  Proof.
    intros c a b s Hc Hl Hr. unfold strip, rstrip.
    rewrite lstrip_repeat by exact Hc.
    destruct s as [|x s].
    - cbn [app]. rewrite <- (app_nil_r (repeat c b)). rewrite lstrip_repeat by exact Hc.
      cbn [lstrip rev]. reflexivity.
    - rewrite lstrip_fix_app by (exact Hl || discriminate).
      rewrite rev_app_distr. rewrite rev_repeat_eq. rewrite lstrip_repeat by exact Hc.
      rewrite Hr. apply rev_involutive.
  Qed.

  Lemma lstrip_forall_app : forall (P : N -> Prop) l u,
    (forall x, P x -> sp x = false) -> Forall P l -> l <> [] -> lstrip sp (l ++ u) = l ++ u.
  Proof.
    intros P l u HP Hl Hne. destruct l as [|x l]; [congruence|].
    apply lstrip_hd_app. apply HP. inversion Hl; assumption.
  Qed.

  Lemma strip_pad_forall : forall (P : N -> Prop) c a b s, sp c = true ->
    (forall x, P x -> sp x = false) -> Forall P s ->
    strip sp (repeat c a ++ s ++ repeat c b) = s.
  Proof.
    intros P c a b s Hc HP Hs. apply strip_pad_ends; [exact Hc| |].
    - destruct s as [|x s]; [reflexivity|]. rewrite <- (app_nil_r (x :: s)).
      apply (lstrip_forall_app P); [exact HP|exact Hs|discriminate].
    - destruct s as [|x s]; [reflexivity|]. rewrite <- (app_nil_r (rev (x :: s))).
      apply (lstrip_forall_app P); [exact HP|apply Forall_rev; exact Hs|].
      cbn [rev]. intros Hc'. apply app_eq_nil in Hc'. destruct Hc' as [_ Hc']. discriminate.
  Qed.

  Lemma strip_fix_parts : forall s, strip sp s = s -> lstrip sp s = s /\ lstrip sp (rev s) = rev s.
  Proof.
    intros s H. unfold strip, rstrip in H.
    assert (HL : lstrip sp s = s).
    { apply lstrip_fix_length.
      pose proof (lstrip_length s) as H1.
      pose proof (lstrip_length (rev (lstrip sp s))) as H2.
      rewrite rev_length in H2.
      assert (H3 : length (rev (lstrip sp (rev (lstrip sp s)))) = length s) by (rewrite H; reflexivity).
      rewrite rev_length in H3. lia. }
    split; [exact HL|]. rewrite HL in H.
    rewrite <- H at 2. rewrite rev_involutive. reflexivity.
  Qed.

  Lemma strip_idem : forall s, strip sp (strip sp s) = strip sp s.
  Proof.
    intros s. unfold strip, rstrip.
    set (t := lstrip sp (rev (lstrip sp s))).
    (* t = lstrip (rev u): show lstrip (rev t) = rev t, i.e. the front of rev t is not blank *)
    assert (Hfront : lstrip sp (rev t) = rev t).
    { destruct (rev t) as [|x r] eqn:E; [reflexivity|].
      (* x is the first element of rev t = last of t; t is a suffix of rev (lstrip s) *)
      cbn [lstrip]. destruct (sp x) eqn:Ex; [|reflexivity]. exfalso.
      (* x is the head of lstrip sp s unless t = [] *)
      assert (Hsuf : exists p, rev (lstrip sp s) = p ++ t).
      { unfold t. generalize (rev (lstrip sp s)). intros l.
        induction l as [|y l IHl]; [exists []; reflexivity|].
        cbn [lstrip]. destruct (sp y); [|exists []; reflexivity].
        destruct IHl as [p Hp]. exists (y :: p). cbn [app]. rewrite <- Hp. reflexivity. }
      destruct Hsuf as [p Hp].
      assert (Hrev : lstrip sp s = rev t ++ rev p).
      { rewrite <- (rev_involutive (lstrip sp s)). rewrite Hp. apply rev_app_distr. }
      rewrite E in Hrev. cbn [app] in Hrev.
      pose proof (lstrip_idem s) as Hi. rewrite Hrev in Hi.
      apply lstrip_fix_hd in Hi. congruence. }
    rewrite Hfront. rewrite rev_involutive. unfold t. f_equal. apply lstrip_idem.
  Qed.
End StripFacts.

Lemma is_space_SP : is_space SP = true.
Proof. reflexivity. Qed.

Theorem lit_roundtrip : forall n s, strip is_space s = s -> strip is_space (ljust n s) = s.
Proof.
  intros n s H. apply strip_fix_parts in H. destruct H as [HL HR].
  unfold ljust, pad.
  change (s ++ repeat SP (n - length s)) with (repeat SP 0 ++ s ++ repeat SP (n - length s)).
  apply strip_pad_ends; [exact is_space_SP|exact HL|exact HR].
Qed.

Theorem strip_blank : forall n, strip is_space (pad n) = [].
Proof.
  intros n. unfold pad.
  rewrite <- (app_nil_r (repeat SP n)).
  change (repeat SP n ++ []) with (repeat SP n ++ [] ++ repeat SP 0).
  apply strip_pad_ends; [exact is_space_SP|reflexivity|reflexivity].
Qed.

Theorem strip_idempotent : forall s, strip is_space (strip is_space s) = strip is_space s.
Proof. intros s. apply strip_idem. Qed.

(* ------------------------------------------------------------------ *)
(* plain characters: ASCII digits, '-', '.'                            *)

Definition plain (c : N) : Prop := isd c \/ c = MINUS \/ c = DOT.

Definition plain_list : list N := [45; 46; 48; 49; 50; 51; 52; 53; 54; 55; 56; 57]%N.

Lemma plain_in : forall c, plain c -> In c plain_list.
Proof.
  intros c [H|[H|H]].
  - apply is_digit_range in H. unfold plain_list. cbn [In].
    assert (Hc : (c = 48 \/ c = 49 \/ c = 50 \/ c = 51 \/ c = 52 \/ c = 53 \/ c = 54 \/ c = 55
                  \/ c = 56 \/ c = 57)%N) by lia.
    intuition.
  - subst c. unfold plain_list, MINUS. cbn [In]. intuition.
  - subst c. unfold plain_list, DOT. cbn [In]. intuition.
Qed.

Lemma plain_sweep :
  forallb (fun c => negb (num_space c) && (translit c =? c)%N) plain_list = true.
Proof. vm_compute. reflexivity. Qed.

Lemma plain_facts : forall c, plain c -> num_space c = false /\ translit c = c.
Proof.
  intros c H. apply plain_in in H.
  pose proof plain_sweep as HS. rewrite forallb_forall in HS. specialize (HS c H).
  apply andb_true_iff in HS. destruct HS as [H1 H2].
  apply negb_true_iff in H1. apply N.eqb_eq in H2. split; assumption.
Qed.

Lemma num_space_SP : num_space SP = true.
Proof. reflexivity. Qed.

Lemma map_translit_plain : forall s, Forall plain s -> map translit s = s.
Proof.
  intros s H. induction H as [|c s Hc Hs IH]; [reflexivity|].
  cbn [map]. rewrite IH. destruct (plain_facts c Hc) as [_ Ht]. rewrite Ht. reflexivity.
Qed.

Lemma normalize_plain : forall a b s, Forall plain s -> normalize (pad a ++ s ++ pad b) = s.
Proof.
  intros a b s H. unfold normalize, pad.
  rewrite (strip_pad_forall num_space plain SP a b s num_space_SP).
  - apply map_translit_plain. exact H.
  - intros x Hx. destruct (plain_facts x Hx) as [Hn _]. exact Hn.
  - exact H.
Qed.

Lemma Forall_isd_plain : forall s, Forall isd s -> Forall plain s.
Proof.
  intros s H. apply Forall_impl with (P := isd); [|exact H]. intros c Hc. left. exact Hc.
Qed.

(* ------------------------------------------------------------------ *)
(* digit runs                                                          *)

Lemma digits_rest_app : forall ds rest, Forall isd ds -> digits_rest rest = ([], rest) ->
  digits_rest (ds ++ rest) = (map dv ds, rest).
Proof.
  intros ds rest H Hr. induction H as [|c ds Hc Hds IH].
  - cbn [app map]. exact Hr.
  - cbn [app map digits_rest]. unfold isd in Hc. rewrite Hc. rewrite IH. reflexivity.
Qed.

Lemma digits_rest_nil : digits_rest [] = ([], []).
Proof. reflexivity. Qed.

Lemma digits_us_app : forall ds rest, Forall isd ds -> ds <> [] -> digits_rest rest = ([], rest) ->
  digits_us (ds ++ rest) = Some (map dv ds, rest).
Proof.
  intros ds rest H Hne Hr. unfold digits_us.
  destruct ds as [|c ds]; [congruence|].
  rewrite <- app_comm_cons.
  assert (Hc : is_digit c = true) by (inversion H; assumption).
  rewrite Hc. rewrite app_comm_cons. rewrite digits_rest_app by assumption. reflexivity.
Qed.

Lemma digits_us_all : forall ds, Forall isd ds -> ds <> [] -> digits_us ds = Some (map dv ds, []).
Proof.
  intros ds H Hne. rewrite <- (app_nil_r ds) at 1. apply digits_us_app; [exact H|exact Hne|reflexivity].
Qed.

Lemma take_sign_minus : forall r, take_sign (MINUS :: r) = (true, r).
Proof. intros r. reflexivity. Qed.

Lemma take_sign_digit : forall c r, isd c -> take_sign (c :: r) = (false, c :: r).
Proof.
  intros c r H. apply is_digit_range in H. unfold take_sign.
  assert (H1 : (c =? MINUS)%N = false) by (apply N.eqb_neq; unfold MINUS; lia).
  assert (H2 : (c =? PLUS)%N = false) by (apply N.eqb_neq; unfold PLUS; lia).
  rewrite H1, H2. reflexivity.
Qed.

Lemma take_sign_text : forall neg ds rest, Forall isd ds -> ds <> [] ->
  take_sign (sign_text neg ++ ds ++ rest) = (neg, ds ++ rest).
Proof.
  intros neg ds rest H Hne. destruct neg; cbn [sign_text app].
  - apply take_sign_minus.
  - destruct ds as [|c ds]; [congruence|]. rewrite <- app_comm_cons.
    apply take_sign_digit. inversion H; assumption.
Qed.

(* ------------------------------------------------------------------ *)
(* int round trip                                                      *)

Lemma str_of_Z_shape : forall z,
  str_of_Z z = sign_text (z <? 0)%Z ++ dec_digits (Z.abs z).
Proof.
  intros z. unfold str_of_Z. destruct (z <? 0)%Z eqn:E; cbn [sign_text app].
  - apply Z.ltb_lt in E. rewrite Z.abs_neq by lia. reflexivity.
  - apply Z.ltb_ge in E. rewrite Z.abs_eq by lia. reflexivity.
Qed.

Lemma sign_text_plain : forall neg, Forall plain (sign_text neg).
Proof.
  intros neg. destruct neg; cbn [sign_text]; [|constructor].
  constructor; [|constructor]. right. left. reflexivity.
Qed.

Theorem int_roundtrip_padded : forall a b z, int_of_str (pad a ++ str_of_Z z ++ pad b) = Some z.
Proof.
  intros a b z. rewrite str_of_Z_shape.
  assert (Habs : (0 <= Z.abs z)%Z) by apply Z.abs_nonneg.
  destruct (dec_digits_spec (Z.abs z) Habs) as [Hne Hdig Hval _ _ _].
  unfold int_of_str. rewrite normalize_plain.
  2:{ apply Forall_app. split; [apply sign_text_plain|apply Forall_isd_plain; exact Hdig]. }
  rewrite <- (app_nil_r (dec_digits (Z.abs z))).
  rewrite take_sign_text by assumption.
  rewrite app_nil_r. rewrite digits_us_all by assumption.
  rewrite Hval. f_equal.
  destruct (z <? 0)%Z eqn:E.
  - apply Z.ltb_lt in E. lia.
  - apply Z.ltb_ge in E. lia.
Qed.

Theorem int_roundtrip : forall n z, int_of_str (rjust n (str_of_Z z)) = Some z.
Proof.
  intros n z. unfold rjust.
  rewrite <- (app_nil_r (str_of_Z z)). change (@nil N) with (pad 0).
  apply int_roundtrip_padded.
Qed.

(* ------------------------------------------------------------------ *)
(* half-even rounding, scaled                                          *)

Theorem half_even_bound : forall num den, (0 <= num)%Z -> (0 < den)%Z ->
  (2 * Z.abs (half_even_div num den * den - num) <= den)%Z.
Proof.
  intros num den Hn Hd. unfold half_even_div.
  assert (Hdm : num = (den * (num / den) + num mod den)%Z) by (apply Z.div_mod; lia).
  assert (Hm : (0 <= num mod den < den)%Z) by (apply Z.mod_pos_bound; lia).
  set (q := (num / den)%Z) in *. set (r := (num mod den)%Z) in *.
  assert (Hq1 : ((q + 1) * den - num = den - r)%Z) by (rewrite Hdm; ring).
  assert (Hq0 : (q * den - num = - r)%Z) by (rewrite Hdm; ring).
  destruct (den <? 2 * r)%Z eqn:E1.
  - apply Z.ltb_lt in E1. rewrite Hq1. lia.
  - apply Z.ltb_ge in E1. destruct (2 * r =? den)%Z eqn:E2.
    + apply Z.eqb_eq in E2. destruct (Z.even q).
      * rewrite Hq0. lia.
      * rewrite Hq1. lia.
    + apply Z.eqb_neq in E2. rewrite Hq0. lia.
Qed.

Theorem half_even_nonneg : forall num den, (0 <= num)%Z -> (0 < den)%Z -> (0 <= half_even_div num den)%Z.
Proof.
  intros num den Hn Hd. unfold half_even_div.
  assert (Hq : (0 <= num / den)%Z) by (apply Z.div_pos; lia).
  destruct (den <? 2 * (num mod den))%Z; [lia|].
  destruct (2 * (num mod den) =? den)%Z; [|lia].
  destruct (Z.even (num / den)); lia.
Qed.

Lemma pow_pos_b : forall b k, (0 < b)%Z -> (0 <= k)%Z -> (0 < b ^ k)%Z.
Proof. intros b k Hb Hk. apply Z.pow_pos_nonneg; assumption. Qed.

Theorem scaled_pos : forall m e d, let (num, den) := scaled m e d in (0 < num)%Z /\ (0 < den)%Z.
Proof.
  intros m e d. unfold scaled.
  assert (Hm : (0 < Zpos m)%Z) by lia.
  destruct (0 <=? e)%Z eqn:Ee; destruct (0 <=? d)%Z eqn:Ed;
    try (apply Z.leb_le in Ee); try (apply Z.leb_gt in Ee);
    try (apply Z.leb_le in Ed); try (apply Z.leb_gt in Ed).
  - assert (H2 : (0 < 2 ^ e)%Z) by (apply pow_pos_b; lia).
    assert (H10 : (0 < 10 ^ d)%Z) by (apply pow_pos_b; lia).
    split; [|lia]. apply Z.mul_pos_pos; [apply Z.mul_pos_pos|]; assumption.
  - assert (H2 : (0 < 2 ^ e)%Z) by (apply pow_pos_b; lia).
    assert (H10 : (0 < 10 ^ (- d))%Z) by (apply pow_pos_b; lia).
    split; [|lia]. rewrite Z.mul_1_r. apply Z.mul_pos_pos; assumption.
  - assert (H2 : (0 < 2 ^ (- e))%Z) by (apply pow_pos_b; lia).
    assert (H10 : (0 < 10 ^ d)%Z) by (apply pow_pos_b; lia).
    split; [apply Z.mul_pos_pos; assumption|lia].
  - assert (H2 : (0 < 2 ^ (- e))%Z) by (apply pow_pos_b; lia).
    assert (H10 : (0 < 10 ^ (- d))%Z) by (apply pow_pos_b; lia).
    split; [lia|]. apply Z.mul_pos_pos; assumption.
Qed.

Theorem scaled_value : forall m e d, let (num, den) := scaled m e d in
  (num * (if 0 <=? e then 1 else 2 ^ (- e)) * (if 0 <=? d then 1 else 10 ^ (- d))
   = den * (Zpos m * (if 0 <=? e then 2 ^ e else 1) * (if 0 <=? d then 10 ^ d else 1)))%Z.
Proof.
  intros m e d. unfold scaled.
  destruct (0 <=? e)%Z; destruct (0 <=? d)%Z; ring.
Qed.

Theorem round_dec_half_unit : forall m e d, let (num, den) := scaled m e d in
  (2 * Z.abs (round_dec m e d * den - num) <= den)%Z.
Proof.
  intros m e d. pose proof (scaled_pos m e d) as HP. unfold round_dec.
  destruct (scaled m e d) as [num den]. destruct HP as [Hn Hd].
  apply half_even_bound; lia.
Qed.

(* ------------------------------------------------------------------ *)
(* fixed_text                                                          *)

Lemma zpad_length : forall d s, length (zpad d s) = Nat.max d (length s).
Proof.
  intros d s. unfold zpad. rewrite app_length. rewrite repeat_length. lia.
Qed.

Theorem fixed_text_shape : forall neg n d, (0 <= n)%Z ->
  fixed_text neg n d =
    sign_text neg ++ dec_digits (n / 10 ^ Z.of_nat d) ++
    (match d with O => [] | _ => DOT :: zpad d (dec_digits (n mod 10 ^ Z.of_nat d)) end) /\
  length (zpad d (dec_digits (n mod 10 ^ Z.of_nat d))) = Nat.max d (length (dec_digits (n mod 10 ^ Z.of_nat d))).
Proof.
  intros neg n d Hn. split; [reflexivity|apply zpad_length].
Qed.

Lemma pow10_pos : forall d, (0 < 10 ^ Z.of_nat d)%Z.
Proof. intros d. apply pow_pos_b; lia. Qed.

Theorem fixed_text_decimals : forall n d, (0 <= n)%Z -> (0 < d)%nat ->
  length (zpad d (dec_digits (n mod 10 ^ Z.of_nat d))) = d.
Proof.
  intros n d Hn Hd. rewrite zpad_length.
  assert (Hm : (0 <= n mod 10 ^ Z.of_nat d < 10 ^ Z.of_nat d)%Z).
  { apply Z.mod_pos_bound. apply pow10_pos. }
  pose proof (dec_digits_length_le _ d Hm Hd) as HL. lia.
Qed.

(* ------------------------------------------------------------------ *)
(* float(fixed_text)                                                   *)

Lemma str_eq_ci_digit : forall ds rest l0 lit, Forall isd ds -> ds <> [] -> (57 < l0)%N ->
  str_eq_ci (ds ++ rest) (l0 :: lit) = false.
Proof.
  intros ds rest l0 lit H Hne Hl. destruct ds as [|c ds]; [congruence|].
  assert (Hc : isd c) by (inversion H; assumption). apply is_digit_range in Hc.
  unfold str_eq_ci. rewrite <- app_comm_cons. cbn [map str_eqb].
  assert (Hlow : lower c = c).
  { unfold lower. assert (E : (65 <=? c)%N = false) by (apply N.leb_gt; lia).
    rewrite E. reflexivity. }
  rewrite Hlow.
  assert (E : (c =? l0)%N = false) by (apply N.eqb_neq; lia).
  rewrite E. reflexivity.
Qed.

Lemma digits_rest_dot : forall r, digits_rest (DOT :: r) = ([], DOT :: r).
Proof. intros r. reflexivity. Qed.

Lemma zpad_isd : forall d s, Forall isd s -> Forall isd (zpad d s).
Proof.
  intros d s H. unfold zpad. apply Forall_app. split; [|exact H].
  apply Forall_forall. intros x Hx. apply repeat_spec in Hx. subst x. reflexivity.
Qed.

Lemma zpad_value : forall d s, Z_of_digits (map dv (zpad d s)) = Z_of_digits (map dv s).
Proof.
  intros d s. unfold zpad. rewrite map_app. rewrite Z_of_digits_app.
  rewrite Z_of_digits_zeros. lia.
Qed.

Definition frac_tail (n : Z) (d : nat) : str :=
  match d with O => [] | _ => DOT :: zpad d (dec_digits (n mod 10 ^ Z.of_nat d)) end.

Lemma fixed_text_unfold : forall neg n d,
  fixed_text neg n d = sign_text neg ++ dec_digits (n / 10 ^ Z.of_nat d) ++ frac_tail n d.
Proof. intros neg n d. reflexivity. Qed.

Lemma frac_tail_plain : forall n d, (0 <= n)%Z -> Forall plain (frac_tail n d).
Proof.
  intros n d Hn. unfold frac_tail. destruct d as [|d']; [constructor|].
  constructor; [right; right; reflexivity|].
  apply Forall_isd_plain. apply zpad_isd.
  assert (Hm : (0 <= n mod 10 ^ Z.of_nat (S d'))%Z).
  { apply Z.mod_pos_bound. apply pow10_pos. }
  destruct (dec_digits_spec _ Hm) as [_ Hdig _ _ _ _]. exact Hdig.
Qed.

Lemma frac_tail_rest : forall n d, digits_rest (frac_tail n d) = ([], frac_tail n d).
Proof. intros n d. unfold frac_tail. destruct d; reflexivity. Qed.

Theorem fixed_text_parse_padded : forall neg n d k, (0 <= n)%Z ->
  float_of_str (pad k ++ fixed_text neg n d) = Some (sf_of_dec neg n (- Z.of_nat d)).
Proof.
  intros neg n d k Hn.
  assert (Hp : (0 < 10 ^ Z.of_nat d)%Z) by apply pow10_pos.
  assert (Hq : (0 <= n / 10 ^ Z.of_nat d)%Z) by (apply Z.div_pos; lia).
  assert (Hm : (0 <= n mod 10 ^ Z.of_nat d < 10 ^ Z.of_nat d)%Z) by (apply Z.mod_pos_bound; exact Hp).
  assert (Hdm : n = (10 ^ Z.of_nat d * (n / 10 ^ Z.of_nat d) + n mod 10 ^ Z.of_nat d)%Z)
    by (apply Z.div_mod; lia).
  destruct (dec_digits_spec _ Hq) as [Hne1 Hdig1 Hval1 _ _ _].
  destruct Hm as [Hm0 Hm1].
  destruct (dec_digits_spec _ Hm0) as [Hne2 Hdig2 Hval2 _ _ _].
  assert (Hnorm : normalize (pad k ++ fixed_text neg n d) = fixed_text neg n d).
  { rewrite <- (app_nil_r (fixed_text neg n d)) at 1. change (@nil N) with (pad 0) at 1.
    apply normalize_plain. rewrite fixed_text_unfold.
    apply Forall_app. split; [apply sign_text_plain|].
    apply Forall_app. split; [apply Forall_isd_plain; exact Hdig1|apply frac_tail_plain; exact Hn]. }
  unfold float_of_str. rewrite Hnorm. rewrite fixed_text_unfold.
  set (D1 := dec_digits (n / 10 ^ Z.of_nat d)) in *.
  rewrite take_sign_text by assumption.
  unfold s_inf, s_infinity, s_nan.
  rewrite !str_eq_ci_digit by (assumption || reflexivity).
  cbn [orb]. unfold opt_digits at 1.
  rewrite digits_us_app by (assumption || apply frac_tail_rest).
  assert (Hnil : nil_b (map dv D1) = false).
  { destruct D1 as [|c r]; [congruence|reflexivity]. }
  unfold frac_tail. destruct d as [|d'].
  - rewrite Hnil. cbn [andb]. rewrite app_nil_r. cbn [length]. fold dv in Hval1.
    rewrite Hval1. change (Z.of_nat 0) with 0%Z. rewrite Z.pow_0_r. rewrite Z.div_1_r.
    reflexivity.
  - set (D2 := dec_digits (n mod 10 ^ Z.of_nat (S d'))) in *.
    assert (HDOT : (DOT =? DOT)%N = true) by reflexivity. rewrite HDOT.
    unfold opt_digits.
    assert (Hz : Forall isd (zpad (S d') D2)) by (apply zpad_isd; exact Hdig2).
    assert (Hzne : zpad (S d') D2 <> []).
    { intros Hc. apply (f_equal (@length N)) in Hc. rewrite zpad_length in Hc.
      cbn [length] in Hc. lia. }
    rewrite digits_us_all by assumption.
    rewrite Hnil. cbn [andb].
    assert (Hlen : length (map dv (zpad (S d') D2)) = S d').
    { rewrite map_length. unfold D2. apply fixed_text_decimals; [exact Hn|lia]. }
    rewrite Hlen. rewrite Z_of_digits_app. rewrite Hlen. rewrite zpad_value.
    fold dv in Hval1, Hval2. rewrite Hval1, Hval2.
    replace (n / 10 ^ Z.of_nat (S d') * 10 ^ Z.of_nat (S d') + n mod 10 ^ Z.of_nat (S d'))%Z
      with n by lia.
    reflexivity.
Qed.

Theorem fixed_text_parse : forall neg n d, (0 <= n)%Z ->
  float_of_str (fixed_text neg n d) = Some (sf_of_dec neg n (- Z.of_nat d)).
Proof.
  intros neg n d Hn. apply (fixed_text_parse_padded neg n d 0 Hn).
Qed.

Print Assumptions dec_digits_digits.
Print Assumptions dec_digits_value.
Print Assumptions dec_digits_canonical.
Print Assumptions int_roundtrip.
Print Assumptions int_roundtrip_padded.
Print Assumptions lit_roundtrip.
Print Assumptions strip_blank.
Print Assumptions strip_idempotent.
Print Assumptions half_even_bound.
Print Assumptions half_even_nonneg.
Print Assumptions scaled_pos.
Print Assumptions scaled_value.
Print Assumptions round_dec_half_unit.
Print Assumptions fixed_text_shape.
Print Assumptions fixed_text_decimals.
Print Assumptions fixed_text_parse.
Print Assumptions fixed_text_parse_padded.
