From Coq Require Import ZArith NArith List Bool Lia Permutation.
From Cfi Require Import Glue.Sx Model.Version.
Import ListNotations.

(* ---------- the order on strings *)
Lemma str_leb_refl a : str_leb a a = true.
Proof. induction a as [|x a IH]; simpl; auto. rewrite N.ltb_irrefl. exact IH. Qed.

Lemma str_leb_total a b : str_leb a b = true \/ str_leb b a = true.
Proof.
  revert b; induction a as [|x a IH]; intros [|y b]; simpl; auto.
  destruct (N.ltb_spec x y) as [H|H]; auto.
  destruct (N.ltb_spec y x) as [H'|H']; auto.
Qed.

Lemma str_leb_antisym a b : str_leb a b = true -> str_leb b a = true -> a = b.
Proof.
  revert b; induction a as [|x a IH]; intros [|y b]; simpl; try congruence.
  destruct (N.ltb_spec x y) as [H|H]; destruct (N.ltb_spec y x) as [H'|H']; try congruence; try lia.
  intros H1 H2. assert (x = y) by lia. subst. f_equal. apply IH; assumption.
Qed.

Lemma str_leb_trans a b c : str_leb a b = true -> str_leb b c = true -> str_leb a c = true.
Proof.
  revert b c; induction a as [|x a IH]; intros [|y b] [|z c]; simpl; try congruence.
  destruct (N.ltb_spec x y) as [H|H]; destruct (N.ltb_spec y x) as [H'|H'];
  destruct (N.ltb_spec y z) as [G|G]; destruct (N.ltb_spec z y) as [G'|G'];
  destruct (N.ltb_spec x z) as [K|K]; destruct (N.ltb_spec z x) as [K'|K']; try congruence; try lia.
  apply IH.
Qed.

(* ---------- sorting *)
Inductive sorted : list str -> Prop :=
| sorted_nil : sorted []
| sorted_one a : sorted [a]
| sorted_cons a b l : str_leb a b = true -> sorted (b :: l) -> sorted (a :: b :: l).

Lemma insert_perm k l : Permutation (k :: l) (insert k l).
Proof.
  induction l as [|h t IH]; simpl; auto.
  destruct (str_leb k h); auto.
  eapply perm_trans; [apply perm_swap|]. apply perm_skip. exact IH.
Qed.

Lemma sort_perm l : Permutation l (sort l).
Proof.
  induction l as [|h t IH]; simpl; auto.
  eapply perm_trans; [apply perm_skip; exact IH|]. apply insert_perm.
Qed.

Lemma insert_sorted k l : sorted l -> sorted (insert k l).
Proof.
  induction 1 as [|a|a b l Hab Hs IH]; simpl.
  - constructor.
  - destruct (str_leb k a) eqn:E.
    + constructor; [exact E|constructor].
    + constructor; [|constructor]. destruct (str_leb_total k a); congruence.
  - destruct (str_leb k a) eqn:E.
    + constructor; [exact E|]. constructor; assumption.
    + simpl in IH. destruct (str_leb k b) eqn:E2.
      * constructor; [destruct (str_leb_total k a); congruence|]. exact IH.
      * constructor; [exact Hab|exact IH].
Qed.

Lemma sort_sorted l : sorted (sort l).
Proof. induction l; simpl; [constructor|apply insert_sorted; assumption]. Qed.

Lemma sorted_head_le a l : sorted (a :: l) -> forall x, In x l -> str_leb a x = true.
Proof.
  revert a; induction l as [|b l IH]; intros a Hs x Hin; [destruct Hin|].
  inversion Hs as [| |? ? ? Hab Hs']; subst.
  destruct Hin as [->|Hin]; [exact Hab|].
  eapply str_leb_trans; [exact Hab|]. apply IH; assumption.
Qed.

Lemma sorted_tail a l : sorted (a :: l) -> sorted l.
Proof. inversion 1; subst; [constructor|assumption]. Qed.

Lemma sorted_filter f l : sorted l -> sorted (filter f l).
Proof.
  induction l as [|a l IH]; intro Hs; simpl; [constructor|].
  pose proof (sorted_tail _ _ Hs) as Ht. specialize (IH Ht).
  destruct (f a); [|exact IH].
  destruct (filter f l) as [|b r] eqn:E; [constructor|].
  constructor; [|exact IH].
  apply (sorted_head_le a l Hs). apply (proj1 (filter_In f b l)). rewrite E. left; reflexivity.
Qed.

Lemma last_opt_in {A} (l : list A) a : last_opt l = Some a -> In a l.
Proof.
  induction l as [|x [|y l] IH]; simpl; try congruence.
  - intros [= ->]; auto.
  - intro H. right. apply IH. exact H.
Qed.

Lemma last_opt_none {A} (l : list A) : last_opt l = None -> l = [].
Proof. induction l as [|x [|y l] IH]; simpl; try congruence. intro H. specialize (IH H). discriminate. Qed.

Lemma sorted_last_max l a : sorted l -> last_opt l = Some a -> forall x, In x l -> str_leb x a = true.
Proof.
  induction l as [|h t IH]; intros Hs Hl x Hin; [destruct Hin|].
  destruct t as [|h2 t'].
  - simpl in Hl. injection Hl as <-. destruct Hin as [->|[]]. apply str_leb_refl.
  - assert (Hl' : last_opt (h2 :: t') = Some a) by exact Hl.
    pose proof (sorted_tail _ _ Hs) as Ht.
    destruct Hin as [->|Hin].
    + eapply str_leb_trans; [|apply (IH Ht Hl' h2); left; reflexivity].
      inversion Hs; subst; assumption.
    + apply (IH Ht Hl' x Hin).
Qed.

(* ---------- closest = greatest key <= v *)
Definition is_max_le (keys : list str) (v k : str) : Prop :=
  In k keys /\ str_leb k v = true /\ forall k', In k' keys -> str_leb k' v = true -> str_leb k' k = true.

Lemma closest_some keys v k : closest keys v = Some k <-> is_max_le keys v k.
Proof.
  unfold closest, is_max_le. split.
  - intro H. pose proof (last_opt_in _ _ H) as Hin. apply filter_In in Hin as [Hin Hle].
    split; [|split]; auto.
    + eapply Permutation_in; [apply Permutation_sym, sort_perm|exact Hin].
    + intros k' Hk' Hle'. eapply sorted_last_max; [apply sorted_filter, sort_sorted|exact H|].
      apply filter_In. split; auto. eapply Permutation_in; [apply sort_perm|exact Hk'].
  - intros (Hin & Hle & Hmax).
    destruct (last_opt (filter (fun k0 => str_leb k0 v) (sort keys))) as [k2|] eqn:E.
    + f_equal. pose proof (last_opt_in _ _ E) as Hin2. apply filter_In in Hin2 as [Hin2 Hle2].
      apply str_leb_antisym.
      * apply Hmax; auto. eapply Permutation_in; [apply Permutation_sym, sort_perm|exact Hin2].
      * eapply sorted_last_max; [apply sorted_filter, sort_sorted|exact E|].
        apply filter_In. split; auto. eapply Permutation_in; [apply sort_perm|exact Hin].
    + apply last_opt_none in E. exfalso.
      assert (Hf : In k (filter (fun k0 => str_leb k0 v) (sort keys))).
      { apply filter_In. split; auto. eapply Permutation_in; [apply sort_perm|exact Hin]. }
      rewrite E in Hf. destruct Hf.
Qed.

Lemma closest_none keys v : closest keys v = None <-> forall k, In k keys -> str_leb k v = false.
Proof.
  unfold closest. split.
  - intros H k Hin. apply last_opt_none in H.
    destruct (str_leb k v) eqn:E; auto. exfalso.
    assert (Hf : In k (filter (fun k0 => str_leb k0 v) (sort keys))).
    { apply filter_In. split; auto. eapply Permutation_in; [apply sort_perm|exact Hin]. }
    rewrite H in Hf. destruct Hf.
  - intro H. destruct (last_opt _) as [k|] eqn:E; auto.
    apply last_opt_in in E. apply filter_In in E as [Hin Hle].
    rewrite (H k) in Hle; [discriminate|]. eapply Permutation_in; [apply Permutation_sym, sort_perm|exact Hin].
Qed.

Lemma is_max_le_unique keys v k1 k2 : is_max_le keys v k1 -> is_max_le keys v k2 -> k1 = k2.
Proof. intros (I1 & L1 & M1) (I2 & L2 & M2). apply str_leb_antisym; auto. Qed.

Lemma closest_perm keys keys' v : Permutation keys keys' -> closest keys v = closest keys' v.
Proof.
  intro P. destruct (closest keys v) as [k|] eqn:E.
  - symmetry. apply closest_some. apply closest_some in E. destruct E as (I & Lk & M).
    split; [eapply Permutation_in; eauto|split; auto].
    intros k' Hk'. apply M. eapply Permutation_in; [apply Permutation_sym; exact P|exact Hk'].
  - symmetry. apply closest_none. intros k Hin.
    apply (proj1 (closest_none keys v) E). eapply Permutation_in; [apply Permutation_sym; exact P|exact Hin].
Qed.

(* ---------- lookup *)
Section V.
  Variable V : Type.

  Lemma lookup_in_nodup (t : table V) k v :
    NoDup (map fst t) -> In (k, v) t -> lookup k t = Some v.
  Proof.
    induction t as [|[k' v'] t IH]; simpl; intros Hnd Hin; [destruct Hin|].
    inversion Hnd as [|? ? Hni Hnd']; subst.
    destruct Hin as [[= -> ->]|Hin].
    - replace (str_eqb k k) with true; auto. symmetry. apply str_eqb_eq. reflexivity.
    - destruct (str_eqb k k') eqn:E.
      + apply str_eqb_eq in E. subst. exfalso. apply Hni. apply in_map_iff. exists (k', v). auto.
      + apply IH; auto.
  Qed.

  Lemma lookup_some_in (t : table V) k v : lookup k t = Some v -> In (k, v) t.
  Proof.
    induction t as [|[k' v'] t IH]; simpl; [congruence|].
    destruct (str_eqb k k') eqn:E.
    - apply str_eqb_eq in E. subst. intros [= ->]. auto.
    - intro H. right. apply IH. exact H.
  Qed.

  Lemma lookup_none_notin (t : table V) k : lookup k t = None -> ~ In k (map fst t).
  Proof.
    induction t as [|[k' v'] t IH]; simpl; [tauto|].
    destruct (str_eqb k k') eqn:E; [congruence|].
    intros H [Heq|Hin]; [|apply (IH H Hin)].
    subst. assert (str_eqb k k = true) by (apply str_eqb_eq; reflexivity). congruence.
  Qed.

  Lemma lookup_perm (t t' : table V) k :
    Permutation t t' -> NoDup (map fst t) -> lookup k t = lookup k t'.
  Proof.
    intros P Hnd.
    assert (Hnd' : NoDup (map fst t')).
    { eapply Permutation_NoDup; [apply Permutation_map; exact P|exact Hnd]. }
    destruct (lookup k t) as [v|] eqn:E.
    - symmetry. apply lookup_in_nodup; auto. eapply Permutation_in; [exact P|]. apply lookup_some_in. exact E.
    - destruct (lookup k t') as [v'|] eqn:E'; auto.
      exfalso. apply (lookup_none_notin _ _ E).
      apply lookup_some_in in E'. apply in_map_iff. exists (k, v'). split; auto.
      eapply Permutation_in; [apply Permutation_sym; exact P|exact E'].
  Qed.

  (* the property's reading of set_version *)
  Lemma set_version_spec (t : table V) v active :
    (forall k, is_max_le (map fst t) v k ->
       exists r, lookup k t = Some r /\ set_version t v active = r) /\
    ((forall k, In k (map fst t) -> str_leb k v = false) -> set_version t v active = active).
  Proof.
    unfold set_version. split.
    - intros k Hk. pose proof (proj2 (closest_some _ _ _) Hk) as E. rewrite E.
      destruct Hk as (Hin & _). destruct (lookup k t) as [r|] eqn:El.
      + exists r. auto.
      + exfalso. apply (lookup_none_notin _ _ El Hin).
    - intro H. rewrite (proj2 (closest_none _ _) H). reflexivity.
  Qed.

  Lemma set_version_perm (t t' : table V) v active :
    Permutation t t' -> NoDup (map fst t) -> set_version t v active = set_version t' v active.
  Proof.
    intros P Hnd. unfold set_version.
    rewrite (closest_perm (map fst t) (map fst t') v (Permutation_map fst P)).
    destruct (closest (map fst t') v) as [k|]; auto.
    rewrite (lookup_perm t t' k P Hnd). reflexivity.
  Qed.

  (* ---------- class tree: isolation *)
  Lemma nth_error_set_nth_other {A} (l : list A) n m f : n <> m -> nth_error (set_nth n f l) m = nth_error l m.
  Proof.
    revert n m; induction l as [|a l IH]; intros [|n] [|m] H; simpl; auto; try congruence.
    all: try (apply IH; congruence).
  Qed.

  Lemma length_set_nth {A} (l : list A) n f : length (set_nth n f l) = length l.
  Proof. revert n; induction l as [|a l IH]; intros [|n]; simpl; auto. Qed.

  Lemma nth_error_set_nth_same {A} (l : list A) n f a : nth_error l n = Some a -> nth_error (set_nth n f l) n = Some (f a).
  Proof. revert n; induction l as [|x l IH]; intros [|n]; simpl; try congruence. apply IH. Qed.

  Definition upd (r : V) (k : cls V) : cls V :=
    {| parent := parent k; own_active := Some r; own_table := own_table k |}.

  Lemma resolve_active_frame (w : world V) c r fuel c' :
    ~ In c (visited own_active w fuel c') ->
    resolve own_active (set_nth c (upd r) w) fuel c' = resolve own_active w fuel c'.
  Proof.
    revert c'; induction fuel as [|f IH]; intros c' Hni; simpl; auto.
    simpl in Hni.
    destruct (Nat.eq_dec c c') as [->|Hne].
    - exfalso. apply Hni. destruct (nth_error w c') as [k|]; [|left; reflexivity].
      destruct (own_active k); left; reflexivity.
    - rewrite nth_error_set_nth_other by exact Hne.
      destruct (nth_error w c') as [k|]; auto.
      destruct (own_active k); auto.
      destruct (parent k) as [p|]; auto.
      apply IH. intro Hin. apply Hni. right. exact Hin.
  Qed.

  (* set_version on class c leaves the active list of every class whose attribute lookup does not
     pass through c unchanged *)
  Lemma set_version_cls_isolated (w : world V) c v c' :
    ~ In c (visited own_active w (length w) c') ->
    active_of (set_version_cls w c v) c' = active_of w c'.
  Proof.
    intro Hni. unfold set_version_cls, active_of.
    destruct (resolve own_table w (length w) c) as [t|]; auto.
    destruct (resolve own_active w (length w) c) as [a|]; auto.
    destruct (closest (map fst t) v) as [k|]; auto.
    rewrite length_set_nth. apply resolve_active_frame. exact Hni.
  Qed.

  (* well-formed tree: parents have smaller indices *)
  Definition wf_world (w : world V) : Prop :=
    forall c k p, nth_error w c = Some k -> parent k = Some p -> p < c.

  Lemma visited_le (w : world V) fuel c' x : wf_world w -> In x (visited own_active w fuel c') -> x <= c'.
  Proof.
    intro Hwf. revert c'; induction fuel as [|f IH]; intros c' Hin; simpl in Hin; [destruct Hin|].
    destruct (nth_error w c') as [k|] eqn:E.
    - destruct (own_active k).
      + destruct Hin as [<-|[]]; lia.
      + destruct Hin as [<-|Hin]; [lia|].
        destruct (parent k) as [p|] eqn:Ep; [|destruct Hin].
        specialize (IH p Hin). pose proof (Hwf c' k p E Ep). lia.
    - destruct Hin as [<-|[]]; lia.
  Qed.

  (* in particular: ancestors (and every class with a smaller index) are untouched *)
  Lemma set_version_cls_parent (w : world V) c v c' :
    wf_world w -> c' < c -> active_of (set_version_cls w c v) c' = active_of w c'.
  Proof.
    intros Hwf Hlt. apply set_version_cls_isolated. intro Hin.
    pose proof (visited_le w (length w) c' c Hwf Hin). lia.
  Qed.

  (* and the selected class itself gets the selected list (when lookup succeeds) *)
  Lemma set_version_cls_self (w : world V) c v t a kc :
    nth_error w c = Some kc ->
    resolve own_table w (length w) c = Some t ->
    resolve own_active w (length w) c = Some a ->
    active_of (set_version_cls w c v) c = Some (set_version t v a).
  Proof.
    intros Hn Ht Ha. unfold set_version_cls, active_of, set_version. rewrite Ht, Ha.
    destruct (closest (map fst t) v) as [k|]; [|exact Ha].
    rewrite length_set_nth.
    assert (Hlen : c < length w) by (apply nth_error_Some; congruence).
    destruct (length w) as [|f]; [lia|]. simpl.
    rewrite (nth_error_set_nth_same w c _ kc Hn). simpl. reflexivity.
  Qed.
End V.
