(* The codecs of Py/PyStr.v (utf-8) and Py/PyCodec.v (latin-1, cp1252, utf-16) are lawful: decoding what was
   encoded gives the text back. This discharges the [codec] hypothesis of Properties/C16.v for the four
   encodings the property quantifies over. Also: totality of the encoders on their domains, injectivity,
   canonicity of utf-8 decoding, and the universal-newline translation. *)
From Coq Require Import ZArith NArith List Bool Arith Lia.
From Cfi Require Import Glue.Sx Py.PyStr Py.PyCodec.
Import ListNotations.
Local Open Scope N_scope.

Ltac Zify.zify_post_hook ::= Z.to_euclidean_division_equations.

(* decide the boolean comparison at the head of an [if] / inside [&&], [||] from the context, by lia *)
Ltac nb1 :=
  match goal with
  | |- context [?a <? ?b] =>
      first [ replace (a <? b) with true by (symmetry; apply N.ltb_lt; lia)
            | replace (a <? b) with false by (symmetry; apply N.ltb_ge; lia) ]
  | |- context [?a <=? ?b] =>
      first [ replace (a <=? b) with true by (symmetry; apply N.leb_le; lia)
            | replace (a <=? b) with false by (symmetry; apply N.leb_gt; lia) ]
  | |- context [?a =? ?b] =>
      first [ replace (a =? b) with true by (symmetry; apply N.eqb_eq; lia)
            | replace (a =? b) with false by (symmetry; apply N.eqb_neq; lia) ]
  end.
Ltac nb := repeat nb1; cbn [andb orb negb].

(* ------------------------------------------------------------------ map_opt *)
Section MapOpt.
  Context {A B : Type}.

  Lemma map_opt_inverse (f : A -> option B) (g : B -> option A) :
    (forall a b, f a = Some b -> g b = Some a) ->
    forall l l', map_opt f l = Some l' -> map_opt g l' = Some l.
  Proof.
    intros Hfg l; induction l as [|a l IH]; intros l' H; cbn [map_opt] in H.
    - injection H as <-. reflexivity.
    - destruct (f a) as [b|] eqn:Ea; [|discriminate].
      destruct (map_opt f l) as [r|] eqn:Er; [|discriminate].
      injection H as <-. cbn [map_opt]. rewrite (Hfg _ _ Ea), (IH _ eq_refl). reflexivity.
  Qed.

  Lemma map_opt_total (f : A -> option B) l :
    (exists l', map_opt f l = Some l') <-> (forall a, In a l -> exists b, f a = Some b).
  Proof.
    induction l as [|a l IH]; cbn [map_opt In].
    - split; [intros _ a []|intros _; eexists; reflexivity].
    - split.
      + intros [l' H] x [<-|Hx].
        * destruct (f a) as [b|]; [eexists; reflexivity|discriminate].
        * destruct (f a); [|discriminate]. destruct (map_opt f l) eqn:E; [|discriminate].
          apply (proj1 IH); [eexists; reflexivity|exact Hx].
      + intros H. destruct (H a (or_introl eq_refl)) as [b ->].
        destruct (proj2 IH (fun x Hx => H x (or_intror Hx))) as [r ->]. eexists; reflexivity.
  Qed.
End MapOpt.

(* ------------------------------------------------------------------ latin-1 *)
Lemma latin1_char_inv c b : latin1_char c = Some b -> latin1_char b = Some c.
Proof.
  unfold latin1_char. destruct (c <? 256) eqn:E; [|discriminate].
  intros H; injection H as <-. rewrite E. reflexivity.
Qed.

Theorem latin1_lawful : forall s b, latin1_encode s = Some b -> latin1_decode b = Some s.
Proof. exact (map_opt_inverse latin1_char latin1_char latin1_char_inv). Qed.

Theorem latin1_encode_total_iff : forall s,
  (exists b, latin1_encode s = Some b) <-> (forall c, In c s -> c <= 255).
Proof.
  intros s. unfold latin1_encode. rewrite map_opt_total. split; intros H c Hc.
  - destruct (H c Hc) as [b Hb]. unfold latin1_char in Hb.
    destruct (N.ltb_spec c 256); [lia|discriminate].
  - specialize (H c Hc). unfold latin1_char. nb. eexists; reflexivity.
Qed.

(* latin-1 is the identity on the code points it accepts *)
Lemma latin1_encode_id : forall s b, latin1_encode s = Some b -> b = s.
Proof.
  induction s as [|c s IH]; intros b H; cbn [latin1_encode map_opt] in H.
  - injection H as <-. reflexivity.
  - unfold latin1_char at 1 in H. destruct (c <? 256); [|discriminate].
    fold (latin1_encode s) in H. destruct (latin1_encode s) as [r|]; [|discriminate].
    injection H as <-. f_equal. apply IH. reflexivity.
Qed.

(* ------------------------------------------------------------------ cp1252 *)
Lemma cp1252_table_sound : forall p, In p cp1252_table ->
  128 <= fst p < 160 /\ 256 <= snd p /\
  find (fun q => fst q =? fst p) cp1252_table = Some p /\
  find (fun q => snd q =? snd p) cp1252_table = Some p.
Proof.
  assert (H : forallb (fun p =>
             (128 <=? fst p) && (fst p <? 160) && (256 <=? snd p) &&
             match find (fun q => fst q =? fst p) cp1252_table with
             | Some q => (fst q =? fst p) && (snd q =? snd p) | None => false end &&
             match find (fun q => snd q =? snd p) cp1252_table with
             | Some q => (fst q =? fst p) && (snd q =? snd p) | None => false end)
           cp1252_table = true) by (vm_compute; reflexivity).
  intros p Hp. rewrite forallb_forall in H. specialize (H p Hp).
  repeat (apply andb_true_iff in H; destruct H as [H ?H]).
  apply N.leb_le in H. apply N.ltb_lt in H3. apply N.leb_le in H2.
  repeat split; try assumption.
  - destruct (find (fun q => fst q =? fst p) cp1252_table) as [q|]; [|discriminate].
    apply andb_true_iff in H1 as [Ha Hb]. apply N.eqb_eq in Ha, Hb.
    destruct p, q; cbn [fst snd] in *; congruence.
  - destruct (find (fun q => snd q =? snd p) cp1252_table) as [q|]; [|discriminate].
    apply andb_true_iff in H0 as [Ha Hb]. apply N.eqb_eq in Ha, Hb.
    destruct p, q; cbn [fst snd] in *; congruence.
Qed.

Lemma cp1252_char_lawful c b : cp1252_encode_char c = Some b -> cp1252_decode_byte b = Some c.
Proof.
  unfold cp1252_encode_char, cp1252_decode_byte.
  destruct (N.ltb_spec c 128) as [H1|H1].
  { intros H; injection H as <-. nb. reflexivity. }
  destruct (N.leb_spec 160 c) as [H2|H2]; cbn [andb].
  - destruct (N.ltb_spec c 256) as [H3|H3].
    { intros H; injection H as <-. nb. reflexivity. }
    destruct (find (fun p => snd p =? c) cp1252_table) as [p|] eqn:E; [|discriminate].
    cbn [option_map]. intros H; injection H as <-.
    apply find_some in E as [Hin Hc]. apply N.eqb_eq in Hc. subst c.
    destruct (cp1252_table_sound p Hin) as (Hr & _ & Hf & _). nb. rewrite Hf. reflexivity.
  - destruct (find (fun p => snd p =? c) cp1252_table) as [p|] eqn:E; [|discriminate].
    cbn [option_map]. intros H; injection H as <-.
    apply find_some in E as [Hin Hc]. apply N.eqb_eq in Hc. subst c.
    destruct (cp1252_table_sound p Hin) as (Hr & _ & Hf & _). nb. rewrite Hf. reflexivity.
Qed.

Lemma cp1252_byte_lawful b c : cp1252_decode_byte b = Some c -> cp1252_encode_char c = Some b.
Proof.
  unfold cp1252_encode_char, cp1252_decode_byte.
  destruct (N.ltb_spec b 128) as [H1|H1].
  { intros H; injection H as <-. nb. reflexivity. }
  destruct (N.ltb_spec b 160) as [H2|H2].
  - destruct (find (fun p => fst p =? b) cp1252_table) as [p|] eqn:E; [|discriminate].
    cbn [option_map]. intros H; injection H as <-.
    apply find_some in E as [Hin Hc]. apply N.eqb_eq in Hc. subst b.
    destruct (cp1252_table_sound p Hin) as (_ & Hr & _ & Hf). nb. rewrite Hf. reflexivity.
  - destruct (N.ltb_spec b 256) as [H3|H3]; [|discriminate].
    intros H; injection H as <-. nb. reflexivity.
Qed.

Theorem cp1252_lawful : forall s b, cp1252_encode s = Some b -> cp1252_decode b = Some s.
Proof. exact (map_opt_inverse cp1252_encode_char cp1252_decode_byte cp1252_char_lawful). Qed.

(* the converse also holds: cp1252 is a bijection between its domains *)
Theorem cp1252_decode_encode : forall b s, cp1252_decode b = Some s -> cp1252_encode s = Some b.
Proof. exact (map_opt_inverse cp1252_decode_byte cp1252_encode_char cp1252_byte_lawful). Qed.

(* the five holes of CPython's cp1252 *)
Lemma cp1252_undefined : forall b,
  b < 256 -> (cp1252_decode_byte b = None <-> b = 129 \/ b = 141 \/ b = 143 \/ b = 144 \/ b = 157).
Proof.
  assert (H : forallb (fun b => match cp1252_decode_byte b with
                                | None => (b =? 129) || (b =? 141) || (b =? 143) || (b =? 144) || (b =? 157)
                                | Some _ => negb ((b =? 129) || (b =? 141) || (b =? 143) || (b =? 144) || (b =? 157))
                                end) (map N.of_nat (seq 0 256)) = true) by (vm_compute; reflexivity).
  intros b Hb. rewrite forallb_forall in H.
  assert (Hin : In b (map N.of_nat (seq 0 256))).
  { apply in_map_iff. exists (N.to_nat b). split; [lia|]. apply in_seq. lia. }
  specialize (H b Hin). destruct (cp1252_decode_byte b).
  - apply negb_true_iff in H. repeat (apply orb_false_iff in H; destruct H as [H ?H]).
    rewrite N.eqb_neq in *. split; [discriminate|lia].
  - repeat (apply orb_true_iff in H; destruct H as [H|H]); apply N.eqb_eq in H; split; auto; lia.
Qed.


(* ------------------------------------------------------------------ utf-8 *)
Ltac nbp := repeat (nb1; cbn [andb orb negb]).
Lemma some_inj {A} (x y : A) : Some x = Some y -> x = y.
Proof. congruence. Qed.

(* one decoding step, by the shape of the lead byte *)
Lemma utf8_dec1 f b0 r : b0 < 128 ->
  utf8_decode_fuel (S f) (b0 :: r) = option_map (cons b0) (utf8_decode_fuel f r).
Proof. intros H. cbn [utf8_decode_fuel]. nbp. reflexivity. Qed.

Lemma utf8_dec2 f b0 b1 r : 194 <= b0 <= 223 -> 128 <= b1 <= 191 ->
  utf8_decode_fuel (S f) (b0 :: b1 :: r) =
  option_map (cons ((b0 - 192) * 64 + (b1 - 128))) (utf8_decode_fuel f r).
Proof. intros H0 H1. cbn [utf8_decode_fuel]. unfold cont_byte. nbp. reflexivity. Qed.

Lemma utf8_dec3 f b0 b1 b2 r : 224 <= b0 <= 239 ->
  (if b0 =? 224 then 160 else 128) <= b1 <= (if b0 =? 237 then 159 else 191) -> 128 <= b2 <= 191 ->
  utf8_decode_fuel (S f) (b0 :: b1 :: b2 :: r) =
  option_map (cons ((b0 - 224) * 4096 + (b1 - 128) * 64 + (b2 - 128))) (utf8_decode_fuel f r).
Proof.
  intros H0 H1 H2. cbn [utf8_decode_fuel]. unfold cont_byte. cbv zeta.
  destruct (N.eqb_spec b0 224), (N.eqb_spec b0 237); try lia; nbp; reflexivity.
Qed.

Lemma utf8_dec4 f b0 b1 b2 b3 r : 240 <= b0 <= 244 ->
  (if b0 =? 240 then 144 else 128) <= b1 <= (if b0 =? 244 then 143 else 191) ->
  128 <= b2 <= 191 -> 128 <= b3 <= 191 ->
  utf8_decode_fuel (S f) (b0 :: b1 :: b2 :: b3 :: r) =
  option_map (cons ((b0 - 240) * 262144 + (b1 - 128) * 4096 + (b2 - 128) * 64 + (b3 - 128))) (utf8_decode_fuel f r).
Proof.
  intros H0 H1 H2 H3. cbn [utf8_decode_fuel]. unfold cont_byte. cbv zeta.
  destruct (N.eqb_spec b0 240), (N.eqb_spec b0 244); try lia; nbp; reflexivity.
Qed.

Lemma utf8_char_decodes c a :
  utf8_encode_char c = Some a ->
  forall f r, utf8_decode_fuel (S f) (a ++ r) = option_map (cons c) (utf8_decode_fuel f r).
Proof.
  unfold utf8_encode_char.
  destruct (N.ltb_spec c 128) as [H1|H1].
  { intros H%some_inj f r; subst a. cbn [app]. rewrite utf8_dec1 by lia. reflexivity. }
  destruct (N.ltb_spec c 2048) as [H2|H2].
  { intros H%some_inj f r; subst a. cbn [app]. rewrite utf8_dec2 by lia.
    do 2 f_equal. lia. }
  destruct (N.leb_spec 55296 c) as [H3|H3]; cbn [andb].
  - destruct (N.leb_spec c 57343) as [H4|H4]; [discriminate|].
    destruct (N.ltb_spec c 65536) as [H5|H5].
    { intros H%some_inj f r; subst a. cbn [app]. rewrite utf8_dec3.
      - do 2 f_equal. lia.
      - lia.
      - destruct (N.eqb_spec (224 + c / 4096) 224), (N.eqb_spec (224 + c / 4096) 237); lia.
      - lia. }
    destruct (N.ltb_spec c 1114112) as [H6|H6]; [|discriminate].
    intros H%some_inj f r; subst a. cbn [app]. rewrite utf8_dec4.
    + do 2 f_equal. lia.
    + lia.
    + destruct (N.eqb_spec (240 + c / 262144) 240), (N.eqb_spec (240 + c / 262144) 244); lia.
    + lia.
    + lia.
  - destruct (N.ltb_spec c 65536) as [H5|H5]; [|lia].
    intros H%some_inj f r; subst a. cbn [app]. rewrite utf8_dec3.
    + do 2 f_equal. lia.
    + lia.
    + destruct (N.eqb_spec (224 + c / 4096) 224), (N.eqb_spec (224 + c / 4096) 237); lia.
    + lia.
Qed.

Lemma utf8_encode_length s b : utf8_encode s = Some b -> (length s <= length b)%nat.
Proof.
  revert b; induction s as [|c s IH]; intros b H; cbn [utf8_encode] in H.
  - apply some_inj in H; subst b. apply Nat.le_refl.
  - destruct (utf8_encode_char c) as [a|] eqn:Ea; [|discriminate].
    destruct (utf8_encode s) as [b'|] eqn:Eb; [|discriminate].
    apply some_inj in H; subst b. specialize (IH b' eq_refl).
    assert (Ha : (1 <= length a)%nat).
    { destruct a as [|x a]; [|cbn [length]; lia].
      specialize (utf8_char_decodes c [] Ea 0%nat []). discriminate. }
    rewrite app_length. cbn [length]. lia.
Qed.

Lemma utf8_fuel_lawful s : forall b, utf8_encode s = Some b ->
  forall f, (length s < f)%nat -> utf8_decode_fuel f b = Some s.
Proof.
  induction s as [|c s IH]; intros b H f Hf; cbn [utf8_encode] in H.
  - apply some_inj in H; subst b. destruct f as [|f]; [inversion Hf|]. reflexivity.
  - destruct (utf8_encode_char c) as [a|] eqn:Ea; [|discriminate].
    destruct (utf8_encode s) as [b'|] eqn:Eb; [|discriminate].
    apply some_inj in H; subst b. destruct f as [|f]; [inversion Hf|].
    cbn [length] in Hf. rewrite (utf8_char_decodes c a Ea), (IH b' eq_refl f) by lia. reflexivity.
Qed.

(* 1. the existing utf-8 codec of Py/PyStr.v is lawful; the fuel [S (length b)] is sufficient *)
Theorem utf8_lawful : forall s b, utf8_encode s = Some b -> utf8_decode b = Some s.
Proof.
  intros s b H. unfold utf8_decode. apply (utf8_fuel_lawful s b H).
  apply utf8_encode_length in H. lia.
Qed.

Definition scalar (c : N) : Prop := c < 1114112 /\ ~ (55296 <= c <= 57343).

Lemma utf8_encode_char_total c : (exists a, utf8_encode_char c = Some a) <-> scalar c.
Proof.
  unfold utf8_encode_char, scalar.
  destruct (N.ltb_spec c 128); [split; [lia|eexists; reflexivity]|].
  destruct (N.ltb_spec c 2048); [split; [lia|eexists; reflexivity]|].
  destruct (N.leb_spec 55296 c); cbn [andb].
  - destruct (N.leb_spec c 57343); [split; [intros [a Ha]; discriminate|lia]|].
    destruct (N.ltb_spec c 65536); [split; [lia|eexists; reflexivity]|].
    destruct (N.ltb_spec c 1114112); [split; [lia|eexists; reflexivity]|].
    split; [intros [a Ha]; discriminate|lia].
  - destruct (N.ltb_spec c 65536); [split; [lia|eexists; reflexivity]|lia].
Qed.

Theorem utf8_encode_total_iff : forall s,
  (exists b, utf8_encode s = Some b) <-> (forall c, In c s -> scalar c).
Proof.
  induction s as [|c s IH]; cbn [utf8_encode In].
  - split; [intros _ c []|intros _; eexists; reflexivity].
  - split.
    + intros [b H] x [<-|Hx].
      * apply utf8_encode_char_total. destruct (utf8_encode_char c); [eexists; reflexivity|discriminate].
      * apply (proj1 IH); [|exact Hx]. destruct (utf8_encode_char c); [|discriminate].
        destruct (utf8_encode s); [eexists; reflexivity|discriminate].
    + intros H. destruct (proj2 (utf8_encode_char_total c) (H c (or_introl eq_refl))) as [a ->].
      destruct (proj2 IH (fun x Hx => H x (or_intror Hx))) as [b ->]. eexists; reflexivity.
Qed.

(* 3. *)
Theorem utf8_encode_total_on_scalars : forall s,
  (forall c, In c s -> c < 1114112 /\ ~ (55296 <= c <= 57343)) -> exists b, utf8_encode s = Some b.
Proof. intros s H. apply utf8_encode_total_iff. exact H. Qed.

(* 6. the decoder accepts canonical encodings only: whatever decodes re-encodes to the same bytes *)
Lemma utf8_enc1 c : c < 128 -> utf8_encode_char c = Some [c].
Proof. intros H. unfold utf8_encode_char. nbp. reflexivity. Qed.

Lemma utf8_enc2 b0 b1 : 194 <= b0 <= 223 -> 128 <= b1 <= 191 ->
  utf8_encode_char ((b0 - 192) * 64 + (b1 - 128)) = Some [b0; b1].
Proof.
  intros H0 H1. unfold utf8_encode_char. set (c := (b0 - 192) * 64 + (b1 - 128)).
  assert (Hc : c = (b0 - 192) * 64 + (b1 - 128)) by reflexivity. clearbody c.
  nbp. repeat f_equal; lia.
Qed.

Lemma utf8_enc3 b0 b1 b2 : 224 <= b0 <= 239 ->
  (if b0 =? 224 then 160 else 128) <= b1 <= (if b0 =? 237 then 159 else 191) -> 128 <= b2 <= 191 ->
  utf8_encode_char ((b0 - 224) * 4096 + (b1 - 128) * 64 + (b2 - 128)) = Some [b0; b1; b2].
Proof.
  intros H0 H1 H2. unfold utf8_encode_char. set (c := (b0 - 224) * 4096 + (b1 - 128) * 64 + (b2 - 128)).
  assert (Hc : c = (b0 - 224) * 4096 + (b1 - 128) * 64 + (b2 - 128)) by reflexivity. clearbody c.
  destruct (N.eqb_spec b0 224), (N.eqb_spec b0 237); try lia.
  - nbp. repeat f_equal; lia.
  - nbp. repeat f_equal; lia.
  - nbp. destruct (N.leb_spec 55296 c); cbn [andb]; nbp; repeat f_equal; lia.
Qed.

Lemma utf8_enc4 b0 b1 b2 b3 : 240 <= b0 <= 244 ->
  (if b0 =? 240 then 144 else 128) <= b1 <= (if b0 =? 244 then 143 else 191) ->
  128 <= b2 <= 191 -> 128 <= b3 <= 191 ->
  utf8_encode_char ((b0 - 240) * 262144 + (b1 - 128) * 4096 + (b2 - 128) * 64 + (b3 - 128)) = Some [b0; b1; b2; b3].
Proof.
  intros H0 H1 H2 H3. unfold utf8_encode_char.
  set (c := (b0 - 240) * 262144 + (b1 - 128) * 4096 + (b2 - 128) * 64 + (b3 - 128)).
  assert (Hc : c = (b0 - 240) * 262144 + (b1 - 128) * 4096 + (b2 - 128) * 64 + (b3 - 128)) by reflexivity.
  clearbody c.
  destruct (N.eqb_spec b0 240), (N.eqb_spec b0 244); try lia; nbp; repeat f_equal; lia.
Qed.

Lemma utf8_decode_fuel_encode : forall f b s, utf8_decode_fuel f b = Some s -> utf8_encode s = Some b.
Proof.
  induction f as [|f IH]; intros b s H; [discriminate|].
  destruct b as [|b0 r]; [apply some_inj in H; subst s; reflexivity|].
  assert (K : forall c r' a, option_map (cons c) (utf8_decode_fuel f r') = Some s ->
                             utf8_encode_char c = Some a -> utf8_encode s = Some (a ++ r')).
  { intros c r' a Hs Ha. destruct (utf8_decode_fuel f r') as [s'|] eqn:E; [|discriminate].
    cbn [option_map] in Hs. apply some_inj in Hs; subst s. cbn [utf8_encode].
    rewrite Ha, (IH _ _ E). reflexivity. }
  cbn [utf8_decode_fuel] in H. unfold cont_byte in H. cbv zeta in H.
  destruct (N.ltb_spec b0 128) as [L1|L1].
  { apply (K b0 r [b0] H). apply utf8_enc1; exact L1. }
  destruct (N.leb_spec 194 b0) as [L2|L2]; cbn [andb] in H.
  2:{ destruct (N.leb_spec 224 b0); [lia|]. destruct (N.leb_spec 240 b0); [lia|]. discriminate. }
  destruct (N.leb_spec b0 223) as [L3|L3].
  { destruct r as [|b1 r]; [discriminate|].
    destruct (N.leb_spec 128 b1); cbn [andb] in H; [|discriminate].
    destruct (N.leb_spec b1 191); [|discriminate].
    apply (K _ r [b0; b1] H). apply utf8_enc2; lia. }
  destruct (N.leb_spec 224 b0) as [L4|L4]; cbn [andb] in H.
  2:{ destruct (N.leb_spec 240 b0); [lia|]. discriminate. }
  destruct (N.leb_spec b0 239) as [L5|L5].
  { destruct r as [|b1 [|b2 r]]; try discriminate.
    destruct (N.leb_spec (if b0 =? 224 then 160 else 128) b1); cbn [andb] in H; [|discriminate].
    destruct (N.leb_spec b1 (if b0 =? 237 then 159 else 191)); cbn [andb] in H; [|discriminate].
    destruct (N.leb_spec 128 b2); cbn [andb] in H; [|discriminate].
    destruct (N.leb_spec b2 191); [|discriminate].
    apply (K _ r [b0; b1; b2] H). apply utf8_enc3; lia. }
  destruct (N.leb_spec 240 b0) as [L6|L6]; cbn [andb] in H; [|lia].
  destruct (N.leb_spec b0 244) as [L7|L7]; [|discriminate].
  destruct r as [|b1 [|b2 [|b3 r]]]; try discriminate.
  destruct (N.leb_spec (if b0 =? 240 then 144 else 128) b1); cbn [andb] in H; [|discriminate].
  destruct (N.leb_spec b1 (if b0 =? 244 then 143 else 191)); cbn [andb] in H; [|discriminate].
  destruct (N.leb_spec 128 b2); cbn [andb] in H; [|discriminate].
  destruct (N.leb_spec b2 191); cbn [andb] in H; [|discriminate].
  destruct (N.leb_spec 128 b3); cbn [andb] in H; [|discriminate].
  destruct (N.leb_spec b3 191); [|discriminate].
  apply (K _ r [b0; b1; b2; b3] H). apply utf8_enc4; lia.
Qed.

Theorem utf8_decode_encode : forall b s, utf8_decode b = Some s -> utf8_encode s = Some b.
Proof. intros b s. apply utf8_decode_fuel_encode. Qed.

(* ------------------------------------------------------------------ utf-16 *)
Lemma utf16_units_step be u r : u < 65536 ->
  utf16_units be ((if be then [u / 256; u mod 256] else le_bytes u) ++ r) = option_map (cons u) (utf16_units be r).
Proof.
  intros H. destruct be; unfold le_bytes; cbn [app utf16_units].
  - replace (u / 256 <? 256) with true by (symmetry; apply N.ltb_lt; lia).
    replace (u mod 256 <? 256) with true by (symmetry; apply N.ltb_lt; lia).
    cbn [andb]. do 2 f_equal. lia.
  - replace (u / 256 <? 256) with true by (symmetry; apply N.ltb_lt; lia).
    replace (u mod 256 <? 256) with true by (symmetry; apply N.ltb_lt; lia).
    cbn [andb]. do 2 f_equal. lia.
Qed.

Lemma utf16_join_bmp u r : u < 55296 \/ 57343 < u ->
  utf16_join (u :: r) = option_map (cons u) (utf16_join r).
Proof.
  intros H. cbn [utf16_join].
  destruct (N.ltb_spec u 55296); [reflexivity|]. destruct (N.ltb_spec 57343 u); [reflexivity|lia].
Qed.

Lemma utf16_join_pair u u2 r : 55296 <= u < 56320 -> 56320 <= u2 < 57344 ->
  utf16_join (u :: u2 :: r) = option_map (cons (65536 + (u - 55296) * 1024 + (u2 - 56320))) (utf16_join r).
Proof. intros H H2. cbn [utf16_join]. nbp. reflexivity. Qed.

(* the shape of the code units of one code point *)
Lemma utf16_units_of_char_spec c us : utf16_units_of_char c = Some us ->
  (us = [c] /\ (c < 55296 \/ 57343 < c) /\ c < 65536) \/
  (exists u u2, us = [u; u2] /\ 55296 <= u < 56320 /\ 56320 <= u2 < 57344 /\
                c = 65536 + (u - 55296) * 1024 + (u2 - 56320) /\ 65536 <= c < 1114112).
Proof.
  unfold utf16_units_of_char.
  destruct (N.ltb_spec c 55296) as [L1|L1]; [intros E%some_inj; left; split; [auto|lia]|].
  destruct (N.ltb_spec c 57344) as [L2|L2]; [discriminate|].
  destruct (N.ltb_spec c 65536) as [L3|L3]; [intros E%some_inj; left; split; [auto|lia]|].
  destruct (N.ltb_spec c 1114112) as [L4|L4]; [|discriminate].
  intros E%some_inj. right. eexists _, _. split; [symmetry; exact E|]. lia.
Qed.

Lemma utf16_char_decodes c us : utf16_units_of_char c = Some us ->
  forall r, utf16_join (us ++ r) = option_map (cons c) (utf16_join r).
Proof.
  intros H r. apply utf16_units_of_char_spec in H as [(-> & Hc & _)|(u & u2 & -> & Hu & Hu2 & -> & _)]; cbn [app].
  - apply utf16_join_bmp; exact Hc.
  - apply utf16_join_pair; assumption.
Qed.

Lemma utf16le_lawful s : forall b, utf16le_encode s = Some b ->
  exists us, utf16_units false b = Some us /\ utf16_join us = Some s.
Proof.
  induction s as [|c s IH]; intros b H; cbn [utf16le_encode] in H.
  - apply some_inj in H; subst b. exists []. split; reflexivity.
  - unfold utf16_encode_char in H.
    destruct (utf16_units_of_char c) as [usc|] eqn:Ec; [|discriminate]. cbn [option_map] in H.
    destruct (utf16le_encode s) as [b'|] eqn:Eb; [|discriminate].
    apply some_inj in H; subst b. destruct (IH b' eq_refl) as (us & Hus & Hj).
    exists (usc ++ us). split.
    + pose proof (utf16_units_of_char_spec c usc Ec) as [(-> & _ & Hc)|(u & u2 & -> & Hu & Hu2 & _)];
        cbn [flat_map]; rewrite ?app_nil_r, <- ?app_assoc.
      * rewrite (utf16_units_step false c) by exact Hc. rewrite Hus. reflexivity.
      * rewrite (utf16_units_step false u) by lia. rewrite (utf16_units_step false u2) by lia.
        rewrite Hus. reflexivity.
    + rewrite (utf16_char_decodes c usc Ec), Hj. reflexivity.
Qed.

(* 2. utf-16: the BOM written by the encoder is the one the decoder consumes (and only that one: a text starting
   with U+FEFF survives) *)
Theorem utf16_lawful : forall s b, utf16_encode s = Some b -> utf16_decode b = Some s.
Proof.
  intros s b H. unfold utf16_encode in H.
  destruct (utf16le_encode s) as [b'|] eqn:E; [|discriminate]. cbn [option_map] in H.
  apply some_inj in H; subst b. destruct (utf16le_lawful s b' E) as (us & Hus & Hj).
  unfold utf16_decode. replace ((255 =? 255) && (254 =? 254)) with true by reflexivity.
  unfold utf16_decode_units. rewrite Hus. exact Hj.
Qed.

Lemma utf16_encode_char_total c : (exists a, utf16_encode_char c = Some a) <-> scalar c.
Proof.
  unfold utf16_encode_char, utf16_units_of_char, scalar.
  destruct (N.ltb_spec c 55296); [split; [lia|eexists; reflexivity]|].
  destruct (N.ltb_spec c 57344); [split; [intros [a Ha]; discriminate|lia]|].
  destruct (N.ltb_spec c 65536); [split; [lia|eexists; reflexivity]|].
  destruct (N.ltb_spec c 1114112); [split; [lia|eexists; reflexivity]|].
  split; [intros [a Ha]; discriminate|lia].
Qed.

Theorem utf16_encode_total_iff : forall s,
  (exists b, utf16_encode s = Some b) <-> (forall c, In c s -> scalar c).
Proof.
  intros s. unfold utf16_encode.
  assert (H : (exists b, utf16le_encode s = Some b) <-> (forall c, In c s -> scalar c)).
  { induction s as [|c s IH]; cbn [utf16le_encode In].
    - split; [intros _ c []|intros _; eexists; reflexivity].
    - split.
      + intros [b H] x [<-|Hx].
        * apply utf16_encode_char_total. destruct (utf16_encode_char c); [eexists; reflexivity|discriminate].
        * apply (proj1 IH); [|exact Hx]. destruct (utf16_encode_char c); [|discriminate].
          destruct (utf16le_encode s); [eexists; reflexivity|discriminate].
      + intros H. destruct (proj2 (utf16_encode_char_total c) (H c (or_introl eq_refl))) as [a ->].
        destruct (proj2 IH (fun x Hx => H x (or_intror Hx))) as [b ->]. eexists; reflexivity. }
  rewrite <- H. split; intros [b Hb].
  - destruct (utf16le_encode s); [eexists; reflexivity|discriminate].
  - rewrite Hb. eexists; reflexivity.
Qed.

Theorem utf16_encode_total_on_scalars : forall s,
  (forall c, In c s -> c < 1114112 /\ ~ (55296 <= c <= 57343)) -> exists b, utf16_encode s = Some b.
Proof. intros s H. apply utf16_encode_total_iff. exact H. Qed.

(* utf-8 and utf-16 encode exactly the same texts *)
Corollary utf8_utf16_same_domain : forall s,
  (exists b, utf8_encode s = Some b) <-> (exists b, utf16_encode s = Some b).
Proof. intros s. rewrite utf8_encode_total_iff, utf16_encode_total_iff. reflexivity. Qed.

(* BOM facts checked against CPython: the empty text is just the BOM; a big-endian BOM is honoured *)
Example utf16_encode_empty : utf16_encode [] = Some [255; 254].
Proof. reflexivity. Qed.
Example utf16_decode_bom_only : utf16_decode [255; 254] = Some [] /\ utf16_decode [254; 255] = Some [] /\ utf16_decode [] = Some [].
Proof. repeat split. Qed.
(* a stream without BOM is an error for the file decoder (unlike bytes.decode) *)
Example utf16_decode_be : utf16_decode [254; 255; 0; 65] = Some [65] /\ utf16_decode [65; 0] = None.
Proof. split; vm_compute; reflexivity. Qed.

(* ------------------------------------------------------------------ the four encodings *)
Theorem codec_lawful : forall e s b, encode_with e s = Some b -> decode_with e b = Some s.
Proof.
  intros [] s b; cbn [encode_with decode_with].
  - apply utf8_lawful.
  - apply latin1_lawful.
  - apply cp1252_lawful.
  - apply utf16_lawful.
Qed.

(* 5. hence every encoder is injective *)
Theorem encode_with_injective : forall e s1 s2 b,
  encode_with e s1 = Some b -> encode_with e s2 = Some b -> s1 = s2.
Proof.
  intros e s1 s2 b H1 H2. apply codec_lawful in H1, H2. rewrite H1 in H2. apply some_inj in H2. exact H2.
Qed.

Corollary utf8_encode_injective : forall s1 s2 b, utf8_encode s1 = Some b -> utf8_encode s2 = Some b -> s1 = s2.
Proof. exact (encode_with_injective Utf8). Qed.
Corollary latin1_encode_injective : forall s1 s2 b, latin1_encode s1 = Some b -> latin1_encode s2 = Some b -> s1 = s2.
Proof. exact (encode_with_injective Latin1). Qed.
Corollary cp1252_encode_injective : forall s1 s2 b, cp1252_encode s1 = Some b -> cp1252_encode s2 = Some b -> s1 = s2.
Proof. exact (encode_with_injective Cp1252). Qed.
Corollary utf16_encode_injective : forall s1 s2 b, utf16_encode s1 = Some b -> utf16_encode s2 = Some b -> s1 = s2.
Proof. exact (encode_with_injective Utf16). Qed.

(* the utf-8 decoder is injective too (canonicity) *)
Corollary utf8_decode_injective : forall b1 b2 s, utf8_decode b1 = Some s -> utf8_decode b2 = Some s -> b1 = b2.
Proof.
  intros b1 b2 s H1 H2. apply utf8_decode_encode in H1, H2. rewrite H1 in H2. apply some_inj in H2. exact H2.
Qed.

(* ------------------------------------------------------------------ universal newlines *)
Lemma translate_nl_cons_other c r : c <> 13 -> translate_nl (c :: r) = c :: translate_nl r.
Proof. intros H. cbn [translate_nl]. unfold CR. apply N.eqb_neq in H. rewrite H. reflexivity. Qed.

Theorem translate_nl_id : forall s, ~ In 13 s -> translate_nl s = s.
Proof.
  induction s as [|c r IH]; intros H; [reflexivity|].
  rewrite translate_nl_cons_other.
  - f_equal. apply IH. intros Hr. apply H. right. exact Hr.
  - intros ->. apply H. left. reflexivity.
Qed.

Theorem translate_nl_no_cr : forall s, ~ In 13 (translate_nl s).
Proof.
  induction s as [|c r IH]; [intros []|].
  cbn [translate_nl]. unfold CR, NL. destruct (N.eqb_spec c 13) as [->|Hc].
  - intros [H|H]; [discriminate|]. destruct r as [|d r']; [destruct H|].
    destruct (N.eqb_spec d 10) as [->|Hd]; [|exact (IH H)].
    apply IH. rewrite translate_nl_cons_other by discriminate. right. exact H.
  - intros [H|H]; [congruence|exact (IH H)].
Qed.

Theorem translate_nl_idempotent : forall s, translate_nl (translate_nl s) = translate_nl s.
Proof. intros s. apply translate_nl_id. apply translate_nl_no_cr. Qed.

(* the three rewriting rules, as equations *)
Lemma translate_nl_crlf r : translate_nl (13 :: 10 :: r) = 10 :: translate_nl r.
Proof. reflexivity. Qed.
Lemma translate_nl_cr_end : translate_nl [13] = [10].
Proof. reflexivity. Qed.
Lemma translate_nl_cr_other d r : d <> 10 -> translate_nl (13 :: d :: r) = 10 :: translate_nl (d :: r).
Proof.
  intros H. cbn [translate_nl]. change (13 =? CR) with true. cbv iota. unfold NL at 2.
  apply N.eqb_neq in H. rewrite H. reflexivity.
Qed.

(* text never gets longer, and line feeds are never lost *)
Lemma translate_nl_length : forall s, (length (translate_nl s) <= length s)%nat.
Proof.
  intros s. remember (length s) as n eqn:Hn. revert s Hn.
  induction n as [n IH] using lt_wf_ind. intros s Hn.
  destruct s as [|c r]; [cbn; lia|]. cbn [translate_nl]. destruct (c =? CR).
  - destruct r as [|d r']; [cbn [length] in *; lia|]. destruct (d =? NL); cbn [length] in *.
    + specialize (IH (length r') ltac:(lia) r' eq_refl). lia.
    + specialize (IH (length (d :: r')) ltac:(cbn [length]; lia) (d :: r') eq_refl). cbn [length] in IH. lia.
  - cbn [length] in *. specialize (IH (length r) ltac:(lia) r eq_refl). lia.
Qed.

Theorem translate_nl_fixed_iff : forall s, translate_nl s = s <-> ~ In 13 s.
Proof.
  intros s. split; [|apply translate_nl_id].
  intros H. rewrite <- H. apply translate_nl_no_cr.
Qed.

(* what a text-mode read gives back after a write through codec [e] (on POSIX the text-mode write leaves '\n'
   alone): the text with its newlines normalised -- the text itself exactly when it has no carriage return *)
Theorem text_mode_read_back : forall e s b, encode_with e s = Some b ->
  option_map translate_nl (decode_with e b) = Some (translate_nl s).
Proof. intros e s b H. rewrite (codec_lawful e s b H). reflexivity. Qed.

Theorem text_mode_read_back_exact : forall e s b, encode_with e s = Some b ->
  (option_map translate_nl (decode_with e b) = Some s <-> ~ In 13 s).
Proof.
  intros e s b H. rewrite (text_mode_read_back e s b H), <- translate_nl_fixed_iff.
  split; [intros E%some_inj; exact E|intros ->; reflexivity].
Qed.

(* ------------------------------------------------------------------ entry point sanity *)
Example run_codec_ex :
  run_codec (L [I 0%Z; I 3%Z; Sstr [65]]) = L [L [SN 255; SN 254; SN 65; SN 0]] /\
  run_codec (L [I 1%Z; I 2%Z; Sstr [128]]) = L [Sstr [8364]] /\
  run_codec (L [I 1%Z; I 2%Z; Sstr [129]]) = L [] /\
  run_codec (L [I 2%Z; I 0%Z; Sstr [97; 13; 10; 13]]) = Sstr [97; 10; 10].
Proof. repeat split; vm_compute; reflexivity. Qed.

Print Assumptions utf8_lawful.
Print Assumptions latin1_lawful.
Print Assumptions cp1252_lawful.
Print Assumptions utf16_lawful.
Print Assumptions codec_lawful.
Print Assumptions utf8_encode_total_on_scalars.
Print Assumptions utf16_encode_total_on_scalars.
Print Assumptions latin1_encode_total_iff.
Print Assumptions translate_nl_id.
Print Assumptions translate_nl_no_cr.
Print Assumptions translate_nl_idempotent.
Print Assumptions text_mode_read_back_exact.
Print Assumptions encode_with_injective.
Print Assumptions utf8_decode_encode.
Print Assumptions cp1252_decode_encode.
