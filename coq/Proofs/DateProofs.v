(* Proofs about dates: strptime (strftime fmt d) = d truncated to the format's resolution. *)
From Coq Require Import ZArith NArith List Bool Arith Lia.
From Cfi Require Import Glue.Sx Py.PyStr Py.PyNum Py.PyDate.
Import ListNotations.

(* a date value in the domain of the property: a valid datetime with year >= 1000 *)
Definition dom_dt (d : dt) : Prop := valid_dt d = true /\ (1000 <= dY d)%Z.

(* a format in the directive subset in which no directive occurs twice, and in which a whitespace
   run is never followed by nothing that could start with whitespace (always true here) *)
Definition tok_id (t : dtok) : option nat :=
  match t with TY => Some 0 | TMo => Some 1 | TD => Some 2 | TH => Some 3 | TMi => Some 4 | TS => Some 5 | TF => Some 6 | _ => None end.
Definition directives (fmt : list dtok) : list nat :=
  flat_map (fun t => match tok_id t with Some i => [i] | None => [] end) fmt.
Definition wf_fmt (fmt : list dtok) : Prop :=
  NoDup (directives fmt) /\
  Forall (fun t => match t with
                   | TWs ws => ws <> [] /\ Forall (fun c => is_space c = true) ws
                   | TLit c => is_space c = false /\ digit_val c = None
                   | _ => True end) fmt /\
  (* whitespace runs in a format string are maximal: no two adjacent TWs tokens *)
  (forall a b l1 l2, fmt = l1 ++ TWs a :: TWs b :: l2 -> False).

(* the value at the resolution of the format: fields without a directive take strptime's defaults *)
Definition has (fmt : list dtok) (i : nat) : bool := existsb (Nat.eqb i) (directives fmt).
Definition trunc (fmt : list dtok) (d : dt) : dt :=
  {| dY := if has fmt 0 then dY d else 1900; dMo := if has fmt 1 then dMo d else 1; dD := if has fmt 2 then dD d else 1;
     dH := if has fmt 3 then dH d else 0; dMi := if has fmt 4 then dMi d else 0; dS := if has fmt 5 then dS d else 0;
     dUs := if has fmt 6 then dUs d else 0 |}.

(* ================================================================================================ *)
(* strftime_trunc *)

Lemma has_in : forall fmt t i, In t fmt -> tok_id t = Some i -> has fmt i = true.
Proof.
  intros fmt t i Hin Hid. unfold has. apply existsb_exists. exists i. split.
  - unfold directives. apply in_flat_map. exists t. split; [exact Hin|].
    rewrite Hid. left. reflexivity.
  - apply Nat.eqb_refl.
Qed.

Lemma fmt_tok_trunc : forall fmt d t, In t fmt -> fmt_tok (trunc fmt d) t = fmt_tok d t.
Proof.
  intros fmt d t Hin.
  destruct t as [ | | | | | | | c | ws]; unfold fmt_tok, trunc; cbn [dY dMo dD dH dMi dS dUs];
    try reflexivity.
  - rewrite (has_in fmt TY 0 Hin eq_refl). reflexivity.
  - rewrite (has_in fmt TMo 1 Hin eq_refl). reflexivity.
  - rewrite (has_in fmt TD 2 Hin eq_refl). reflexivity.
  - rewrite (has_in fmt TH 3 Hin eq_refl). reflexivity.
  - rewrite (has_in fmt TMi 4 Hin eq_refl). reflexivity.
  - rewrite (has_in fmt TS 5 Hin eq_refl). reflexivity.
  - rewrite (has_in fmt TF 6 Hin eq_refl). reflexivity.
Qed.

(* writing the truncated date again gives the same text (text stability for dates) *)
Theorem strftime_trunc : forall fmt d, strftime fmt (trunc fmt d) = strftime fmt d.
Proof.
  intros fmt d. unfold strftime. f_equal. apply map_ext_in.
  intros t Hin. apply fmt_tok_trunc. exact Hin.
Qed.

(* ================================================================================================ *)
(* the fold of parse_strftime, and trunc *)

Definition wr (d : dt) (acc : dt) (t : dtok) : dt :=
  match t with
  | TY => set_field TY (dY d) 4 acc | TMo => set_field TMo (dMo d) 2 acc
  | TD => set_field TD (dD d) 2 acc | TH => set_field TH (dH d) 2 acc
  | TMi => set_field TMi (dMi d) 2 acc | TS => set_field TS (dS d) 2 acc
  | TF => set_field TF (dUs d) 6 acc | _ => acc end.

Definition fval (d : dt) (t : dtok) : Z :=
  match t with
  | TY => dY d | TMo => dMo d | TD => dD d | TH => dH d | TMi => dMi d | TS => dS d | TF => dUs d
  | _ => 0%Z end.
Definition flen (t : dtok) : nat := match t with TY => 4 | TF => 6 | _ => 2 end.

Lemma wr_dir : forall d acc t, tok_id t <> None -> wr d acc t = set_field t (fval d t) (flen t) acc.
Proof.
  intros d acc t Hid. destruct t as [ | | | | | | | c | ws]; try reflexivity;
    cbn [tok_id] in Hid; congruence.
Qed.

Lemma set_field_TF6 : forall v acc,
  set_field TF v 6 acc =
  {| dY := dY acc; dMo := dMo acc; dD := dD acc; dH := dH acc; dMi := dMi acc; dS := dS acc; dUs := v |}.
Proof.
  intros v acc. unfold set_field.
  replace (v * 10 ^ (6 - Z.of_nat 6))%Z with v; [reflexivity|].
  change (10 ^ (6 - Z.of_nat 6))%Z with 1%Z. lia.
Qed.

Lemma has_cons : forall t fmt i,
  has (t :: fmt) i = (match tok_id t with Some j => Nat.eqb i j | None => false end) || has fmt i.
Proof.
  intros t fmt i. unfold has, directives. cbn [flat_map]. rewrite existsb_app.
  destruct (tok_id t) as [j|]; cbn [existsb]; [rewrite orb_false_r|]; reflexivity.
Qed.

Lemma fold_wr_fields : forall d fmt d0,
  fold_left (wr d) fmt d0 =
  {| dY := if has fmt 0 then dY d else dY d0; dMo := if has fmt 1 then dMo d else dMo d0;
     dD := if has fmt 2 then dD d else dD d0; dH := if has fmt 3 then dH d else dH d0;
     dMi := if has fmt 4 then dMi d else dMi d0; dS := if has fmt 5 then dS d else dS d0;
     dUs := if has fmt 6 then dUs d else dUs d0 |}.
Proof.
  intros d fmt. induction fmt as [|t fmt' IH]; intros d0.
  - destruct d0 as [y mo dd h mi s us]. reflexivity.
  - cbn [fold_left]. rewrite IH. rewrite !has_cons.
    destruct t as [ | | | | | | | c | ws]; cbn [wr tok_id]; try rewrite set_field_TF6;
      cbn [set_field Nat.eqb orb dY dMo dD dH dMi dS dUs];
      destruct (has fmt' 0), (has fmt' 1), (has fmt' 2), (has fmt' 3), (has fmt' 4),
               (has fmt' 5), (has fmt' 6); reflexivity.
Qed.

Lemma fold_wr_trunc : forall fmt d, fold_left (wr d) fmt dt_default = trunc fmt d.
Proof.
  intros fmt d. rewrite fold_wr_fields. unfold trunc, dt_default.
  cbn [dY dMo dD dH dMi dS dUs]. reflexivity.
Qed.

(* ================================================================================================ *)
(* matching infrastructure: the first alternative that matches the rendered text decides *)

Definition try_alts {B} (k : Z -> nat -> str -> option B) (s : str) (alts : list alt) : option B :=
  first_some (fun a => match match_alt a s 0 with
                       | Some (v, r) => k v (length a) r
                       | None => None
                       end) alts.

(* first alternative matching s *)
Fixpoint sel (alts : list alt) (s : str) : option (Z * nat * str) :=
  match alts with
  | [] => None
  | a :: r => match match_alt a s 0 with
              | Some (v, r') => Some (v, length a, r')
              | None => sel r s
              end
  end.

Lemma match_alt_app_str : forall a s rest acc, length a <= length s ->
  match_alt a (s ++ rest) acc =
  match match_alt a s acc with Some (v, r) => Some (v, r ++ rest) | None => None end.
Proof.
  intros a. induction a as [|cls a' IH]; intros s rest acc Hlen.
  - reflexivity.
  - destruct s as [|c r]; [cbn [length] in Hlen; lia|].
    cbn [match_alt app]. destruct (cls c) as [v|]; [|reflexivity].
    apply IH. cbn [length] in Hlen. lia.
Qed.

Lemma try_alts_sel : forall B (k : Z -> nat -> str -> option B) alts s rest v n b,
  forallb (fun a => length a <=? length s) alts = true ->
  sel alts s = Some (v, n, []) ->
  k v n rest = Some b ->
  try_alts k (s ++ rest) alts = Some b.
Proof.
  intros B k alts. induction alts as [|a r IH]; intros s rest v n b Hlen Hsel Hk.
  - cbn [sel] in Hsel. discriminate.
  - cbn [forallb] in Hlen. apply andb_true_iff in Hlen. destruct Hlen as [Hla Hlr].
    apply Nat.leb_le in Hla.
    unfold try_alts. cbn [first_some]. rewrite (match_alt_app_str a s rest 0%Z Hla).
    cbn [sel] in Hsel. destruct (match_alt a s 0) as [[v' r']|] eqn:Hm.
    + injection Hsel as Hv Hn Hr. subst v' n r'. cbn [app]. rewrite Hk. reflexivity.
    + apply (IH s rest v n b Hlr Hsel Hk).
Qed.

(* head of a string is not whitespace (and the string is non-empty) *)
Definition nsh1 (s : str) : Prop := match s with c :: _ => is_space c = false | [] => False end.
(* head of a string is not whitespace (or the string is empty) *)
Definition nsh (s : str) : Prop := match s with c :: _ => is_space c = false | [] => True end.

(* what we need of the rendering s of directive t with value v *)
Definition good (t : dtok) (s : str) (v : Z) (n : nat) : Prop :=
  forallb (fun a => length a <=? length s) (alts_of t) = true /\
  sel (alts_of t) s = Some (v, n, []) /\
  nsh1 s /\ nsh1 (rev s).

Definition chk (t : dtok) (s : str) (v : Z) (n : nat) : bool :=
  forallb (fun a => length a <=? length s) (alts_of t) &&
  (match sel (alts_of t) s with
   | Some (v', n', []) => (v' =? v)%Z && (n' =? n)
   | _ => false
   end) &&
  (match s with c :: _ => negb (is_space c) | [] => false end) &&
  (match rev s with c :: _ => negb (is_space c) | [] => false end).

Lemma chk_good : forall t s v n, chk t s v n = true -> good t s v n.
Proof.
  intros t s v n H. unfold chk in H.
  apply andb_true_iff in H. destruct H as [H H4].
  apply andb_true_iff in H. destruct H as [H H3].
  apply andb_true_iff in H. destruct H as [H1 H2].
  unfold good. split; [exact H1|]. split.
  - destruct (sel (alts_of t) s) as [[[v' n'] r']|]; [|discriminate].
    destruct r' as [|x r']; [|discriminate].
    apply andb_true_iff in H2. destruct H2 as [Hv Hn].
    apply Z.eqb_eq in Hv. apply Nat.eqb_eq in Hn. subst. reflexivity.
  - split.
    + unfold nsh1. destruct s as [|c r]; [discriminate|].
      apply negb_true_iff in H3. exact H3.
    + unfold nsh1. destruct (rev s) as [|c r]; [discriminate|].
      apply negb_true_iff in H4. exact H4.
Qed.

(* finite sweeps *)
Definition zrange (lo : Z) (n : nat) : list Z := map (fun i => (lo + Z.of_nat i)%Z) (seq 0 n).

Lemma sweep : forall (P : Z -> bool) lo n, forallb P (zrange lo n) = true ->
  forall v, (lo <= v < lo + Z.of_nat n)%Z -> P v = true.
Proof.
  intros P lo n H v Hv. rewrite forallb_forall in H. apply H.
  unfold zrange. apply in_map_iff. exists (Z.to_nat (v - lo)). split; [lia|].
  apply in_seq. lia.
Qed.

Lemma sweep_Mo : forall v, (1 <= v <= 12)%Z -> chk TMo (two v) v 2 = true.
Proof.
  intros v Hv. apply (sweep (fun v => chk TMo (two v) v 2) 1 12); [vm_compute; reflexivity | lia].
Qed.
Lemma sweep_D : forall v, (1 <= v <= 31)%Z -> chk TD (two v) v 2 = true.
Proof.
  intros v Hv. apply (sweep (fun v => chk TD (two v) v 2) 1 31); [vm_compute; reflexivity | lia].
Qed.
Lemma sweep_H : forall v, (0 <= v <= 23)%Z -> chk TH (two v) v 2 = true.
Proof.
  intros v Hv. apply (sweep (fun v => chk TH (two v) v 2) 0 24); [vm_compute; reflexivity | lia].
Qed.
Lemma sweep_Mi : forall v, (0 <= v <= 59)%Z -> chk TMi (two v) v 2 = true.
Proof.
  intros v Hv. apply (sweep (fun v => chk TMi (two v) v 2) 0 60); [vm_compute; reflexivity | lia].
Qed.
Lemma sweep_S : forall v, (0 <= v <= 59)%Z -> chk TS (two v) v 2 = true.
Proof.
  intros v Hv. apply (sweep (fun v => chk TS (two v) v 2) 0 60); [vm_compute; reflexivity | lia].
Qed.
Lemma sweep_Y : forall v, (1000 <= v <= 9999)%Z -> chk TY (dec_digits v) v 4 = true.
Proof.
  intros v Hv.
  apply (sweep (fun v => chk TY (dec_digits v) v 4) 1000 (Z.to_nat 9000)); [vm_compute; reflexivity | lia].
Qed.

(* ================================================================================================ *)
(* %f by arithmetic: zpad n (dec_digits z) is the n-digit positional rendering *)

Fixpoint p10 (n : nat) : Z := match n with O => 1%Z | S k => (10 * p10 k)%Z end.
Fixpoint digs (n : nat) (z : Z) : str :=
  match n with
  | O => []
  | S k => digs k (z / 10)%Z ++ [(48 + Z.to_N (z mod 10)%Z)%N]
  end.

Lemma p10_pos : forall n, (0 < p10 n)%Z.
Proof. intros n. induction n as [|k IH]; cbn [p10]; lia. Qed.

Lemma div10_lt : forall z q, (0 <= z)%Z -> (z < 10 * q)%Z -> (0 <= z / 10 < q)%Z.
Proof.
  intros z q H0 H. split.
  - apply Z.div_pos; lia.
  - apply Z.div_lt_upper_bound; lia.
Qed.

Lemma dof_digs : forall fuel z acc, (0 <= z < p10 fuel)%Z -> 1 <= fuel ->
  exists m, 1 <= m /\ digits_of_pos_fuel fuel z acc = digs m z ++ acc /\ (z < p10 m)%Z /\
            (forall n, 1 <= n -> (z < p10 n)%Z -> m <= n).
Proof.
  intros fuel. induction fuel as [|f IH]; intros z acc Hz Hf; [lia|].
  cbn [digits_of_pos_fuel]. destruct (Z.ltb_spec z 10) as [Hlt|Hge].
  - exists 1. split; [lia|]. split.
    + cbn [digs app]. rewrite Z.mod_small by lia. reflexivity.
    + split; [cbn [p10]; lia|]. intros n Hn Hzn. exact Hn.
  - cbn [p10] in Hz.
    assert (Hf1 : 1 <= f).
    { destruct f as [|f']; [cbn [p10] in Hz; lia | lia]. }
    assert (Hq : (0 <= z / 10 < p10 f)%Z) by (apply div10_lt; lia).
    destruct (IH (z / 10)%Z ((48 + Z.to_N (z mod 10)%Z)%N :: acc) Hq Hf1)
      as (m & Hm1 & Heq & Hlt & Hmin).
    exists (S m). split; [lia|]. split.
    + rewrite Heq. cbn [digs]. rewrite <- app_assoc. reflexivity.
    + split.
      * cbn [p10]. pose proof (Z.div_mod z 10) as Hdm.
        pose proof (Z.mod_pos_bound z 10) as Hmb. lia.
      * intros n Hn Hzn. destruct n as [|n']; [lia|]. cbn [p10] in Hzn.
        assert (Hn1 : 1 <= n').
        { destruct n' as [|n'']; [cbn [p10] in Hzn; lia | lia]. }
        assert (Hq' : (0 <= z / 10 < p10 n')%Z) by (apply div10_lt; lia).
        specialize (Hmin n' Hn1 (proj2 Hq')). lia.
Qed.

Lemma pow2_le_p10 : forall k, (2 ^ Z.of_nat k <= p10 k)%Z.
Proof.
  intros k. induction k as [|k IH].
  - cbn. lia.
  - rewrite Nat2Z.inj_succ, Z.pow_succ_r by lia. cbn [p10].
    assert (0 < 2 ^ Z.of_nat k)%Z by (apply Z.pow_pos_nonneg; lia). lia.
Qed.

Lemma fuel_ok : forall z, (0 <= z)%Z -> (z < p10 (S (Z.to_nat (Z.log2 z))))%Z.
Proof.
  intros z Hz. destruct (Z.eq_dec z 0) as [H0|Hn0].
  - subst z. cbn. lia.
  - assert (Hpos : (0 < z)%Z) by lia.
    pose proof (Z.log2_spec z Hpos) as [_ Hup].
    pose proof (Z.log2_nonneg z) as Hl.
    replace (Z.succ (Z.log2 z)) with (Z.of_nat (S (Z.to_nat (Z.log2 z)))) in Hup by lia.
    pose proof (pow2_le_p10 (S (Z.to_nat (Z.log2 z)))) as Hle. lia.
Qed.

Lemma dec_digits_digs : forall z, (0 <= z)%Z ->
  exists m, 1 <= m /\ dec_digits z = digs m z /\ (z < p10 m)%Z /\
            (forall n, 1 <= n -> (z < p10 n)%Z -> m <= n).
Proof.
  intros z Hz. unfold dec_digits.
  destruct (dof_digs (S (Z.to_nat (Z.log2 z))) z [] (conj Hz (fuel_ok z Hz)) ltac:(lia))
    as (m & Hm1 & Heq & Hlt & Hmin).
  exists m. rewrite app_nil_r in Heq. auto.
Qed.

Lemma digs_length : forall n z, length (digs n z) = n.
Proof.
  intros n. induction n as [|k IH]; intros z; [reflexivity|].
  cbn [digs]. rewrite app_length, IH. cbn [length]. lia.
Qed.

Lemma digs_zero : forall k, digs k 0 = repeat 48%N k.
Proof.
  intros k. induction k as [|k IH]; [reflexivity|].
  cbn [digs]. change (0 / 10)%Z with 0%Z. change (0 mod 10)%Z with 0%Z.
  rewrite IH. change (48 + Z.to_N 0)%N with 48%N. rewrite <- repeat_cons. reflexivity.
Qed.

Lemma digs_pad : forall m k z, (0 <= z < p10 m)%Z -> digs (k + m) z = repeat 48%N k ++ digs m z.
Proof.
  intros m. induction m as [|m IH]; intros k z Hz.
  - cbn [p10] in Hz. assert (z = 0%Z) by lia. subst z.
    rewrite Nat.add_0_r, digs_zero. cbn [digs]. rewrite app_nil_r. reflexivity.
  - rewrite Nat.add_succ_r. cbn [digs]. cbn [p10] in Hz.
    rewrite IH by (apply div10_lt; lia). rewrite app_assoc. reflexivity.
Qed.

Lemma zpad_digs : forall n z, 1 <= n -> (0 <= z < p10 n)%Z -> zpad n (dec_digits z) = digs n z.
Proof.
  intros n z Hn Hz. destruct (dec_digits_digs z (proj1 Hz)) as (m & Hm1 & Heq & Hlt & Hmin).
  specialize (Hmin n Hn (proj2 Hz)).
  unfold zpad. rewrite Heq, digs_length.
  rewrite <- (digs_pad m (n - m) z) by lia. f_equal. lia.
Qed.

Lemma match_alt_app_alt : forall a1 a2 s acc,
  match_alt (a1 ++ a2) s acc =
  match match_alt a1 s acc with Some (v, r) => match_alt a2 r v | None => None end.
Proof.
  intros a1. induction a1 as [|cls a1' IH]; intros a2 s acc.
  - reflexivity.
  - destruct s as [|c r]; [reflexivity|]. cbn [app match_alt].
    destruct (cls c) as [v|]; [apply IH | reflexivity].
Qed.

Lemma adigit09 : forall z, (0 <= z < 10)%Z -> adigit 0 9 (48 + Z.to_N z)%N = Some z.
Proof.
  intros z Hz. unfold adigit.
  assert (H1 : (48 + 0 <=? 48 + Z.to_N z)%N = true) by (apply N.leb_le; lia).
  assert (H2 : (48 + Z.to_N z <=? 48 + 9)%N = true) by (apply N.leb_le; lia).
  rewrite H1, H2. cbn [andb]. f_equal. lia.
Qed.

Lemma match_digs : forall n z r acc, (0 <= z)%Z ->
  match_alt (repeat (adigit 0 9) n) (digs n z ++ r) acc = Some ((acc * p10 n + z mod p10 n)%Z, r).
Proof.
  intros n. induction n as [|n IH]; intros z r acc Hz.
  - cbn [repeat digs app match_alt p10]. rewrite Z.mod_1_r. f_equal. f_equal. lia.
  - cbn [repeat]. rewrite repeat_cons. cbn [digs]. rewrite <- app_assoc.
    rewrite match_alt_app_alt. rewrite IH by (apply Z.div_pos; lia).
    cbn [app match_alt]. rewrite adigit09 by (apply Z.mod_pos_bound; lia).
    f_equal. f_equal. cbn [p10].
    rewrite (Z.rem_mul_r z 10 (p10 n)) by (pose proof (p10_pos n); lia). ring.
Qed.

Lemma is_space_digit : forall k, (k < 10)%N -> is_space (48 + k) = false.
Proof.
  intros k Hk.
  assert (Hc : (k = 0 \/ k = 1 \/ k = 2 \/ k = 3 \/ k = 4 \/ k = 5 \/ k = 6 \/ k = 7 \/ k = 8 \/ k = 9)%N) by lia.
  destruct Hc as [H|[H|[H|[H|[H|[H|[H|[H|[H|H]]]]]]]]]; subst k; vm_compute; reflexivity.
Qed.

Lemma good_F : forall v, (0 <= v <= 999999)%Z -> good TF (zpad 6 (dec_digits v)) v 6.
Proof.
  intros v Hv.
  assert (Hp : p10 6 = 1000000%Z) by reflexivity.
  rewrite zpad_digs by (rewrite ?Hp; lia).
  assert (Hm : match_alt (repeat (adigit 0 9) 6) (digs 6 v) 0 = Some (v, [])).
  { rewrite <- (app_nil_r (digs 6 v)). rewrite match_digs by lia.
    rewrite Z.mod_small by (rewrite Hp; lia). f_equal. }
  unfold good. split.
  - rewrite digs_length. vm_compute. reflexivity.
  - split.
    + unfold alts_of. cbn [sel]. rewrite Hm. rewrite repeat_length. reflexivity.
    + split.
      * cbn [digs app]. unfold nsh1. apply is_space_digit.
        pose proof (Z.mod_pos_bound (v / 10 / 10 / 10 / 10 / 10) 10). lia.
      * cbn [digs]. rewrite rev_app_distr. cbn [rev app]. unfold nsh1. apply is_space_digit.
        pose proof (Z.mod_pos_bound v 10). lia.
Qed.

(* ================================================================================================ *)
(* every directive's rendering is good *)

Lemma days_in_month_le : forall y m, (days_in_month y m <= 31)%Z.
Proof.
  intros y m. unfold days_in_month.
  destruct (m =? 2)%Z; [destruct (leap y); lia|].
  destruct ((m =? 4)%Z || (m =? 6)%Z || (m =? 9)%Z || (m =? 11)%Z); lia.
Qed.

Lemma valid_ranges : forall d, valid_dt d = true ->
  (1 <= dY d <= 9999 /\ 1 <= dMo d <= 12 /\ 1 <= dD d <= 31 /\ 0 <= dH d <= 23 /\
   0 <= dMi d <= 59 /\ 0 <= dS d <= 59 /\ 0 <= dUs d <= 999999)%Z.
Proof.
  intros d H. unfold valid_dt in H.
  repeat (apply andb_true_iff in H; let H' := fresh "Hb" in destruct H as [H H']).
  pose proof (days_in_month_le (dY d) (dMo d)) as Hdm.
  repeat match goal with
         | Hx : (_ <=? _)%Z = true |- _ => apply Z.leb_le in Hx
         end.
  lia.
Qed.

Lemma dir_good : forall d t, dom_dt d -> tok_id t <> None ->
  good t (fmt_tok d t) (fval d t) (flen t).
Proof.
  intros d t [Hv Hy] Hid.
  destruct (valid_ranges d Hv) as (HY & HMo & HD & HH & HMi & HS & HF).
  destruct t as [ | | | | | | | c | ws]; cbn [fmt_tok fval flen].
  - apply chk_good, sweep_Y. lia.
  - apply chk_good, sweep_Mo. lia.
  - apply chk_good, sweep_D. lia.
  - apply chk_good, sweep_H. lia.
  - apply chk_good, sweep_Mi. lia.
  - apply chk_good, sweep_S. lia.
  - apply good_F. lia.
  - cbn [tok_id] in Hid. congruence.
  - cbn [tok_id] in Hid. congruence.
Qed.

(* ================================================================================================ *)
(* formats *)

Lemma NoDup_app_r : forall (A : Type) (l l' : list A), NoDup (l ++ l') -> NoDup l'.
Proof.
  intros A l. induction l as [|x l IH]; intros l' H; [exact H|].
  cbn [app] in H. apply NoDup_cons_iff in H. destruct H as [_ H]. apply IH. exact H.
Qed.

Lemma wf_tail : forall t fmt, wf_fmt (t :: fmt) -> wf_fmt fmt.
Proof.
  intros t fmt (Hnd & Hall & Hadj). unfold wf_fmt. split.
  - unfold directives in Hnd. cbn [flat_map] in Hnd. apply NoDup_app_r in Hnd. exact Hnd.
  - split.
    + inversion Hall as [|x l Hx Hl]. exact Hl.
    + intros a b l1 l2 E. apply (Hadj a b (t :: l1) l2). rewrite E. reflexivity.
Qed.

Lemma strftime_cons : forall t fmt d, strftime (t :: fmt) d = fmt_tok d t ++ strftime fmt d.
Proof. intros t fmt d. reflexivity. Qed.

Lemma nsh1_app : forall s r, nsh1 s -> nsh (s ++ r).
Proof.
  intros s r H. destruct s as [|c s']; [destruct H|]. exact H.
Qed.

(* after a whitespace token of a well-formed format, the remaining text does not start with whitespace *)
Lemma next_nsh : forall ws fmt d rest, wf_fmt (TWs ws :: fmt) -> dom_dt d -> nsh rest ->
  nsh (strftime fmt d ++ rest).
Proof.
  intros ws fmt d rest Hwf Hd Hrest.
  destruct fmt as [|t fmt']; [exact Hrest|].
  rewrite strftime_cons, <- app_assoc. apply nsh1_app.
  destruct (tok_id t) as [i|] eqn:Hid.
  - assert (Hne : tok_id t <> None) by congruence.
    destruct (dir_good d t Hd Hne) as (_ & _ & H & _). exact H.
  - destruct Hwf as (_ & Hall & Hadj).
    destruct t as [ | | | | | | | c | ws']; try (cbn [tok_id] in Hid; discriminate).
    + inversion Hall as [|x l Hx Hl]. inversion Hl as [|x' l' Hx' Hl']. subst.
      cbn [fmt_tok]. unfold nsh1. exact (proj1 Hx').
    + exfalso. apply (Hadj ws ws' [] fmt'). reflexivity.
Qed.

Lemma ws_splits_nsh : forall s, nsh s -> ws_splits s = [].
Proof.
  intros s H. destruct s as [|c r]; [reflexivity|]. cbn [ws_splits]. unfold nsh in H.
  rewrite H. reflexivity.
Qed.

Lemma ws_splits_run : forall ws tail, ws <> [] -> Forall (fun c => is_space c = true) ws -> nsh tail ->
  exists l, ws_splits (ws ++ tail) = tail :: l.
Proof.
  intros ws. induction ws as [|c r IH]; intros tail Hne Hall Htail; [congruence|].
  inversion Hall as [|x l Hc Hr]. subst.
  cbn [app ws_splits]. rewrite Hc.
  destruct r as [|c' r'].
  - cbn [app]. rewrite (ws_splits_nsh tail Htail). exists []. reflexivity.
  - destruct (IH tail ltac:(discriminate) Hr Htail) as [l Hl].
    rewrite Hl. exists (l ++ [(c' :: r') ++ tail]). reflexivity.
Qed.

Lemma parse_dir : forall t fmt s d0, tok_id t <> None ->
  parse (t :: fmt) s d0 =
  try_alts (fun v len r => parse fmt r (set_field t v len d0)) s (alts_of t).
Proof.
  intros t fmt s d0 Hid.
  destruct t as [ | | | | | | | c | ws]; try reflexivity; cbn [tok_id] in Hid; congruence.
Qed.

Lemma parse_strftime_gen : forall d, dom_dt d -> forall fmt, wf_fmt fmt -> forall rest d0, nsh rest ->
  parse fmt (strftime fmt d ++ rest) d0 = Some (fold_left (wr d) fmt d0, rest).
Proof.
  intros d Hd fmt. induction fmt as [|t fmt' IH]; intros Hwf rest d0 Hrest.
  - reflexivity.
  - pose proof (wf_tail t fmt' Hwf) as Hwf'.
    rewrite strftime_cons, <- app_assoc. cbn [fold_left].
    destruct (tok_id t) as [i|] eqn:Hid.
    + assert (Hne : tok_id t <> None) by congruence.
      rewrite (parse_dir t fmt' _ d0 Hne).
      destruct (dir_good d t Hd Hne) as (Hlen & Hsel & _).
      rewrite (wr_dir d d0 t Hne).
      apply (try_alts_sel _ _ (alts_of t) (fmt_tok d t) (strftime fmt' d ++ rest)
                          (fval d t) (flen t) _ Hlen Hsel).
      apply (IH Hwf' rest _ Hrest).
    + destruct t as [ | | | | | | | c | ws]; try (cbn [tok_id] in Hid; discriminate).
      * cbn [fmt_tok app parse wr]. rewrite N.eqb_refl. apply (IH Hwf' rest d0 Hrest).
      * cbn [fmt_tok parse wr].
        pose proof (next_nsh ws fmt' d rest Hwf Hd Hrest) as Htail.
        destruct Hwf as (_ & Hall & _). inversion Hall as [|x l Hx Hl]. subst.
        destruct Hx as [Hne Hsp].
        destruct (ws_splits_run ws (strftime fmt' d ++ rest) Hne Hsp Htail) as [l' Hl'].
        rewrite Hl'. cbn [first_some]. rewrite (IH Hwf' rest d0 Hrest). reflexivity.
Qed.

(* every directive's rendering is parsed back by the FIRST alternative that matches it, consuming
   exactly the rendered characters (this is what makes the backtracking parser deterministic on
   written dates) *)
Theorem parse_strftime : forall fmt d rest d0, wf_fmt fmt -> dom_dt d ->
  (match rest with c :: _ => is_space c = false | [] => True end) ->
  parse fmt (strftime fmt d ++ rest) d0 =
  Some (fold_left (fun acc t => match t with
                                | TY => set_field TY (dY d) 4 acc | TMo => set_field TMo (dMo d) 2 acc
                                | TD => set_field TD (dD d) 2 acc | TH => set_field TH (dH d) 2 acc
                                | TMi => set_field TMi (dMi d) 2 acc | TS => set_field TS (dS d) 2 acc
                                | TF => set_field TF (dUs d) 6 acc | _ => acc end) fmt d0, rest).
Proof.
  intros fmt d rest d0 Hwf Hd Hrest.
  exact (parse_strftime_gen d Hd fmt Hwf rest d0 Hrest).
Qed.

(* main theorem: reading a written date gives the date at the resolution of the format, provided the
   truncated date is itself a valid date (e.g. a format without %Y maps Feb 29 to 1900-02-29, which
   CPython rejects: that case is excluded by the hypothesis) *)
Theorem strptime_strftime : forall fmt d, wf_fmt fmt -> dom_dt d -> valid_dt (trunc fmt d) = true ->
  strptime fmt (strftime fmt d) = Some (trunc fmt d).
Proof.
  intros fmt d Hwf Hd Hval. unfold strptime.
  rewrite <- (app_nil_r (strftime fmt d)).
  rewrite (parse_strftime_gen d Hd fmt Hwf [] dt_default Logic.I).
  rewrite fold_wr_trunc, Hval. reflexivity.
Qed.

(* ================================================================================================ *)
(* blank padding *)

Lemma lstrip_app : forall sp s t,
  lstrip sp (s ++ t) = match lstrip sp s with [] => lstrip sp t | x :: r => (x :: r) ++ t end.
Proof.
  intros sp s t. induction s as [|c r IH]; [reflexivity|].
  cbn [app lstrip]. destruct (sp c); [exact IH | reflexivity].
Qed.

Lemma lstrip_pad : forall n s, lstrip is_space (pad n ++ s) = lstrip is_space s.
Proof.
  intros n s. induction n as [|n IH]; [reflexivity|].
  unfold pad in *. cbn [repeat app lstrip].
  change (is_space SP) with true. cbn iota. exact IH.
Qed.

Lemma rev_pad : forall n, rev (pad n) = pad n.
Proof.
  intros n. unfold pad. induction n as [|n IH]; [reflexivity|].
  cbn [repeat rev]. rewrite IH. symmetry. apply repeat_cons.
Qed.

Lemma strip_pad : forall s n, strip is_space (s ++ pad n) = strip is_space s.
Proof.
  intros s n. unfold strip. rewrite lstrip_app.
  destruct (lstrip is_space s) as [|x r] eqn:Hl.
  - rewrite <- (app_nil_r (pad n)), lstrip_pad. reflexivity.
  - unfold rstrip. rewrite rev_app_distr, rev_pad, lstrip_pad. reflexivity.
Qed.

(* a sufficient condition on the format for Hstrip below: the format neither begins nor ends with a
   whitespace run *)
Definition edge_ok (fmt : list dtok) : Prop :=
  (match fmt with TWs _ :: _ => False | _ => True end) /\
  (match rev fmt with TWs _ :: _ => False | _ => True end).

Lemma tok_nsh1 : forall d t, dom_dt d ->
  (match t with
   | TWs ws => False
   | TLit c => is_space c = false /\ digit_val c = None
   | _ => True end) ->
  nsh1 (fmt_tok d t) /\ nsh1 (rev (fmt_tok d t)).
Proof.
  intros d t Hd Ht. destruct (tok_id t) as [i|] eqn:Hid.
  - assert (Hne : tok_id t <> None) by congruence.
    destruct (dir_good d t Hd Hne) as (_ & _ & H1 & H2). split; assumption.
  - destruct t as [ | | | | | | | c | ws]; try (cbn [tok_id] in Hid; discriminate).
    + cbn [fmt_tok rev app]. unfold nsh1. split; exact (proj1 Ht).
    + destruct Ht.
Qed.

Lemma lstrip_nsh : forall s, nsh s -> lstrip is_space s = s.
Proof.
  intros s H. destruct s as [|c r]; [reflexivity|]. unfold nsh in H. cbn [lstrip].
  rewrite H. reflexivity.
Qed.

Lemma strftime_app : forall f1 f2 d, strftime (f1 ++ f2) d = strftime f1 d ++ strftime f2 d.
Proof. intros f1 f2 d. unfold strftime. rewrite map_app, concat_app. reflexivity. Qed.

Lemma strftime_strip : forall fmt d, wf_fmt fmt -> dom_dt d -> edge_ok fmt ->
  strip is_space (strftime fmt d) = strftime fmt d.
Proof.
  intros fmt d (_ & Hall & _) Hd [Hhead Hlast].
  rewrite Forall_forall in Hall.
  assert (H1 : nsh (strftime fmt d)).
  { destruct fmt as [|t fmt']; [exact Logic.I|].
    rewrite strftime_cons. apply nsh1_app.
    apply (tok_nsh1 d t Hd). specialize (Hall t (or_introl eq_refl)).
    destruct t as [ | | | | | | | c | ws]; try exact Logic.I; [exact Hall | exact Hhead]. }
  assert (H2 : nsh (rev (strftime fmt d))).
  { destruct (rev fmt) as [|t r] eqn:Hrev.
    - assert (Hf : fmt = []).
      { rewrite <- (rev_involutive fmt), Hrev. reflexivity. }
      subst fmt. exact Logic.I.
    - assert (Hf : fmt = rev r ++ [t]).
      { rewrite <- (rev_involutive fmt), Hrev. reflexivity. }
      rewrite Hf, strftime_app, rev_app_distr.
      rewrite strftime_cons. change (strftime [] d) with (@nil N). rewrite app_nil_r.
      apply nsh1_app. apply (tok_nsh1 d t Hd).
      assert (Hin : In t fmt) by (rewrite Hf; apply in_or_app; right; left; reflexivity).
      specialize (Hall t Hin).
      destruct t as [ | | | | | | | c | ws]; try exact Logic.I; [exact Hall | exact Hlast]. }
  unfold strip, rstrip. rewrite (lstrip_nsh _ H1), (lstrip_nsh _ H2). apply rev_involutive.
Qed.

(* The statement of the specification (without Hstrip) is FALSE of the model: when the format begins
   or ends with a whitespace run, stripping removes text that the pattern's \s+ then fails to find. *)
Definition cex_d : dt := {| dY := 2024; dMo := 1; dD := 1; dH := 0; dMi := 0; dS := 0; dUs := 0 |}.
Example padded_counterexample_lead :
  valid_dt (trunc [TWs [32%N]; TY] cex_d) = true /\
  strptime [TWs [32%N]; TY] (strip is_space (ljust 0 (strftime [TWs [32%N]; TY] cex_d))) = None.
Proof. split; vm_compute; reflexivity. Qed.
Example padded_counterexample_trail :
  valid_dt (trunc [TY; TWs [32%N]] cex_d) = true /\
  strptime [TY; TWs [32%N]] (strip is_space (ljust 0 (strftime [TY; TWs [32%N]] cex_d))) = None.
Proof. split; vm_compute; reflexivity. Qed.

(* with the field's blank padding stripped first: what DatetimeField.read does on what it wrote.
   Extra hypothesis Hstrip (the written text neither begins nor ends with whitespace) is needed:
   see the counterexamples above. *)
Theorem date_roundtrip_padded : forall fmt d n, wf_fmt fmt -> dom_dt d -> valid_dt (trunc fmt d) = true ->
  strip is_space (strftime fmt d) = strftime fmt d ->
  strptime fmt (strip is_space (ljust n (strftime fmt d))) = Some (trunc fmt d).
Proof.
  intros fmt d n Hwf Hd Hval Hstrip. unfold ljust.
  rewrite strip_pad, Hstrip. apply strptime_strftime; assumption.
Qed.

(* the same under a condition on the format alone *)
Corollary date_roundtrip_padded_fmt : forall fmt d n, wf_fmt fmt -> dom_dt d ->
  valid_dt (trunc fmt d) = true -> edge_ok fmt ->
  strptime fmt (strip is_space (ljust n (strftime fmt d))) = Some (trunc fmt d).
Proof.
  intros fmt d n Hwf Hd Hval Hedge.
  apply date_roundtrip_padded; try assumption. apply strftime_strip; assumption.
Qed.

Print Assumptions parse_strftime.
Print Assumptions strptime_strftime.
Print Assumptions date_roundtrip_padded.
Print Assumptions strftime_trunc.
Print Assumptions date_roundtrip_padded_fmt.
