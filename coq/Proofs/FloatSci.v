(* E-notation (scientific) renderings: printer/parser inverse, shape and exact half-unit bound. No real numbers. *)
From Coq Require Import ZArith NArith List Bool Arith Lia.
From Coq Require Import Floats.SpecFloat.
From Cfi Require Import Glue.Sx Py.PyStr Py.PyNum Py.PyBits Py.PyDate Model.Field Model.Line.
From Cfi Require Import Proofs.FieldProofs Proofs.NumText Proofs.LineProofs.
Import ListNotations.

(* ===================================================================== *)
(* ilog10                                                                 *)
(* ===================================================================== *)

Lemma dec_digits_bounds : forall q, (1 <= q)%Z ->
  (1 <= Z.of_nat (length (dec_digits q)) /\
   10 ^ (Z.of_nat (length (dec_digits q)) - 1) <= q < 10 ^ Z.of_nat (length (dec_digits q)))%Z.
Proof.
  intros q Hq.
  assert (H0 : (0 <= q)%Z) by lia.
  destruct (dec_digits_spec q H0) as [Hne _ _ _ Hhi Hlo].
  assert (Hl : (1 <= Z.of_nat (length (dec_digits q)))%Z).
  { destruct (dec_digits q) as [|c r]; [congruence|]. cbn [length]. lia. }
  split; [exact Hl|]. split; [|exact Hhi].
  destruct Hlo as [Hlo|Hlo]; [exact Hlo|].
  rewrite Hlo. change (Z.of_nat 1 - 1)%Z with 0%Z. rewrite Z.pow_0_r. exact Hq.
Qed.

(* exact integer logarithm: 10^e <= num/den < 10^(e+1) *)
Theorem ilog10_spec : forall num den, (0 < num)%Z -> (0 < den)%Z ->
  let e := ilog10 num den in
  (if (0 <=? e)%Z then (den * 10 ^ e <= num < den * 10 ^ (e + 1))%Z
   else (num * 10 ^ (- e) >= den /\ num * 10 ^ (- e - 1) < den)%Z).
Proof.
  intros num den Hn Hd. cbv zeta. unfold ilog10.
  destruct (den <=? num)%Z eqn:E.
  - apply Z.leb_le in E.
    assert (Hq : (1 <= num / den)%Z) by (apply Z.div_le_lower_bound; lia).
    destruct (dec_digits_bounds _ Hq) as [Hl [Hlo Hhi]].
    assert (Hdm : num = (den * (num / den) + num mod den)%Z) by (apply Z.div_mod; lia).
    assert (Hm : (0 <= num mod den < den)%Z) by (apply Z.mod_pos_bound; lia).
    set (len := Z.of_nat (length (dec_digits (num / den)))) in *.
    set (q := (num / den)%Z) in *. set (r := (num mod den)%Z) in *.
    assert (E0 : (0 <=? len - 1)%Z = true) by (apply Z.leb_le; lia).
    rewrite E0.
    replace (len - 1 + 1)%Z with len by lia.
    split.
    + assert (H1 : (den * 10 ^ (len - 1) <= den * q)%Z) by (apply Z.mul_le_mono_nonneg_l; lia).
      lia.
    + assert (H1 : (den * (q + 1) <= den * 10 ^ len)%Z) by (apply Z.mul_le_mono_nonneg_l; lia).
      lia.
  - apply Z.leb_gt in E.
    set (c := ((den + num - 1) / num)%Z).
    assert (Hc2 : (2 <= c)%Z) by (apply Z.div_le_lower_bound; lia).
    assert (Hdm : (den + num - 1 = num * c + (den + num - 1) mod num)%Z) by (apply Z.div_mod; lia).
    assert (Hm : (0 <= (den + num - 1) mod num < num)%Z) by (apply Z.mod_pos_bound; lia).
    set (r := ((den + num - 1) mod num)%Z) in *.
    assert (Hq : (1 <= c - 1)%Z) by lia.
    destruct (dec_digits_bounds _ Hq) as [Hl [Hlo Hhi]].
    set (len := Z.of_nat (length (dec_digits (c - 1)))) in *.
    assert (E0 : (0 <=? - len)%Z = false) by (apply Z.leb_gt; lia).
    rewrite E0. rewrite Z.opp_involutive.
    split.
    + assert (H1 : (num * c <= num * 10 ^ len)%Z) by (apply Z.mul_le_mono_nonneg_l; lia).
      lia.
    + assert (H1 : (num * 10 ^ (len - 1) <= num * (c - 1))%Z) by (apply Z.mul_le_mono_nonneg_l; lia).
      lia.
Qed.

(* ===================================================================== *)
(* characters of a scientific text                                        *)
(* ===================================================================== *)

Definition splain (c : N) : Prop := plain c \/ c = 69%N \/ c = 101%N \/ c = PLUS.

Lemma splain_facts : forall c, splain c -> num_space c = false /\ translit c = c.
Proof.
  intros c [H|[H|[H|H]]].
  - apply plain_facts. exact H.
  - subst c. split; vm_compute; reflexivity.
  - subst c. split; vm_compute; reflexivity.
  - subst c. split; vm_compute; reflexivity.
Qed.

Lemma map_translit_splain : forall s, Forall splain s -> map translit s = s.
Proof.
  intros s H. induction H as [|c s Hc Hs IH]; [reflexivity|].
  cbn [map]. rewrite IH. destruct (splain_facts c Hc) as [_ Ht]. rewrite Ht. reflexivity.
Qed.

Lemma normalize_splain : forall a b s, Forall splain s -> normalize (pad a ++ s ++ pad b) = s.
Proof.
  intros a b s H. unfold normalize, pad.
  rewrite (strip_pad_forall num_space splain SP a b s num_space_SP).
  - apply map_translit_splain. exact H.
  - intros x Hx. destruct (splain_facts x Hx) as [Hn _]. exact Hn.
  - exact H.
Qed.

Lemma Forall_plain_splain : forall s, Forall plain s -> Forall splain s.
Proof.
  intros s H. apply Forall_impl with (P := plain); [|exact H]. intros c Hc. left. exact Hc.
Qed.

Lemma splain_not_comma : forall c, splain c -> c <> 44%N.
Proof.
  intros c [H|[H|[H|H]]] Hc.
  - exact (plain_not_comma c H Hc).
  - rewrite Hc in H. discriminate H.
  - rewrite Hc in H. discriminate H.
  - rewrite Hc in H. discriminate H.
Qed.

Lemma splain_notin_comma : forall t, Forall splain t -> ~ In 44%N t.
Proof.
  intros t H Hin. rewrite Forall_forall in H. exact (splain_not_comma _ (H _ Hin) eq_refl).
Qed.

(* ===================================================================== *)
(* the exponent part                                                      *)
(* ===================================================================== *)

Definition eletter (up : bool) : N := (if up then 69 else 101)%N.
Definition esign (e10 : Z) : N := if (e10 <? 0)%Z then MINUS else PLUS.
Definition exp_digits (e10 : Z) : str := zpad 2 (dec_digits (Z.abs e10)).

Lemma exp_text_unfold : forall up e10, exp_text up e10 = eletter up :: esign e10 :: exp_digits e10.
Proof. intros up e10. reflexivity. Qed.

Lemma sci_text_unfold : forall up neg n d e10,
  sci_text up neg n d e10 =
    sign_text neg ++ dec_digits (n / 10 ^ Z.of_nat d) ++ frac_tail n d ++ exp_text up e10.
Proof. intros up neg n d e10. reflexivity. Qed.

Lemma exp_digits_isd : forall e10, Forall isd (exp_digits e10).
Proof.
  intros e10. unfold exp_digits. apply zpad_isd.
  destruct (dec_digits_spec _ (Z.abs_nonneg e10)) as [_ Hdig _ _ _ _]. exact Hdig.
Qed.

Lemma exp_digits_ne : forall e10, exp_digits e10 <> [].
Proof.
  intros e10 Hc. apply (f_equal (@length N)) in Hc. unfold exp_digits in Hc.
  rewrite zpad_length in Hc. cbn [length] in Hc. lia.
Qed.

Lemma exp_digits_value : forall e10, Z_of_digits (map dv (exp_digits e10)) = Z.abs e10.
Proof.
  intros e10. unfold exp_digits. rewrite zpad_value.
  destruct (dec_digits_spec _ (Z.abs_nonneg e10)) as [_ _ Hval _ _ _]. exact Hval.
Qed.

Lemma eletter_splain : forall up, splain (eletter up).
Proof. intros up. destruct up; right; [left|right; left]; reflexivity. Qed.

Lemma esign_splain : forall e10, splain (esign e10).
Proof.
  intros e10. unfold esign. destruct (e10 <? 0)%Z.
  - left. right. left. reflexivity.
  - right. right. right. reflexivity.
Qed.

Lemma exp_text_splain : forall up e10, Forall splain (exp_text up e10).
Proof.
  intros up e10. rewrite exp_text_unfold.
  constructor; [apply eletter_splain|]. constructor; [apply esign_splain|].
  apply Forall_plain_splain. apply Forall_isd_plain. apply exp_digits_isd.
Qed.

Lemma sci_text_splain : forall up neg n d e10, (0 <= n)%Z -> Forall splain (sci_text up neg n d e10).
Proof.
  intros up neg n d e10 Hn. rewrite sci_text_unfold.
  assert (Hq : (0 <= n / 10 ^ Z.of_nat d)%Z) by (apply Z.div_pos; [lia | apply pow10_pos]).
  destruct (dec_digits_spec _ Hq) as [_ Hdig _ _ _ _].
  apply Forall_app. split; [apply Forall_plain_splain; apply sign_text_plain|].
  apply Forall_app. split; [apply Forall_plain_splain; apply Forall_isd_plain; exact Hdig|].
  apply Forall_app. split; [apply Forall_plain_splain; apply frac_tail_plain; exact Hn|].
  apply exp_text_splain.
Qed.

Lemma eletter_rest : forall up r, digits_rest (eletter up :: r) = ([], eletter up :: r).
Proof. intros up r. destruct up; reflexivity. Qed.

Lemma exp_text_rest : forall up e10, digits_rest (exp_text up e10) = ([], exp_text up e10).
Proof. intros up e10. rewrite exp_text_unfold. apply eletter_rest. Qed.

Lemma sci_tail_rest : forall n d up e10,
  digits_rest (frac_tail n d ++ exp_text up e10) = ([], frac_tail n d ++ exp_text up e10).
Proof.
  intros n d up e10. unfold frac_tail. destruct d as [|d'].
  - cbn [app]. apply exp_text_rest.
  - rewrite <- app_comm_cons. apply digits_rest_dot.
Qed.

Lemma eletter_dot : forall up, (eletter up =? DOT)%N = false.
Proof. intros up. destruct up; reflexivity. Qed.

Lemma eletter_lower : forall up, (lower (eletter up) =? 101)%N = true.
Proof. intros up. destruct up; reflexivity. Qed.

Lemma take_sign_esign : forall e10 r, take_sign (esign e10 :: r) = ((e10 <? 0)%Z, r).
Proof. intros e10 r. unfold esign. destruct (e10 <? 0)%Z; reflexivity. Qed.

(* what float_of_str does once it reaches the exponent part *)
Lemma exp_tail_parse : forall up e10 neg nn kk,
  match exp_text up e10 with
  | [] => Some (sf_of_dec neg nn kk)
  | c :: r3 =>
      if (lower c =? 101)%N then
        let (eneg, r4) := take_sign r3 in
        match digits_us r4 with
        | Some (es, []) =>
            let e := Z_of_digits es in
            Some (sf_of_dec neg nn (kk + (if eneg then - e else e))%Z)
        | _ => None
        end
      else None
  end = Some (sf_of_dec neg nn (kk + e10)%Z).
Proof.
  intros up e10 neg nn kk. rewrite exp_text_unfold.
  rewrite eletter_lower. rewrite take_sign_esign.
  rewrite (digits_us_all _ (exp_digits_isd e10) (exp_digits_ne e10)).
  cbv zeta. rewrite exp_digits_value.
  destruct (e10 <? 0)%Z eqn:E.
  - apply Z.ltb_lt in E. rewrite Z.abs_neq by lia. rewrite Z.opp_involutive. reflexivity.
  - apply Z.ltb_ge in E. rewrite Z.abs_eq by lia. reflexivity.
Qed.

(* ===================================================================== *)
(* float(sci_text)                                                        *)
(* ===================================================================== *)

Theorem sci_text_parse_padded : forall up neg n d e10 k, (0 <= n < 10 ^ (Z.of_nat d + 1))%Z ->
  float_of_str (pad k ++ sci_text up neg n d e10) = Some (sf_of_dec neg n (e10 - Z.of_nat d)).
Proof.
  intros up neg n d e10 k [Hn _].
  assert (Hp : (0 < 10 ^ Z.of_nat d)%Z) by apply pow10_pos.
  assert (Hq : (0 <= n / 10 ^ Z.of_nat d)%Z) by (apply Z.div_pos; lia).
  assert (Hm : (0 <= n mod 10 ^ Z.of_nat d < 10 ^ Z.of_nat d)%Z) by (apply Z.mod_pos_bound; exact Hp).
  assert (Hdm : n = (10 ^ Z.of_nat d * (n / 10 ^ Z.of_nat d) + n mod 10 ^ Z.of_nat d)%Z)
    by (apply Z.div_mod; lia).
  destruct (dec_digits_spec _ Hq) as [Hne1 Hdig1 Hval1 _ _ _].
  destruct Hm as [Hm0 Hm1].
  destruct (dec_digits_spec _ Hm0) as [Hne2 Hdig2 Hval2 _ _ _].
  assert (Hnorm : normalize (pad k ++ sci_text up neg n d e10) = sci_text up neg n d e10).
  { rewrite <- (app_nil_r (sci_text up neg n d e10)) at 1. change (@nil N) with (pad 0) at 1.
    apply normalize_splain. apply sci_text_splain. exact Hn. }
  unfold float_of_str. rewrite Hnorm. rewrite sci_text_unfold.
  set (D1 := dec_digits (n / 10 ^ Z.of_nat d)) in *.
  rewrite take_sign_text by assumption.
  unfold s_inf, s_infinity, s_nan.
  rewrite !str_eq_ci_digit by (assumption || reflexivity).
  cbn [orb]. unfold opt_digits at 1.
  rewrite digits_us_app by (assumption || apply sci_tail_rest).
  assert (Hnil : nil_b (map dv D1) = false).
  { destruct D1 as [|c r]; [congruence|reflexivity]. }
  unfold frac_tail. destruct d as [|d'].
  - cbn [app]. rewrite exp_text_unfold. rewrite eletter_dot.
    rewrite Hnil. cbn [andb]. rewrite app_nil_r. cbn [length]. fold dv in Hval1.
    rewrite Hval1. change (Z.of_nat 0) with 0%Z. rewrite Z.pow_0_r. rewrite Z.div_1_r.
    etransitivity; [apply exp_tail_parse|]. f_equal. f_equal. lia.
  - set (D2 := dec_digits (n mod 10 ^ Z.of_nat (S d'))) in *.
    rewrite <- app_comm_cons.
    assert (HDOT : (DOT =? DOT)%N = true) by reflexivity. rewrite HDOT.
    unfold opt_digits.
    assert (Hz : Forall isd (zpad (S d') D2)) by (apply zpad_isd; exact Hdig2).
    assert (Hzne : zpad (S d') D2 <> []).
    { intros Hc. apply (f_equal (@length N)) in Hc. rewrite zpad_length in Hc.
      cbn [length] in Hc. lia. }
    rewrite digits_us_app by (assumption || apply exp_text_rest).
    rewrite Hnil. cbn [andb].
    assert (Hlen : length (map dv (zpad (S d') D2)) = S d').
    { rewrite map_length. unfold D2. apply fixed_text_decimals; [exact Hn|lia]. }
    rewrite Hlen. rewrite Z_of_digits_app. rewrite Hlen. rewrite zpad_value.
    fold dv in Hval1, Hval2. rewrite Hval1, Hval2.
    replace (n / 10 ^ Z.of_nat (S d') * 10 ^ Z.of_nat (S d') + n mod 10 ^ Z.of_nat (S d'))%Z
      with n by lia.
    etransitivity; [apply exp_tail_parse|]. f_equal. f_equal. lia.
Qed.

Theorem sci_text_parse : forall up neg n d e10, (0 <= n < 10 ^ (Z.of_nat d + 1))%Z ->
  float_of_str (sci_text up neg n d e10) = Some (sf_of_dec neg n (e10 - Z.of_nat d)).
Proof.
  intros up neg n d e10 Hn. apply (sci_text_parse_padded up neg n d e10 0 Hn).
Qed.

(* ===================================================================== *)
(* scaled fractions                                                       *)
(* ===================================================================== *)

Definition sX (m : positive) (e : Z) : Z := if (0 <=? e)%Z then (Zpos m * 2 ^ e)%Z else Zpos m.
Definition sY (e : Z) : Z := if (0 <=? e)%Z then 1%Z else (2 ^ (- e))%Z.

Lemma scaled_unfold : forall m e k,
  scaled m e k = ((sX m e * (if 0 <=? k then 10 ^ k else 1))%Z,
                  (sY e * (if 0 <=? k then 1 else 10 ^ (- k)))%Z).
Proof. intros m e k. reflexivity. Qed.

Lemma sX_pos : forall m e, (0 < sX m e)%Z.
Proof.
  intros m e. unfold sX. destruct (0 <=? e)%Z eqn:E; [|lia].
  apply Z.leb_le in E. apply Z.mul_pos_pos; [lia|]. apply pow_pos_b; lia.
Qed.

Lemma sY_pos : forall e, (0 < sY e)%Z.
Proof.
  intros e. unfold sY. destruct (0 <=? e)%Z eqn:E; [lia|].
  apply Z.leb_gt in E. apply pow_pos_b; lia.
Qed.

Lemma scaled_0 : forall m e, scaled m e 0 = (sX m e, sY e).
Proof.
  intros m e. rewrite scaled_unfold. change (0 <=? 0)%Z with true. cbv iota.
  rewrite Z.pow_0_r. rewrite !Z.mul_1_r. reflexivity.
Qed.

(* the fraction scaled m e k is X/Y * 10^k *)
Lemma scaled_ratio : forall m e k a b, (0 <= a)%Z -> (0 <= b)%Z -> k = (a - b)%Z ->
  let (num, den) := scaled m e k in (num * sY e * 10 ^ b = sX m e * 10 ^ a * den)%Z.
Proof.
  intros m e k a b Ha Hb Hk. rewrite scaled_unfold. destruct (0 <=? k)%Z eqn:E.
  - apply Z.leb_le in E. replace a with (k + b)%Z by lia. rewrite Z.pow_add_r by lia. ring.
  - apply Z.leb_gt in E. replace b with (a + - k)%Z by lia. rewrite Z.pow_add_r by lia. ring.
Qed.

(* one more decimal in the exponent divides the fraction by ten *)
Lemma scaled_step : forall m e k,
  let (num, den) := scaled m e k in
  let (num', den') := scaled m e (k - 1) in (num * den' = 10 * num' * den)%Z.
Proof.
  intros m e k. rewrite !scaled_unfold.
  destruct (0 <=? k)%Z eqn:E1; destruct (0 <=? k - 1)%Z eqn:E2;
    try (apply Z.leb_le in E1); try (apply Z.leb_gt in E1);
    try (apply Z.leb_le in E2); try (apply Z.leb_gt in E2).
  - assert (H10 : (10 ^ k = 10 * 10 ^ (k - 1))%Z).
    { rewrite <- Z.pow_succ_r by lia. f_equal. lia. }
    rewrite H10. ring.
  - assert (Hk0 : k = 0%Z) by lia. subst k.
    change (- (0 - 1))%Z with 1%Z. rewrite Z.pow_0_r. rewrite Z.pow_1_r. ring.
  - lia.
  - assert (H10 : (10 ^ (- (k - 1)) = 10 * 10 ^ (- k))%Z).
    { rewrite <- Z.pow_succ_r by lia. f_equal. lia. }
    rewrite H10. ring.
Qed.

(* value * 10^(d - floor(log10 value)) lies in [10^d, 10^(d+1)) *)
Lemma sci_range : forall m e d,
  let (num, den) := scaled m e (Z.of_nat d - ilog10 (sX m e) (sY e)) in
  (10 ^ Z.of_nat d * den <= num < 10 ^ (Z.of_nat d + 1) * den)%Z.
Proof.
  intros m e d.
  pose proof (sX_pos m e) as HX. pose proof (sY_pos e) as HY.
  pose proof (ilog10_spec (sX m e) (sY e) HX HY) as HL. cbv zeta in HL.
  set (L := ilog10 (sX m e) (sY e)) in *.
  pose proof (scaled_pos m e (Z.of_nat d - L)) as HP.
  assert (Hd0 : (0 <= Z.of_nat d)%Z) by lia.
  assert (HPd : (0 < 10 ^ Z.of_nat d)%Z) by apply pow10_pos.
  assert (HPd1 : (10 ^ (Z.of_nat d + 1) = 10 * 10 ^ Z.of_nat d)%Z).
  { rewrite Z.pow_add_r by lia. rewrite Z.pow_1_r. ring. }
  rewrite HPd1.
  destruct (0 <=? L)%Z eqn:EL.
  - apply Z.leb_le in EL.
    pose proof (scaled_ratio m e (Z.of_nat d - L) (Z.of_nat d) L Hd0 EL eq_refl) as HR.
    destruct (scaled m e (Z.of_nat d - L)) as [num den]. destruct HP as [Hnum Hden].
    assert (HQ : (0 < 10 ^ L)%Z) by (apply pow_pos_b; lia).
    assert (HQ1 : (10 ^ (L + 1) = 10 * 10 ^ L)%Z).
    { rewrite Z.pow_add_r by lia. rewrite Z.pow_1_r. ring. }
    rewrite HQ1 in HL. destruct HL as [HL1 HL2].
    set (P := (10 ^ Z.of_nat d)%Z) in *. set (Q := (10 ^ L)%Z) in *.
    set (X := sX m e) in *. set (Y := sY e) in *.
    assert (HYQ : (0 < Y * Q)%Z) by (apply Z.mul_pos_pos; assumption).
    assert (HPden : (0 < P * den)%Z) by (apply Z.mul_pos_pos; assumption).
    assert (HR' : (num * (Y * Q) = (P * den) * X)%Z) by (rewrite <- Z.mul_assoc in HR; rewrite HR; ring).
    split.
    + apply (Z.mul_le_mono_pos_r _ _ (Y * Q)%Z HYQ). rewrite HR'.
      apply Z.mul_le_mono_nonneg_l; lia.
    + apply (Z.mul_lt_mono_pos_r (Y * Q)%Z _ _ HYQ). rewrite HR'.
      replace (10 * P * den * (Y * Q))%Z with ((P * den) * (Y * (10 * Q)))%Z by ring.
      apply Z.mul_lt_mono_pos_l; [exact HPden|exact HL2].
  - apply Z.leb_gt in EL.
    assert (Ha : (0 <= Z.of_nat d - L)%Z) by lia.
    pose proof (scaled_ratio m e (Z.of_nat d - L) (Z.of_nat d - L) 0 Ha (Z.le_refl 0) (eq_sym (Z.sub_0_r _))) as HR.
    destruct (scaled m e (Z.of_nat d - L)) as [num den]. destruct HP as [Hnum Hden].
    rewrite Z.pow_0_r in HR. rewrite Z.mul_1_r in HR.
    destruct HL as [HL1 HL2].
    assert (HQ : (0 < 10 ^ (- L - 1))%Z) by (apply pow_pos_b; lia).
    assert (HQ1 : (10 ^ (- L) = 10 * 10 ^ (- L - 1))%Z).
    { rewrite <- Z.pow_succ_r by lia. f_equal. lia. }
    assert (HQ2 : (10 ^ (Z.of_nat d - L) = 10 ^ Z.of_nat d * 10 ^ (- L))%Z).
    { rewrite <- Z.pow_add_r by lia. f_equal. }
    rewrite HQ2 in HR. rewrite HQ1 in HR, HL1.
    set (P := (10 ^ Z.of_nat d)%Z) in *. set (Q := (10 ^ (- L - 1))%Z) in *.
    set (X := sX m e) in *. set (Y := sY e) in *.
    assert (HPden : (0 < P * den)%Z) by (apply Z.mul_pos_pos; assumption).
    assert (HR' : (num * Y = (P * den) * (X * (10 * Q)))%Z) by (rewrite HR; ring).
    split.
    + apply (Z.mul_le_mono_pos_r _ _ Y HY). rewrite HR'.
      apply Z.mul_le_mono_nonneg_l; lia.
    + apply (Z.mul_lt_mono_pos_r Y _ _ HY). rewrite HR'.
      replace (P * den * (X * (10 * Q)))%Z with ((10 * P * den) * (X * Q))%Z by ring.
      apply Z.mul_lt_mono_pos_l; [lia|exact HL2].
Qed.

Lemma half_even_range : forall num den lo hi, (0 < den)%Z ->
  (lo * den <= num < hi * den)%Z -> (lo <= half_even_div num den <= hi)%Z.
Proof.
  intros num den lo hi Hd [H1 H2]. unfold half_even_div.
  assert (Hq1 : (lo <= num / den)%Z) by (apply Z.div_le_lower_bound; lia).
  assert (Hq2 : (num / den < hi)%Z) by (apply Z.div_lt_upper_bound; lia).
  destruct (den <? 2 * (num mod den))%Z; [lia|].
  destruct (2 * (num mod den) =? den)%Z; [|lia].
  destruct (Z.even (num / den)); lia.
Qed.

Lemma fmtE_finite_unfold : forall up s m e d,
  fmtE up (S754_finite s m e) d =
    if (round_dec m e (Z.of_nat d - ilog10 (sX m e) (sY e)) =? 10 ^ (Z.of_nat d + 1))%Z
    then sci_text up s (10 ^ Z.of_nat d) d (ilog10 (sX m e) (sY e) + 1)
    else sci_text up s (round_dec m e (Z.of_nat d - ilog10 (sX m e) (sY e))) d (ilog10 (sX m e) (sY e)).
Proof.
  intros up s m e d. cbn [fmtE]. rewrite scaled_0. reflexivity.
Qed.

Theorem fmtE_shape : forall up s m e d, exists n e10,
  fmtE up (S754_finite s m e) d = sci_text up s n d e10 /\
  (10 ^ Z.of_nat d <= n < 10 ^ (Z.of_nat d + 1))%Z /\
  let (num, den) := scaled m e (Z.of_nat d - e10) in (2 * Z.abs (n * den - num) <= den)%Z.
Proof.
  intros up s m e d. rewrite fmtE_finite_unfold.
  set (L := ilog10 (sX m e) (sY e)).
  pose proof (sci_range m e d) as HR. fold L in HR.
  pose proof (round_dec_half_unit m e (Z.of_nat d - L)) as HH.
  pose proof (scaled_pos m e (Z.of_nat d - L)) as HP.
  pose proof (scaled_step m e (Z.of_nat d - L)) as HS.
  assert (HPd : (0 < 10 ^ Z.of_nat d)%Z) by apply pow10_pos.
  assert (HPd1 : (10 ^ (Z.of_nat d + 1) = 10 * 10 ^ Z.of_nat d)%Z).
  { rewrite Z.pow_add_r by lia. rewrite Z.pow_1_r. ring. }
  assert (Hn0 : (10 ^ Z.of_nat d <= round_dec m e (Z.of_nat d - L) <= 10 ^ (Z.of_nat d + 1))%Z).
  { unfold round_dec. destruct (scaled m e (Z.of_nat d - L)) as [num den].
    destruct HP as [_ Hden]. apply half_even_range; assumption. }
  set (n0 := round_dec m e (Z.of_nat d - L)) in *.
  destruct (n0 =? 10 ^ (Z.of_nat d + 1))%Z eqn:En.
  - apply Z.eqb_eq in En.
    exists (10 ^ Z.of_nat d)%Z, (L + 1)%Z. split; [reflexivity|]. split; [lia|].
    replace (Z.of_nat d - (L + 1))%Z with (Z.of_nat d - L - 1)%Z by lia.
    pose proof (scaled_pos m e (Z.of_nat d - L - 1)) as HP'.
    destruct (scaled m e (Z.of_nat d - L)) as [num den].
    destruct (scaled m e (Z.of_nat d - L - 1)) as [num' den'].
    destruct HP as [Hnum Hden]. destruct HP' as [Hnum' Hden'].
    rewrite En in HH. rewrite HPd1 in HH.
    set (P := (10 ^ Z.of_nat d)%Z) in *.
    set (t := (P * den' - num')%Z).
    set (u := (10 * P * den - num)%Z) in *.
    assert (Htu : (den * (10 * t) = den' * u)%Z).
    { unfold t, u. replace (den' * (10 * P * den - num))%Z with (10 * P * den * den' - num * den')%Z by ring.
      rewrite HS. ring. }
    assert (Hu : (- den <= 2 * u <= den)%Z) by lia.
    assert (H1 : (den' * (2 * u) <= den' * den)%Z) by (apply Z.mul_le_mono_nonneg_l; lia).
    assert (H2 : (den' * (- den) <= den' * (2 * u))%Z) by (apply Z.mul_le_mono_nonneg_l; lia).
    assert (H3 : (den * (20 * t) <= den * den')%Z) by lia.
    assert (H4 : (den * (- den') <= den * (20 * t))%Z) by lia.
    apply Z.mul_le_mono_pos_l in H3; [|exact Hden].
    apply Z.mul_le_mono_pos_l in H4; [|exact Hden].
    lia.
  - apply Z.eqb_neq in En.
    exists n0, L. split; [reflexivity|]. split; [lia|]. exact HH.
Qed.

(* ===================================================================== *)
(* fields in E notation                                                   *)
(* ===================================================================== *)

Lemma fits_float_full : forall f dd sci up sep x, kind f = KFloat dd sci up sep ->
  missing (VFloat x) = false -> fits f (VFloat x) = true ->
  length (float_text_full true (size f) dd sci up sep x) <= size f.
Proof.
  intros f dd sci up sep x Hk Hm Hf. unfold fits in Hf.
  destruct (render f (VFloat x)) as [t|]; [|discriminate Hf].
  apply andb_true_iff in Hf. destruct Hf as [_ Hf]. rewrite Hk in Hf.
  rewrite Hm in Hf. cbn [orb] in Hf. apply Nat.leb_le in Hf. exact Hf.
Qed.

(* ---------- the shape of sf_of_dec: a zero, a finite number or an infinity, of the given sign; never a nan *)
Definition signed_shape (s : bool) (y : spec_float) : Prop :=
  y = S754_zero s \/ (exists m e, y = S754_finite s m e) \/ y = S754_infinity s.

Lemma shr_1_nonneg : forall mrs, (0 <= shr_m mrs)%Z -> (0 <= shr_m (shr_1 mrs))%Z.
Proof.
  intros [m r s0] H. cbn [shr_m] in H. destruct m as [|p|p]; [| |lia].
  - cbn. lia.
  - destruct p; cbn; lia.
Qed.

Lemma iter_shr_nonneg : forall p mrs, (0 <= shr_m mrs)%Z -> (0 <= shr_m (iter_pos shr_1 p mrs))%Z.
Proof.
  induction p as [p IH | p IH |]; intros mrs H; cbn [iter_pos].
  - apply IH. apply IH. apply shr_1_nonneg. exact H.
  - apply IH. apply IH. exact H.
  - apply shr_1_nonneg. exact H.
Qed.

Lemma shr_record_of_loc_m : forall m l, shr_m (shr_record_of_loc m l) = m.
Proof. intros m [|[| |]]; reflexivity. Qed.

Lemma shr_fexp_nonneg : forall prec emax m e l, (0 <= m)%Z ->
  (0 <= shr_m (fst (shr_fexp prec emax m e l)))%Z.
Proof.
  intros prec emax m e l H. unfold shr_fexp, shr.
  destruct (fexp prec emax (Zdigits2 m + e) - e)%Z; cbn [fst].
  - rewrite shr_record_of_loc_m. exact H.
  - apply iter_shr_nonneg. rewrite shr_record_of_loc_m. exact H.
  - rewrite shr_record_of_loc_m. exact H.
Qed.

Lemma round_nearest_even_nonneg : forall m l, (0 <= m)%Z -> (0 <= round_nearest_even m l)%Z.
Proof.
  intros m [|[| |]] H; cbn [round_nearest_even]; try lia. destruct (Z.even m); lia.
Qed.

Lemma binary_round_aux_shape : forall prec emax sx mx ex lx, (0 <= mx)%Z ->
  signed_shape sx (binary_round_aux prec emax sx mx ex lx).
Proof.
  intros prec emax sx mx ex lx H. unfold binary_round_aux.
  pose proof (shr_fexp_nonneg prec emax mx ex lx H) as H1.
  destruct (shr_fexp prec emax mx ex lx) as [mrs' e']. cbn [fst] in H1.
  pose proof (shr_fexp_nonneg prec emax (round_nearest_even (shr_m mrs') (loc_of_shr_record mrs')) e' loc_Exact
                (round_nearest_even_nonneg _ _ H1)) as H2.
  destruct (shr_fexp prec emax (round_nearest_even (shr_m mrs') (loc_of_shr_record mrs')) e' loc_Exact)
    as [mrs'' e'']. cbn [fst] in H2.
  destruct (shr_m mrs'') as [|p|p]; [left; reflexivity | | lia].
  destruct (Zle_bool e'' (emax - prec)).
  - right. left. exists p, e''. reflexivity.
  - right. right. reflexivity.
Qed.

Lemma binary_round_shape : forall prec emax sx mx ex, signed_shape sx (binary_round prec emax sx mx ex).
Proof.
  intros prec emax sx mx ex. unfold binary_round.
  destruct (shl_align mx ex (fexp prec emax (Zpos (digits2_pos mx) + ex))) as [mz ez].
  apply binary_round_aux_shape. lia.
Qed.

Lemma rn64_shape : forall neg n d, signed_shape neg (rn64 neg n d).
Proof.
  intros neg n d. unfold rn64, SFdiv, SFdiv_core_binary. cbv zeta.
  set (m' := match (0 - 0 - Z.min (fexp 53 1024 (Zdigits2 (Zpos n) + 0 - (Zdigits2 (Zpos d) + 0))) (0 - 0))%Z with
             | 0%Z => Zpos n
             | Zpos _ => Z.shiftl (Zpos n) (0 - 0 - Z.min (fexp 53 1024 (Zdigits2 (Zpos n) + 0 - (Zdigits2 (Zpos d) + 0))) (0 - 0))
             | Zneg _ => 0%Z
             end).
  assert (Hm' : (0 <= m')%Z).
  { unfold m'. destruct (0 - 0 - Z.min (fexp 53 1024 (Zdigits2 (Zpos n) + 0 - (Zdigits2 (Zpos d) + 0))) (0 - 0))%Z eqn:E;
      try lia. rewrite <- E. apply Z.shiftl_nonneg. lia. }
  pose proof (Z.div_pos m' (Zpos d) Hm' ltac:(lia)) as Hq. unfold Z.div in Hq.
  destruct (Z.div_eucl m' (Zpos d)) as [q r].
  rewrite xorb_false_r. apply binary_round_aux_shape. exact Hq.
Qed.

Theorem sf_of_dec_shape : forall s n k, signed_shape s (sf_of_dec s n k).
Proof.
  intros s n k. unfold sf_of_dec. destruct n as [|p|p]; [left; reflexivity | | left; reflexivity].
  destruct (400 <? Z.of_nat (length (dec_digits (Zpos p))) + k)%Z; [right; right; reflexivity|].
  destruct (Z.of_nat (length (dec_digits (Zpos p))) + k <? -400)%Z; [left; reflexivity|].
  destruct (0 <=? k)%Z eqn:Ek.
  - apply Z.leb_le in Ek.
    assert (Hp : (0 < Zpos p * 10 ^ k)%Z) by (apply Z.mul_pos_pos; [lia | apply pow_pos_b; lia]).
    unfold binary_normalize. destruct s.
    + destruct (- (Zpos p * 10 ^ k))%Z eqn:E; try lia. apply binary_round_shape.
    + destruct (Zpos p * 10 ^ k)%Z eqn:E; try lia. apply binary_round_shape.
  - destruct (10 ^ (- k))%Z; [left; reflexivity | apply rn64_shape | left; reflexivity].
Qed.

(* ---------- round() inside the E branch *)
Theorem sci_val_cases : forall s m e dd, sci_raises (S754_finite s m e) dd = false ->
  sci_val (S754_finite s m e) dd = S754_zero s \/
  exists m' e', sci_val (S754_finite s m e) dd = S754_finite s m' e'.
Proof.
  intros s m e dd H. unfold sci_raises in H. unfold sci_val.
  unfold py_round in *.
  destruct (323 <? sci_nd m e dd)%Z; [right; exists m, e; reflexivity|].
  destruct (sci_nd m e dd <? -308)%Z; [left; reflexivity|].
  destruct (sf_of_dec_shape s (round_dec m e (sci_nd m e dd)) (- sci_nd m e dd)) as [Hs | [[m' [e' Hs]] | Hs]];
    rewrite Hs in *.
  - left. reflexivity.
  - right. exists m', e'. reflexivity.
  - discriminate H.
Qed.

Theorem fits_not_raises : forall f dd up sep x, kind f = KFloat dd true up sep ->
  fits f (VFloat x) = true -> missing (VFloat x) = false -> sci_raises x dd = false.
Proof.
  intros f dd up sep x Hk Hf Hm. unfold fits, render, render_gen in Hf.
  rewrite Hm, Hk in Hf. cbn [andb] in Hf.
  destruct (sci_raises x dd); [discriminate Hf | reflexivity].
Qed.

Lemma fmtE_zero : forall up s d, fmtE up (S754_zero s) d = sci_text up s 0 d 0.
Proof. intros up s d. reflexivity. Qed.

(* the text of a finite value whose rendering fits, and what it reads back as, from the digits printed *)
Lemma reread_float_sci_of_text : forall f dd up sep s m e n e10, kind f = KFloat dd true up sep ->
  (sep = [DOT] \/ sep = [44%N]) -> fits f (VFloat (S754_finite s m e)) = true ->
  (0 <= n < 10 ^ (Z.of_nat dd + 1))%Z ->
  fmtE up (sci_val (S754_finite s m e) dd) dd = sci_text up s n dd e10 ->
  float_text true (size f) dd true up sep (S754_finite s m e) = replace [DOT] sep (sci_text up s n dd e10) /\
  reread f (VFloat (S754_finite s m e)) = VFloat (sf_of_dec s n (e10 - Z.of_nat dd)).
Proof.
  intros f dd up sep s m e n e10 Hk Hsep Hfits Hn Htxt.
  pose proof (fits_not_raises f dd up sep _ Hk Hfits eq_refl) as Hnr.
  pose proof (fits_float_full f dd true up sep (S754_finite s m e) Hk eq_refl Hfits) as Hlen.
  assert (Hft : float_text true (size f) dd true up sep (S754_finite s m e) =
                replace [DOT] sep (sci_text up s n dd e10)).
  { unfold float_text. cbn [is_zero negb andb]. rewrite firstn_all2 by exact Hlen.
    unfold float_text_full. cbn [is_zero negb andb]. unfold with_sep. rewrite Htxt. reflexivity. }
  split; [exact Hft|].
  assert (Hn0 : (0 <= n)%Z) by lia.
  unfold reread.
  rewrite (render_float f dd true up sep (S754_finite s m e) Hk eq_refl Hnr).
  rewrite Hk. cbn [interp]. rewrite Hft.
  rewrite (dialect_roundtrip sep _ _ Hsep (splain_notin_comma _ (sci_text_splain up s n dd e10 Hn0))).
  rewrite (sci_text_parse_padded up s n dd e10 _ Hn). reflexivity.
Qed.

(* n = 0 only if round() gave a zero (it never does on a finite double: FloatSciReal.sci_val_finite) *)
Theorem reread_float_sci_range : forall f dd up sep s m e, kind f = KFloat dd true up sep -> (sep = [DOT] \/ sep = [44%N]) ->
  fits f (VFloat (S754_finite s m e)) = true ->
  exists n e10, (n = 0 \/ 10 ^ Z.of_nat dd <= n)%Z /\ (0 <= n < 10 ^ (Z.of_nat dd + 1))%Z /\
    float_text true (size f) dd true up sep (S754_finite s m e) = replace [DOT] sep (sci_text up s n dd e10) /\
    fmtE up (sci_val (S754_finite s m e) dd) dd = sci_text up s n dd e10 /\
    reread f (VFloat (S754_finite s m e)) = VFloat (sf_of_dec s n (e10 - Z.of_nat dd)).
Proof.
  intros f dd up sep s m e Hk Hsep Hfits.
  pose proof (fits_not_raises f dd up sep _ Hk Hfits eq_refl) as Hnr.
  assert (Hp : (0 < 10 ^ Z.of_nat dd)%Z) by apply pow10_pos.
  destruct (sci_val_cases s m e dd Hnr) as [Hz | [m' [e' Hv]]].
  - exists 0%Z, 0%Z.
    assert (Hn : (0 <= 0 < 10 ^ (Z.of_nat dd + 1))%Z) by (split; [lia | apply pow_pos_b; lia]).
    assert (Htxt : fmtE up (sci_val (S754_finite s m e) dd) dd = sci_text up s 0 dd 0)
      by (rewrite Hz; apply fmtE_zero).
    destruct (reread_float_sci_of_text f dd up sep s m e 0 0 Hk Hsep Hfits Hn Htxt) as [H1 H2].
    split; [left; reflexivity|]. split; [exact Hn|]. split; [exact H1|]. split; [exact Htxt | exact H2].
  - destruct (fmtE_shape up s m' e' dd) as [n [e10 [Htxt0 [Hrange _]]]].
    exists n, e10.
    assert (Hn : (0 <= n < 10 ^ (Z.of_nat dd + 1))%Z) by lia.
    assert (Htxt : fmtE up (sci_val (S754_finite s m e) dd) dd = sci_text up s n dd e10)
      by (rewrite Hv; exact Htxt0).
    destruct (reread_float_sci_of_text f dd up sep s m e n e10 Hk Hsep Hfits Hn Htxt) as [H1 H2].
    split; [right; lia|]. split; [exact Hn|]. split; [exact H1|]. split; [exact Htxt | exact H2].
Qed.

Theorem reread_float_sci : forall f dd up sep s m e, kind f = KFloat dd true up sep -> (sep = [DOT] \/ sep = [44%N]) ->
  fits f (VFloat (S754_finite s m e)) = true ->
  exists n e10, (0 <= n < 10 ^ (Z.of_nat dd + 1))%Z /\
    float_text true (size f) dd true up sep (S754_finite s m e) = replace [DOT] sep (sci_text up s n dd e10) /\
    fmtE up (sci_val (S754_finite s m e) dd) dd = sci_text up s n dd e10 /\
    reread f (VFloat (S754_finite s m e)) = VFloat (sf_of_dec s n (e10 - Z.of_nat dd)).
Proof.
  intros f dd up sep s m e Hk Hsep Hfits.
  destruct (reread_float_sci_range f dd up sep s m e Hk Hsep Hfits) as [n [e10 [_ H]]].
  exists n, e10. exact H.
Qed.

Lemma pow10_range0 : forall d, (0 <= 0 < 10 ^ (Z.of_nat d + 1))%Z.
Proof. intros d. split; [lia|]. apply pow_pos_b; lia. Qed.

Theorem reread_float_sci_zero : forall f dd up sep s, kind f = KFloat dd true up sep -> (sep = [DOT] \/ sep = [44%N]) ->
  fits f (VFloat (S754_zero s)) = true -> reread f (VFloat (S754_zero s)) = VFloat (S754_zero s).
Proof.
  intros f dd up sep s Hk Hsep _.
  unfold reread.
  rewrite (render_float f dd true up sep (S754_zero s) Hk eq_refl eq_refl).
  rewrite Hk. cbn [interp].
  assert (Hft : exists d, float_text true (size f) dd true up sep (S754_zero s) =
                replace [DOT] sep (sci_text up s 0 d 0)).
  { unfold float_text, float_text_full. cbn [is_zero negb andb].
    destruct (first_fit_some (fun d => with_sep true sep (fmtE up (S754_zero s) d)) (size f) dd) as [d [_ He]].
    exists d. rewrite He. reflexivity. }
  destruct Hft as [d Hft]. rewrite Hft.
  rewrite (dialect_roundtrip sep _ _ Hsep (splain_notin_comma _ (sci_text_splain up s 0 d 0 (Z.le_refl 0)))).
  rewrite (sci_text_parse_padded up s 0 d 0 _ (pow10_range0 d)). reflexivity.
Qed.

Theorem reread_float_fixed_zero : forall f dd up sep s, kind f = KFloat dd false up sep -> (sep = [DOT] \/ sep = [44%N]) ->
  reread f (VFloat (S754_zero s)) = VFloat (S754_zero s).
Proof.
  intros f dd up sep s Hk Hsep.
  unfold reread.
  rewrite (render_float f dd false up sep (S754_zero s) Hk eq_refl eq_refl).
  rewrite Hk. cbn [interp].
  assert (Hft : exists d, float_text true (size f) dd false up sep (S754_zero s) =
                replace [DOT] sep (fixed_text s 0 d)).
  { unfold float_text, float_text_full. cbn [andb].
    destruct (first_fit_some (fun d => with_sep true sep (fmtF up (S754_zero s) d)) (size f) dd) as [d [_ He]].
    exists d. rewrite He. reflexivity. }
  destruct Hft as [d Hft]. rewrite Hft.
  rewrite (dialect_roundtrip sep _ _ Hsep (plain_notin_comma _ (fixed_text_plain s 0 d (Z.le_refl 0)))).
  rewrite (fixed_text_parse_padded s 0 d _ (Z.le_refl 0)). reflexivity.
Qed.

Print Assumptions ilog10_spec.
Print Assumptions sci_text_parse.
Print Assumptions sci_text_parse_padded.
Print Assumptions fmtE_shape.
Print Assumptions sf_of_dec_shape.
Print Assumptions sci_val_cases.
Print Assumptions fits_not_raises.
Print Assumptions reread_float_sci_range.
Print Assumptions reread_float_sci.
Print Assumptions reread_float_sci_zero.
Print Assumptions reread_float_fixed_zero.
