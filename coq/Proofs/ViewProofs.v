From Coq Require Import ZArith NArith List Bool Arith Lia Permutation.
From Cfi Require Import Glue.Sx Model.Version Model.View Proofs.VersionProofs.
Import ListNotations.

Lemma mem_In s l : mem s l = true <-> In s l.
Proof.
  induction l as [|a r IH]; simpl; [split; [discriminate|tauto]|].
  rewrite orb_true_iff, IH, str_eqb_eq. split; intros [H|H]; auto.
Qed.

(* the columns: exactly the class's property names that are not the framework's, sorted *)
Lemma custom_properties_spec all fw n :
  In n (custom_properties all fw) <-> In n all /\ ~ In n fw.
Proof.
  unfold custom_properties. rewrite filter_In. split.
  - intros [Hin Hm]. split.
    + eapply Permutation_in; [apply Permutation_sym, sort_perm|exact Hin].
    + intro Hf. apply mem_In in Hf. rewrite Hf in Hm. discriminate.
  - intros [Hin Hn]. split.
    + eapply Permutation_in; [apply sort_perm|exact Hin].
    + destruct (mem n fw) eqn:E; auto. apply mem_In in E. contradiction.
Qed.

Lemma custom_properties_sorted all fw : sorted (custom_properties all fw).
Proof. unfold custom_properties. apply sorted_filter. apply sort_sorted. Qed.

Section V.
  Variable cell : Type.
  Variable isinst : nat -> nat -> bool.
  Variable cols_of : nat -> list str.

  Definition of_type_regs (t : nat) (regs : list (reg cell)) := filter (fun r => isinst (r_type r) t) regs.

  Lemma as_df_empty t regs :
    of_type_regs t regs = [] -> as_df isinst t cols_of regs = ([], []).
  Proof. unfold as_df, of_type_regs. intros ->. reflexivity. Qed.

  Lemma as_df_no_columns t regs r0 rest :
    of_type_regs t regs = r0 :: rest -> cols_of (r_type r0) = [] -> as_df isinst t cols_of regs = ([], []).
  Proof. unfold as_df, of_type_regs. intros -> ->. reflexivity. Qed.

  Lemma as_df_rows t regs r0 rest :
    of_type_regs t regs = r0 :: rest -> cols_of (r_type r0) <> [] ->
    as_df isinst t cols_of regs =
      (cols_of (r_type r0), map (fun r => map (lookup_prop r) (cols_of (r_type r0))) (of_type_regs t regs)).
  Proof.
    unfold as_df, of_type_regs. intros H Hc. rewrite H.
    destruct (cols_of (r_type r0)) as [|c cs] eqn:E; [contradiction|]. reflexivity.
  Qed.

  (* one row per register of the type, in file order; one cell per column *)
  Lemma as_df_shape t regs cols rows :
    as_df isinst t cols_of regs = (cols, rows) -> cols <> [] ->
    length rows = length (of_type_regs t regs) /\ Forall (fun row => length row = length cols) rows.
  Proof.
    unfold as_df, of_type_regs. destruct (filter _ regs) as [|r0 rest] eqn:E.
    - intros [= <- <-] H. contradiction.
    - destruct (cols_of (r_type r0)) as [|c cs] eqn:Ec.
      + intros [= <- <-] H. contradiction.
      + intros H _. set (f := fun r : reg cell => map (lookup_prop r) (c :: cs)) in *.
        assert (Hc : cols = c :: cs) by congruence. assert (Hr : rows = map f (r0 :: rest)) by congruence.
        subst cols rows. split.
        * apply map_length.
        * apply Forall_forall. intros row Hin. apply in_map_iff in Hin as (r & <- & _). unfold f. rewrite map_length. reflexivity.
  Qed.
End V.
